"""Sidecar contracts for fsic functions (nothing in /repo is annotated)."""
