"""Per-program deductive check of generated code (D/prog; properties C01, C04, C20; DESIGN 4.2).

For a script s of the C01 grammar (a derivation tree rendered to text), the REAL fsic pipeline
parse_model -> build_model produces Model.CODE.  The generated `_evaluate` is extracted from that text with the
same front end as every other function and executed symbolically on a symbolic float store, a symbolic period t in
the default range and a symbolic span length.  It is proved, for ALL data and all feasible t, against the tree:

  * statements run in symbol-list order, each a single store into the left-hand-side cell (name, t + k_lhs),
  * each stored value equals the tree's right-hand side read on the store as updated so far (Gauss-Seidel),
    with exp/log/sqrt/** uninterpreted but identified, max/min/abs by their CPython definitions,
  * every read addresses exactly a cell (name, t + k) of a term (name, k) of that equation, inside 0 <= . < n,
  * nothing else is written (final store == reference store, as arrays),
  * the normalised `Symbol.equation`, read as NAME[t+k] cell accesses, denotes the same value.

Deductive in the data dimension, enumerated in the program dimension (the bound is the program catalogue).
"""
from __future__ import annotations

import ast
import time
from typing import Any, Dict, List, Sequence, Tuple

import z3

from pyvc import values as V
from pyvc.contracts import FunctionReport
from pyvc.ctx import Ctx, OutOfSubset, PathEnd, explore
from pyvc.extract import FuncInfo
from pyvc.interp import Frame, Interp, PyRaise
from pyvc.libspec import A, model, _MODELS
from pyvc.values import F64, INT, STR, SFloat, SInt, SObj, VarStore, VarView, wrap
from verif import grammar as G

import numpy as np

STORE = z3.ArraySort(STR, z3.ArraySort(INT, F64))


# uninterpreted-but-identified numeric functions (same symbols on both sides)
@model(np.exp)
def _m_exp(interp, args, kwargs, node):
    return SFloat(V.UF_EXP(V.to_float_term(args[0])))


@model(np.log)
def _m_log(interp, args, kwargs, node):
    return SFloat(V.UF_LOG(V.to_float_term(args[0])))


@model(np.sqrt)
def _m_sqrt(interp, args, kwargs, node):
    return SFloat(V.UF_SQRT(V.to_float_term(args[0])))


class LoggedView(VarView):
    def __init__(self, store, name_term, pyname, log):
        super().__init__(store, name_term)
        self.pyname = pyname
        self.log = log

    def at(self, i):
        self.log.append(('r', self.pyname, i))
        return super().at(i)

    def on_store(self, j, val):
        self.log.append(('w', self.pyname, j, val, self.store.data))

    @property
    def arr(self):
        return z3.Select(self.store.data, self.name)

    @arr.setter
    def arr(self, new):
        self.store.data = z3.Store(self.store.data, self.name, new)


def denote(e, data, t, lib):
    """Reference value of a tree on a symbolic store (z3 term wrapped as a value)."""
    if isinstance(e, G.Var):
        return wrap(z3.Select(z3.Select(data, z3.StringVal(e.name)), t + e.k))
    if isinstance(e, G.Num):
        return eval(e.text)
    if isinstance(e, G.Bin):
        a, b = denote(e.l, data, t, lib), denote(e.r, data, t, lib)
        op = {'+': 'Add', '-': 'Sub', '*': 'Mult', '/': 'Div', '**': 'Pow'}[e.op]
        return V.binop(op, a, b)
    if isinstance(e, G.Neg):
        return V.unaryop('USub', denote(e.x, data, t, lib))
    if isinstance(e, G.Paren):
        return denote(e.x, data, t, lib)
    if isinstance(e, G.Call):
        args = [denote(a, data, t, lib) for a in e.args]
        fn = {'exp': np.exp, 'log': np.log, 'np.sqrt': np.sqrt, 'abs': abs, 'max': max, 'min': min}[e.f]
        if not any(V.is_sym(a) for a in args):
            return fn(*args)
        return _MODELS[fn](lib, args, {}, None)
    if isinstance(e, G.Cond):
        a, b = denote(e.a, data, t, lib), denote(e.b, data, t, lib)
        c = V.compare({'<': 'Lt', '<=': 'LtE', '>': 'Gt', '>=': 'GtE', '==': 'Eq', '!=': 'NotEq'}[e.cmp], a, b)
        x, y = denote(e.x, data, t, lib), denote(e.y, data, t, lib)
        ct = V.truth(c)
        if isinstance(ct, bool):
            return x if ct else y
        # the generated code forked on this very condition: follow the branch of the current path (keeps constant folding identical)
        took = lib.ctx.decided.get(z3.simplify(ct).sexpr())
        if took is not None:
            return x if took else y
        return SFloat(z3.If(ct, V.to_float_term(x), V.to_float_term(y)))
    if isinstance(e, G.Verb):
        # a fragment that is a numeric literal denotes that number; any other fragment is arbitrary Python (bounded layer only)
        import ast as _ast
        try:
            v = _ast.literal_eval(e.text)
        except (ValueError, SyntaxError):
            v = None
        if isinstance(v, (int, float)) and not isinstance(v, bool):
            return v
    raise OutOfSubset(f'tree node {type(e).__name__} has no symbolic denotation')


class ProgramsContract:
    """A catalogue of programs, one scenario each."""
    qualname = '<generated>.Model._evaluate'
    props = ('C01', 'C04', 'C20')

    regions = {
        # recorded finding: a variable whose name starts with an underscore is generated as `self.__name`, which Python mangles
        'underscore-name': lambda inputs, ob: z3.BoolVal(ob.note == 'uses-underscore-name'),
    }

    def __init__(self, programs: Sequence[Tuple[str, List[G.Eq], G.Layout]]):
        self.programs = {name: (eqs, lay) for name, eqs, lay in programs}
        self.shards = {}

    def scenarios(self):
        return list(self.programs)

    def custom_generate(self, scen: str) -> FunctionReport:
        import fsic
        eqs, lay = self.programs[scen]
        script = G.render_script(eqs, lay)
        rep = FunctionReport(qualname=f'{self.qualname}[{scen}]')
        t0 = time.time()
        ref = G.classify(eqs)
        symbols = fsic.parse_model(script)
        Model = fsic.build_model(symbols)
        code = Model.CODE
        tree = ast.parse(code)
        fn = next(n for n in ast.walk(tree) if isinstance(n, ast.FunctionDef) and n.name == '_evaluate')
        import fsic.parser as fp
        fi = FuncInfo(fn, fp, f'{self.qualname}[{scen}]', owner=None)
        fi.mangle_class = 'Model'     # generated code lives in `class Model`: private names are mangled
        import hashlib
        rep.sha256 = hashlib.sha256(code.encode()).hexdigest()
        names = list(Model.NAMES)
        by_name = {}
        for q in eqs:
            by_name.setdefault(q.lhs.name, q)
        order = [n for n in ref['names'] if n in by_name]
        sym_by_name = {s.name: s for s in symbols}

        def run(ctx: Ctx):
            ctx.current_fn = f'{self.qualname}[{scen}]'
            ctx.default_props = self.props
            interp = Interp(ctx, None)
            n = ctx.fresh('n', INT)
            t = ctx.fresh('t', INT)
            lags, leads = int(Model.LAGS), int(Model.LEADS)
            # t ranges over the default solution range of the built class (C03/C04): LAGS <= t <= n - 1 - LEADS
            ctx.assume(z3.And(n >= lags + leads + 1, t >= lags, t <= n - 1 - leads))
            data0 = ctx.fresh('data', STORE)
            store = VarStore(data0, n)
            log: List[Tuple] = []
            obj = SObj(Model, {'index': ['status', 'iterations'] + list(names)}, label='model')
            obj.varstore = store
            obj.known_vars = tuple(names)
            obj.on_var_access = lambda pyname, vv: LoggedView(store, vv.name, pyname, log)
            ctx.inputs = {'n': n, 't': t}
            ctx.prove(z3.BoolVal(lags == ref['lags'] and leads == ref['leads']), 'LAGS_LEADS_equal_deepest_lag_and_furthest_lead_of_the_script',
                      'ensures', props=('C03', 'C04', 'C01'))
            try:
                interp.call_function(fi, [obj, SInt(t)], {}, self_obj=obj)
            except PyRaise as pr:
                under = any(v.name.startswith('_') for q in eqs for v in [q.lhs] + G.terms(q.rhs))
                ctx.prove(False, f'evaluation_pass_raises:{getattr(pr.exc, "cls", type(pr.exc)).__name__}@{getattr(pr.exc, "origin", "")}', 'raises',
                          note='uses-underscore-name' if under else '')
                return 'raise'
            # ---- reference: Gauss-Seidel over the tree, statement by statement on scalars ----
            writes = [w for w in log if w[0] == 'w']
            ctx.prove(z3.BoolVal([w[1] for w in writes] == list(order)),
                      'one_store_per_equation_in_symbol_order_and_nothing_else_is_written', 'ensures', note=str([w[1] for w in writes]))
            for w, nme in zip(writes, order):
                q = by_name[nme]
                _, wname, widx, wval, data_before = w
                if wname != nme:
                    continue
                ctx.prove(widx == t + q.lhs.k, f'statement_{nme}:stores_into_its_own_cell', 'ensures')
                want = V.to_float_term(denote(q.rhs, data_before, t, interp))
                ctx.prove(wval == want, f'statement_{nme}:assigns_its_right_hand_side_on_the_values_so_far', 'ensures')
            # reads: grouped per statement (reads that precede the k-th write belong to statement k)
            k = 0
            for ent in log:
                if ent[0] == 'w':
                    k += 1
                    continue
                _, pyname, idx = ent
                if k >= len(order):
                    ctx.prove(False, 'read_after_last_statement', 'ensures')
                    continue
                q = by_name[order[k]]
                offs = [v.k for v in G.terms(q.rhs) if v.name == pyname]
                ctx.prove(z3.Or(*[idx == t + o for o in offs]) if offs else z3.BoolVal(False),
                          f'read_of_{pyname}_is_at_a_written_lag_or_lead', 'ensures', props=('C01', 'C04', 'C20'))
                ctx.prove(z3.And(idx >= 0, idx < n), f'read_of_{pyname}_stays_inside_the_span', 'safety', props=('C04',))
            # every term of the tree is actually read (C20: every edge is read)
            for kk, nme in enumerate(order):
                q = by_name[nme]
                seg = []
                c = 0
                for ent in log:
                    if ent[0] == 'w':
                        c += 1
                    elif c == kk:
                        seg.append(ent)
                for v in G.always_read_terms(q.rhs):
                    hit = [z3.simplify(ent[2] == t + v.k) for ent in seg if ent[1] == v.name]
                    ctx.prove(z3.BoolVal(any(z3.is_true(h) for h in hit)), f'term_{v.name}[{v.k}]_is_read', 'ensures', props=('C01', 'C20'))
            # normalised equation text denotes the same value
            for nme in order:
                q = by_name[nme]
                s = sym_by_name.get(nme)
                if s is None or s.equation is None:
                    ctx.prove(False, f'symbol_{nme}_carries_its_equation', 'ensures')
                    continue
                self._check_equation_text(ctx, interp, s.equation, q, data0, n, t, names, rdata_before=None)
            return 'return'

        try:
            results, stats = explore(run, scenario=scen)
        except OutOfSubset as ex:
            rep.out_of_subset.append(f'[{scen}] {ex}')
            return rep
        except Exception as ex:  # parser rejected the program etc.
            rep.errors.append(f'{type(ex).__name__}: {ex}')
            raise
        rep.paths = stats['paths']
        rep.scenarios[scen] = stats
        seen = set()
        for ctx, out in results:
            rep.assumptions |= ctx.assumptions_used
            if out is not None:
                rep.outcomes[f'{scen}:{out}'] = rep.outcomes.get(f'{scen}:{out}', 0) + 1
            occ = {}
            for ob in ctx.obligations:
                k0 = ob.key()
                occ[k0] = occ.get(k0, 0) + 1
                kk = k0 + (occ[k0],)
                if kk in seen:
                    continue
                seen.add(kk)
                rep.obligations.append(ob)
        rep.seconds = time.time() - t0
        return rep

    def _check_equation_text(self, ctx, interp, text, q, data0, n, t, names, rdata_before):
        """`NAME[t+k] = expr` with every NAME[...] read as a cell of the (entry) store; exp/log/max/min bare names."""
        import re as _re
        # a partial verbatim fragment keeps its backticks in the equation text: it denotes the code between them
        text = _re.sub(r'`(.+?)`', r'\1', text)
        try:
            mod = ast.parse(text)
        except SyntaxError:
            ctx.prove(False, f'normalised_equation_of_{q.lhs.name}_is_python_syntax', 'ensures')
            return
        st = mod.body[0]
        # a bare name followed by `(` is a function, anything else a series: keep the two apart even when they share a name
        for nd in ast.walk(mod):
            if isinstance(nd, ast.Call) and isinstance(nd.func, ast.Name) and nd.func.id in ('exp', 'log', 'max', 'min', 'abs'):
                nd.func.id = '__fn_' + nd.func.id
        if not isinstance(st, ast.Assign) or len(st.targets) != 1:
            ctx.prove(False, f'normalised_equation_of_{q.lhs.name}_is_an_assignment', 'ensures')
            return
        import fsic.parser as fp
        dummy = FuncInfo(ast.parse('def _eq(): pass').body[0], fp, '<equation>', owner=None)
        fr = Frame(dummy)
        store = VarStore(data0, n)
        for nm in names:
            fr.locals[nm] = store.view(z3.StringVal(nm))
        fr.locals.update({'t': SInt(t), '__fn_exp': np.exp, '__fn_log': np.log, '__fn_max': max, '__fn_min': min, '__fn_abs': abs})
        try:
            val = interp.eval(st.value, fr)
            tgt = st.targets[0]
            ok_t = isinstance(tgt, ast.Subscript) and isinstance(tgt.value, ast.Name) and tgt.value.id == q.lhs.name
            idx = interp.eval(tgt.slice, fr) if ok_t else None
        except PyRaise:
            ctx.prove(False, f'normalised_equation_of_{q.lhs.name}_evaluates', 'ensures')
            return
        want = V.to_float_term(denote(q.rhs, data0, t, interp))
        ctx.prove(z3.BoolVal(bool(ok_t)), f'normalised_equation_of_{q.lhs.name}_assigns_its_own_cell', 'ensures')
        if ok_t:
            ctx.prove(V.to_int_term(idx) == t + q.lhs.k, f'normalised_equation_of_{q.lhs.name}_left_hand_side_offset', 'ensures')
        ctx.prove(V.to_float_term(val) == want, f'normalised_equation_of_{q.lhs.name}_denotes_the_script_expression', 'ensures')


def catalogue(tier: str, seed: int) -> List[Tuple[str, List[G.Eq], G.Layout]]:
    import random
    progs = []
    for i, p in enumerate(G.small_programs()):
        if p:
            progs.append((f'small{i:02d}', p, G.PLAIN))
    rnd = random.Random(1000 + seed)
    nrand = 400 if tier == 'thorough' else 60
    for i in range(nrand):
        g = G.Gen(rnd, max_depth=3)
        p = g.program(rnd.randint(1, 4))
        progs.append((f'rand{i:03d}', p, G.Layout.random(rnd)))
    return progs
