"""C01 - Term.__str__ (normalised rendering) and Term.code (generated access) for all names and offsets."""
from __future__ import annotations

import z3

import fsic.parser as fp
from fsic.parser import Term, Type
from pyvc import values as V
from pyvc.contracts import Call, FunctionContract
from pyvc.interp import exc_class
from pyvc.values import INT, STR, SInt, SObj, SStr

VARLIKE = (Type.VARIABLE, Type.EXOGENOUS, Type.ENDOGENOUS, Type.PARAMETER, Type.ERROR)
PLAIN = (Type.FUNCTION, Type.KEYWORD, Type.VERBATIM)


def offset_of(ctx, parts):
    """Offset denoted by the index text `[t]`, `[t+K]`, `[t-K]`, `[tK]` (K an integer rendered by str()).  Returns (z3 Int, side condition) or None."""
    if parts == [('c', '[t]')]:
        return z3.IntVal(0), z3.BoolVal(True)
    if len(parts) == 3 and parts[0][0] == 'c' and parts[1][0] == 'i' and parts[2] == ('c', ']'):
        head, e = parts[0][1], parts[1][1]
        if head == '[t+':
            return e, z3.BoolVal(True)
        if head == '[t-':
            return -e, z3.BoolVal(True)
        if head == '[t':
            return e, e < 0          # `[t-3]` only reads as an offset when the rendered integer carries its own minus sign
    return None


def split_after(parts, prefix_parts):
    """parts == prefix_parts ++ rest (structurally) -> rest, else None."""
    got = V.SStr(parts)
    want = V.SStr(prefix_parts)
    n = len(want.parts)
    if got.parts[:n] == want.parts:
        return got.parts[n:]
    # the last constant of the prefix may have merged with the next constant
    if n and want.parts[-1][0] == 'c' and len(got.parts) >= n and got.parts[:n - 1] == want.parts[:n - 1] and got.parts[n - 1][0] == 'c' \
            and got.parts[n - 1][1].startswith(want.parts[-1][1]):
        rest_first = got.parts[n - 1][1][len(want.parts[-1][1]):]
        return ([('c', rest_first)] if rest_first else []) + got.parts[n:]
    if n == 0:
        return got.parts
    return None


class TermContract(FunctionContract):
    props = ('C01', 'C14', 'C20')

    def __init__(self, which):
        self.which = which
        self.qualname = 'fsic.parser.Term.__str__' if which == 'str' else 'fsic.parser.Term.code'

    def scenarios(self):
        return [f'{t.name}/{ix}' for t in Type for ix in ('int', 'str', 'none')]

    def setup(self, interp, scenario):
        ctx = interp.ctx
        tn, ix = scenario.split('/')
        ty = Type[tn]
        name = ctx.fresh('name', STR)
        e = {'type': ty, 'name': name, 'ix': ix, 'inputs': {'name': name}}
        if ty is Type.VERBATIM:
            inner = ctx.fresh('inner', STR)
            ctx.assume(z3.And(z3.Length(inner) > 0, z3.Not(z3.Contains(inner, z3.StringVal('`')))))
            e['inner'] = inner
            nm = SStr([('c', '`'), ('s', inner), ('c', '`')])
        else:
            nm = SStr(name)
        e['name_val'] = nm
        if ix == 'int':
            e['k'] = ctx.fresh('k', INT)
            e['inputs']['k'] = e['k']
            index = SInt(e['k'])
        elif ix == 'str':
            e['s'] = ctx.fresh('index', STR)
            index = SStr(e['s'])
        else:
            index = None
        obj = SObj(Term, {'name': nm, 'type': ty, 'index_': index}, label='term')
        e['obj'] = obj
        if self.which == 'code':
            # `code` is a property: evaluated through the attribute protocol
            return Call([], {}, self_obj=obj, entry=e)
        return Call([], {}, self_obj=obj, entry=e)

    def post(self, interp, scenario, call, out):
        ctx = interp.ctx
        e = call.entry
        ty, ix = e['type'], e['ix']
        name_parts = e['name_val'].parts
        if out.kind == 'raise':
            ctx.prove(z3.BoolVal(exc_class(out.exc) is TypeError and ty not in PLAIN and ix == 'none'), 'TypeError_only_for_an_indexable_term_without_index', 'raises')
            return
        ctx.prove(z3.BoolVal(not (ty not in PLAIN and ix == 'none')), 'indexable_term_without_index_is_rejected', 'raises')
        r = out.value
        ok = isinstance(r, (SStr, str))
        ctx.prove(z3.BoolVal(ok), 'returns_text', 'ensures')
        if not ok:
            return
        rp = V.sstr(r).parts
        if self.which == 'str':
            if ty in PLAIN:
                ctx.prove(z3.BoolVal(rp == V.SStr(name_parts).parts), 'functions_keywords_and_verbatim_fragments_render_as_their_name', 'ensures')
                return
            rest = split_after(rp, name_parts)
            ctx.prove(z3.BoolVal(rest is not None), 'rendering_starts_with_the_name', 'ensures', note=str(rp))
            if rest is None:
                return
            if ix == 'int':
                od = offset_of(ctx, rest)
                ctx.prove(z3.BoolVal(od is not None), 'index_text_has_the_form_[t],[t+K],[t-K]', 'ensures', note=str(rest))
                if od is not None:
                    ctx.prove(z3.And(od[1], od[0] == e['k']), 'index_text_denotes_t_plus_the_offset', 'ensures')
            else:
                ctx.prove(z3.BoolVal(rest == [('c', '['), ('s', e['s']), ('c', ']')]), 'a_named_period_index_is_carried_unchanged', 'ensures', note=str(rest))
            return
        # ---- code ----
        if ty in (Type.FUNCTION, Type.KEYWORD):
            table = {'exp': 'np.exp', 'log': 'np.log', 'max': 'max', 'min': 'min'}
            ctx.prove(z3.BoolVal(dict(fp.replacement_function_names) == table), 'replacement_table_is_exp_log_max_min', 'ensures')
            want = e['name']
            for k_, v_ in table.items():
                want = z3.If(e['name'] == z3.StringVal(k_), z3.StringVal(v_), want)
            ctx.prove(V.z3_of(r) == want, 'exp_log_max_min_map_to_their_implementations_everything_else_is_untouched', 'ensures')
            return
        if ty is Type.VERBATIM:
            ctx.prove(z3.BoolVal(rp == [('s', e['inner'])]), 'verbatim_fragment_is_emitted_without_its_backticks_and_otherwise_untouched', 'ensures', note=str(rp))
            return
        if ix == 'str':
            ctx.prove(z3.BoolVal(rp == V.SStr([('c', "self['")] + name_parts + [('c', "', "), ('s', e['s']), ('c', ']')]).parts), 'named_period_access_form', 'ensures', note=str(rp))
            return
        rest = split_after(rp, [('c', 'self._')] + name_parts)
        ctx.prove(z3.BoolVal(rest is not None), 'variable_like_terms_access_the_underscore_prefixed_series', 'ensures', note=str(rp))
        if rest is not None:
            od = offset_of(ctx, rest)
            ctx.prove(z3.BoolVal(od is not None), 'index_text_has_the_form_[t],[t+K],[t-K]', 'ensures', note=str(rest))
            if od is not None:
                ctx.prove(z3.And(od[1], od[0] == e['k']), 'generated_access_reads_exactly_the_written_lag_or_lead', 'ensures')


CONTRACTS = [TermContract('str'), TermContract('code')]
