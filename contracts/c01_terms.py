"""C01 - Term.__str__ (normalised rendering) and Term.code (generated access) for all names and offsets."""
from __future__ import annotations

import z3

import fsic.parser as fp
from fsic.parser import Term, Type
from pyvc import values as V
from pyvc.contracts import Call, FunctionContract
from pyvc.interp import PyRaise, exc_class
from pyvc.values import INT, STR, SInt, SObj, SStr

VARLIKE = (Type.VARIABLE, Type.EXOGENOUS, Type.ENDOGENOUS, Type.PARAMETER, Type.ERROR)
PLAIN = (Type.FUNCTION, Type.KEYWORD, Type.VERBATIM)


def offset_of(ctx, parts):
    """Offset denoted by the index text `[t]`, `[t+K]`, `[t-K]`, `[tK]` (K an integer rendered by str()).  Returns (z3 Int, side condition) or None."""
    if parts == [('c', '[t]')]:
        return z3.IntVal(0), z3.BoolVal(True)
    if len(parts) == 3 and parts[0][0] == 'c' and parts[1][0] == 'i' and parts[2] == ('c', ']'):
        head, e = parts[0][1], parts[1][1]
        if head == '[t+':
            return e, z3.BoolVal(True)
        if head == '[t-':
            return -e, z3.BoolVal(True)
        if head == '[t':
            return e, e < 0          # `[t-3]` only reads as an offset when the rendered integer carries its own minus sign
    return None


def split_after(parts, prefix_parts):
    """parts == prefix_parts ++ rest (structurally) -> rest, else None."""
    got = V.SStr(parts)
    want = V.SStr(prefix_parts)
    n = len(want.parts)
    if got.parts[:n] == want.parts:
        return got.parts[n:]
    # the last constant of the prefix may have merged with the next constant
    if n and want.parts[-1][0] == 'c' and len(got.parts) >= n and got.parts[:n - 1] == want.parts[:n - 1] and got.parts[n - 1][0] == 'c' \
            and got.parts[n - 1][1].startswith(want.parts[-1][1]):
        rest_first = got.parts[n - 1][1][len(want.parts[-1][1]):]
        return ([('c', rest_first)] if rest_first else []) + got.parts[n:]
    if n == 0:
        return got.parts
    return None


class TermContract(FunctionContract):
    props = ('C01', 'C14', 'C20')

    def __init__(self, which):
        self.which = which
        self.qualname = 'fsic.parser.Term.__str__' if which == 'str' else 'fsic.parser.Term.code'

    def scenarios(self):
        return [f'{t.name}/{ix}' for t in Type for ix in ('int', 'str', 'none')]

    def setup(self, interp, scenario):
        ctx = interp.ctx
        tn, ix = scenario.split('/')
        ty = Type[tn]
        name = ctx.fresh('name', STR)
        e = {'type': ty, 'name': name, 'ix': ix, 'inputs': {'name': name}}
        if ty is Type.VERBATIM:
            inner = ctx.fresh('inner', STR)
            ctx.assume(z3.And(z3.Length(inner) > 0, z3.Not(z3.Contains(inner, z3.StringVal('`')))))
            e['inner'] = inner
            nm = SStr([('c', '`'), ('s', inner), ('c', '`')])
        else:
            nm = SStr(name)
        e['name_val'] = nm
        if ix == 'int':
            e['k'] = ctx.fresh('k', INT)
            e['inputs']['k'] = e['k']
            index = SInt(e['k'])
        elif ix == 'str':
            e['s'] = ctx.fresh('index', STR)
            index = SStr(e['s'])
        else:
            index = None
        obj = SObj(Term, {'name': nm, 'type': ty, 'index_': index}, label='term')
        e['obj'] = obj
        if self.which == 'code':
            # `code` is a property: evaluated through the attribute protocol
            return Call([], {}, self_obj=obj, entry=e)
        return Call([], {}, self_obj=obj, entry=e)

    def post(self, interp, scenario, call, out):
        ctx = interp.ctx
        e = call.entry
        ty, ix = e['type'], e['ix']
        name_parts = e['name_val'].parts
        if out.kind == 'raise':
            ctx.prove(z3.BoolVal(exc_class(out.exc) is TypeError and ty not in PLAIN and ix == 'none'), 'TypeError_only_for_an_indexable_term_without_index', 'raises')
            return
        ctx.prove(z3.BoolVal(not (ty not in PLAIN and ix == 'none')), 'indexable_term_without_index_is_rejected', 'raises')
        r = out.value
        ok = isinstance(r, (SStr, str))
        ctx.prove(z3.BoolVal(ok), 'returns_text', 'ensures')
        if not ok:
            return
        rp = V.sstr(r).parts
        if self.which == 'str':
            if ty in PLAIN:
                ctx.prove(z3.BoolVal(rp == V.SStr(name_parts).parts), 'functions_keywords_and_verbatim_fragments_render_as_their_name', 'ensures')
                return
            rest = split_after(rp, name_parts)
            ctx.prove(z3.BoolVal(rest is not None), 'rendering_starts_with_the_name', 'ensures', note=str(rp))
            if rest is None:
                return
            if ix == 'int':
                od = offset_of(ctx, rest)
                ctx.prove(z3.BoolVal(od is not None), 'index_text_has_the_form_[t],[t+K],[t-K]', 'ensures', note=str(rest))
                if od is not None:
                    ctx.prove(z3.And(od[1], od[0] == e['k']), 'index_text_denotes_t_plus_the_offset', 'ensures')
            else:
                ctx.prove(z3.BoolVal(rest == [('c', '['), ('s', e['s']), ('c', ']')]), 'a_named_period_index_is_carried_unchanged', 'ensures', note=str(rest))
            return
        # ---- code ----
        if ty in (Type.FUNCTION, Type.KEYWORD):
            table = {'exp': 'np.exp', 'log': 'np.log', 'max': 'max', 'min': 'min'}
            ctx.prove(z3.BoolVal(dict(fp.replacement_function_names) == table), 'replacement_table_is_exp_log_max_min', 'ensures')
            want = e['name']
            for k_, v_ in table.items():
                want = z3.If(e['name'] == z3.StringVal(k_), z3.StringVal(v_), want)
            ctx.prove(V.z3_of(r) == want, 'exp_log_max_min_map_to_their_implementations_everything_else_is_untouched', 'ensures')
            return
        if ty is Type.VERBATIM:
            ctx.prove(z3.BoolVal(rp == [('s', e['inner'])]), 'verbatim_fragment_is_emitted_without_its_backticks_and_otherwise_untouched', 'ensures', note=str(rp))
            return
        if ix == 'str':
            ctx.prove(z3.BoolVal(rp == V.SStr([('c', "self['")] + name_parts + [('c', "', "), ('s', e['s']), ('c', ']')]).parts), 'named_period_access_form', 'ensures', note=str(rp))
            return
        rest = split_after(rp, [('c', 'self._')] + name_parts)
        ctx.prove(z3.BoolVal(rest is not None), 'variable_like_terms_access_the_underscore_prefixed_series', 'ensures', note=str(rp))
        if rest is not None:
            od = offset_of(ctx, rest)
            ctx.prove(z3.BoolVal(od is not None), 'index_text_has_the_form_[t],[t+K],[t-K]', 'ensures', note=str(rest))
            if od is not None:
                ctx.prove(z3.And(od[1], od[0] == e['k']), 'generated_access_reads_exactly_the_written_lag_or_lead', 'ensures')


CONTRACTS = [TermContract('str'), TermContract('code')]


# ---------------------------------------------------------------------------------------------------------------
# parse_terms.process_term_match and parse_equation_terms
# ---------------------------------------------------------------------------------------------------------------
GROUPS = ['_VERBATIM', '_INVALID', '_KEYWORD', '_FUNCTION', '_PARAMETER', '_ERROR', '_VARIABLE']
INDEX_SHAPES = ['absent', 'single-quoted', 'double-quoted', 'backticked', 'digits', 'plus-digits', 'minus-digits', 'other']


class ProcessTermMatch(FunctionContract):
    qualname = 'fsic.parser.parse_terms.process_term_match'
    props = ('C01', 'C14')

    def scenarios(self):
        return [f'{g}/{ix}' for g in GROUPS for ix in INDEX_SHAPES]

    def setup(self, interp, scenario):
        from pyvc.interp import Closure, Frame
        from pyvc.extract import get_function
        ctx = interp.ctx
        g, ix = scenario.split('/')
        text = ctx.fresh('text', STR)
        e = {'group': g, 'ix': ix, 'text': text, 'inputs': {}}
        q = ctx.fresh('q', STR)
        m = ctx.fresh('m', INT)
        ctx.assume(m >= 0)
        e['q'], e['m'] = q, m
        index = {'absent': None, 'single-quoted': SStr([('c', "'"), ('s', q), ('c', "'")]), 'double-quoted': SStr([('c', '"'), ('s', q), ('c', '"')]),
                 'backticked': SStr([('c', '`'), ('s', q), ('c', '`')]), 'digits': SStr([('i', m)]), 'plus-digits': SStr([('c', '+'), ('i', m)]),
                 'minus-digits': SStr([('c', '-'), ('i', m)]), 'other': SStr(q)}[ix]
        if ix == 'other':
            # text that is neither quoted nor backticked; whether it is an integer literal is decided by int()
            for ch in ("'", '"', '`'):
                ctx.assume(z3.Not(z3.And(z3.PrefixOf(z3.StringVal(ch), q), z3.SuffixOf(z3.StringVal(ch), q))))
        e['index'] = index
        e['inputs']['m'] = m
        gd = {k: None for k in GROUPS}
        gd[g] = SStr(text)
        gd['INDEX'] = index

        class Match:
            def groupdict(self_):
                return dict(gd)

            def group(self_, k):
                return 'matched text'
        # the function is nested in parse_terms: run it as a closure over `expression`
        outer = get_function('fsic.parser.parse_terms')
        fr = Frame(outer)
        fr.locals['expression'] = 'expression text'
        e['closure_frame'] = fr
        self._closure_frame = fr
        return Call([Match()], {}, entry=e)

    def post(self, interp, scenario, call, out):
        from fsic.exceptions import ParserError
        ctx = interp.ctx
        e = call.entry
        g, ix = e['group'], e['ix']
        indexed = g not in ('_FUNCTION', '_KEYWORD')
        if out.kind == 'raise':
            ctx.prove(z3.BoolVal(exc_class(out.exc) is ParserError and indexed and ix == 'other'), 'ParserError_only_for_index_text_that_is_not_an_integer', 'raises')
            if ix == 'other':
                from pyvc.libspec import IS_INT_LITERAL
                ctx.prove(z3.Not(IS_INT_LITERAL(e['q'])), 'ParserError_iff_the_text_is_not_an_integer_literal', 'raises')
            return
        r = out.value
        ok = isinstance(r, SObj) and r.cls is Term
        ctx.prove(z3.BoolVal(ok), 'returns_a_Term', 'ensures')
        if not ok:
            return
        f = r.fields
        ctx.prove(z3.BoolVal(f['type'] is Type[g[1:]]), 'term_type_is_the_matched_group', 'ensures')
        ctx.prove(V.z3_of(f['name']) == e['text'], 'term_name_is_the_matched_text', 'ensures')
        idx = f['index_']
        if not indexed:
            ctx.prove(z3.BoolVal(idx is None), 'functions_and_keywords_carry_no_index', 'ensures')
            return
        if ix == 'absent':
            ctx.prove(z3.BoolVal(idx == 0 and not V.is_sym(idx)), 'no_index_means_the_current_period', 'ensures')
        elif ix in ('single-quoted', 'double-quoted'):
            ctx.prove(z3.BoolVal(isinstance(idx, SStr) and idx.parts == e['index'].parts), 'quoted_period_is_kept_as_text', 'ensures')
        elif ix == 'backticked':
            ctx.prove(z3.BoolVal(isinstance(idx, SStr) and idx.parts == [('s', e['q'])]), 'backticked_period_is_kept_as_text_without_backticks', 'ensures')
        elif ix in ('digits', 'plus-digits', 'minus-digits'):
            want = -e['m'] if ix == 'minus-digits' else e['m']
            ctx.prove(z3.BoolVal(V.kind_of(idx) == 'int') if V.kind_of(idx) != 'int' else V.to_int_term(idx) == want, 'signed_digits_give_that_lag_or_lead', 'ensures')
        else:
            from pyvc.libspec import IS_INT_LITERAL, INT_OF_TEXT
            ctx.prove(z3.And(IS_INT_LITERAL(e['q']), V.to_int_term(idx) == INT_OF_TEXT(e['q'])) if V.kind_of(idx) == 'int' else z3.BoolVal(False),
                      'any_other_index_is_int(text)', 'ensures')


class ParseEquationTerms(FunctionContract):
    qualname = 'fsic.parser.parse_equation_terms'
    props = ('C01', 'C03')

    def scenarios(self):
        kinds = ['VARIABLE', 'PARAMETER', 'KEYWORD', 'FUNCTION', 'INVALID', 'VERBATIM']
        return [f'{a}|{b}' for a in kinds for b in kinds] + ['left-raises', 'right-raises', 'VARIABLE,ERROR|VARIABLE,VARIABLE']

    def setup(self, interp, scenario):
        from fsic.exceptions import ParserError
        from pyvc.values import SExc
        ctx = interp.ctx
        e = {'scenario': scenario, 'calls': []}

        def term(i, kind):
            return SObj(Term, {'name': SStr(ctx.fresh(f'name{i}', STR)), 'type': Type[kind], 'index_': SInt(ctx.fresh(f'k{i}', INT)) if kind not in ('KEYWORD', 'FUNCTION') else None}, label=f'term{i}')
        if scenario in ('left-raises', 'right-raises'):
            lk, rk = ['VARIABLE'], ['VARIABLE']
        else:
            l, r = scenario.split('|')
            lk, rk = l.split(','), r.split(',')
        e['left'] = [term(i, k) for i, k in enumerate(lk)]
        e['right'] = [term(10 + i, k) for i, k in enumerate(rk)]
        eq = ctx.fresh('equation', STR)
        ctx.assume(z3.Contains(eq, z3.StringVal('=')))

        def parse_terms(interp_, o, args, kwargs, node):
            n = len(e['calls'])
            e['calls'].append(args[0])
            if (scenario == 'left-raises' and n == 0) or (scenario == 'right-raises' and n == 1):
                exc = SExc(ParserError, origin='parse_terms')
                e['inner_exc'] = exc
                raise PyRaise(exc)
            return list(e['left'] if n == 0 else e['right'])
        interp.registry.set_calls({'fsic.parser.parse_terms': parse_terms})
        return Call([SStr(eq)], {}, entry=e)

    def post(self, interp, scenario, call, out):
        from fsic.exceptions import ParserError
        ctx = interp.ctx
        e = call.entry
        lkinds = [t.fields['type'] for t in e['left']]
        rkinds = [t.fields['type'] for t in e['right']]
        must_reject = Type.KEYWORD in lkinds or Type.INVALID in rkinds or scenario in ('left-raises', 'right-raises')
        if out.kind == 'raise':
            ctx.prove(z3.BoolVal(exc_class(out.exc) is ParserError and must_reject), 'ParserError_only_for_keyword_on_the_left_indexed_keyword_on_the_right_or_bad_term', 'raises')
            if scenario in ('left-raises', 'right-raises'):
                ctx.prove(z3.BoolVal(getattr(out.exc, 'cause', None) is e.get('inner_exc')), 'term_level_ParserError_is_chained', 'raises')
            return
        ctx.prove(z3.BoolVal(not must_reject), 'keyword_as_variable_name_is_rejected', 'raises')
        r = out.value
        ok = isinstance(r, list) and len(r) == len(e['left']) + len(e['right'])
        ctx.prove(z3.BoolVal(ok), 'left_hand_terms_then_right_hand_terms', 'ensures')
        if not ok:
            return
        ctx.prove(z3.BoolVal(len(e['calls']) == 2), 'both_sides_of_the_first_equals_sign_are_tokenised', 'ensures')
        for got, src, side in [(a, b, 'left') for a, b in zip(r, e['left'])] + [(a, b, 'right') for a, b in zip(r[len(e['left']):], e['right'])]:
            want_type = src.fields['type']
            if want_type is Type.VARIABLE:
                want_type = Type.ENDOGENOUS if side == 'left' else Type.EXOGENOUS
            same = isinstance(got, SObj) and got.fields['type'] is want_type and got.fields['name'] is src.fields['name'] and got.fields['index_'] is src.fields['index_']
            ctx.prove(z3.BoolVal(same), f'{side}_term:plain_variables_become_{"endogenous" if side == "left" else "exogenous"}_everything_else_is_untouched', 'ensures')


CONTRACTS += [ProcessTermMatch(), ParseEquationTerms()]
