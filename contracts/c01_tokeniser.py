"""C01 / C03 structural lemma about the term tokeniser `fsic.parser.term_re` (read from the imported module on every run).

The per-term contracts (c01_terms.py) take a *match* of term_re as given; what the expression denotes is fixed by how the
regular expression cuts the text into terms.  This lemma pins the three facts about the pattern that the property statements
rely on, on the parsed form of the pattern (sre parse tree), not on its spelling:

 1. the alternatives classed as keywords are exactly Python's reserved words (`keyword.kwlist`): every other identifier -
    including soft keywords such as `match`, `case`, `type` - is an ordinary variable name ("identifiers" of the C01 grammar);
 2. the optional `[index]` group follows the parameter, error and variable alternatives alike (a lag on `{rho}` or `<e>` is
    a lag), and is optional;
 3. a function is a (possibly dotted) name followed by an opening parenthesis, which is looked at but not consumed.
"""
from __future__ import annotations

import hashlib
import keyword
import time

import z3

from pyvc.contracts import FunctionReport
from pyvc.ctx import Ctx


class TokeniserLemma:
    qualname = 'fsic.parser.term_re'
    props = ('C01', 'C03', 'C14')

    def scenarios(self):
        return ['lemma']

    def custom_generate(self, scen):
        import re._constants as sc
        import re._parser as sp

        import fsic.parser as fp
        rep = FunctionReport(qualname=self.qualname)
        t0 = time.time()
        ctx = Ctx(scenario=scen)
        ctx.current_fn = self.qualname
        ctx.default_props = self.props
        pat = fp.term_re
        rep.sha256 = hashlib.sha256(pat.pattern.encode()).hexdigest()
        tree = sp.parse(pat.pattern, pat.flags)
        gd = dict(pat.groupindex)
        names = {v: k for k, v in gd.items()}

        def groups_in(node) -> set:
            out = set()

            def walk(x):
                if isinstance(x, sp.SubPattern):
                    for it in x.data:
                        walk(it)
                elif isinstance(x, tuple) and len(x) == 2:
                    op, av = x
                    if op is sc.SUBPATTERN:
                        if av[0] in names:
                            out.add(names[av[0]])
                        walk(av[3])
                    elif op is sc.BRANCH:
                        for alt in av[1]:
                            walk(alt)
                    elif op in (sc.MAX_REPEAT, sc.MIN_REPEAT):
                        walk(av[2])
                    elif op in (sc.ASSERT, sc.ASSERT_NOT):
                        walk(av[1])
                elif isinstance(x, list):
                    for it in x:
                        walk(it)
            walk(node)
            return out

        def literal_words(alt) -> list:
            """words of an alternation of literals (sre factors common prefixes out, so expand it back)."""
            def expand(items):
                res = ['']
                for op, av in items:
                    if op is sc.LITERAL:
                        res = [r + chr(av) for r in res]
                    elif op is sc.BRANCH:
                        subs = [w for a in av[1] for w in expand(a.data)]
                        res = [r + w for r in res for w in subs]
                    elif op is sc.SUBPATTERN:
                        res = [r + w for r in res for w in expand(av[3].data)]
                    elif op is sc.IN and all(o is sc.LITERAL for o, _ in av):
                        res = [r + chr(c) for r in res for _, c in av]
                    else:
                        return None
                    if res is None:
                        return None
                return res
            return expand(alt)

        def find_group(node, gname):
            found = []

            def walk(x):
                if isinstance(x, sp.SubPattern):
                    for it in x.data:
                        walk(it)
                elif isinstance(x, tuple) and len(x) == 2:
                    op, av = x
                    if op is sc.SUBPATTERN:
                        if names.get(av[0]) == gname:
                            found.append(av[3])
                        walk(av[3])
                    elif op is sc.BRANCH:
                        for alt in av[1]:
                            walk(alt)
                    elif op in (sc.MAX_REPEAT, sc.MIN_REPEAT):
                        walk(av[2])
                    elif op in (sc.ASSERT, sc.ASSERT_NOT):
                        walk(av[1])
            walk(node)
            return found

        try:
            # 1. keywords
            kw = find_group(tree, '_KEYWORD')
            words = literal_words(kw[0].data) if len(kw) == 1 else None
            ctx.prove(z3.BoolVal(words is not None and sorted(words) == sorted(keyword.kwlist)),
                      'keyword_alternatives_are_exactly_the_reserved_words_of_Python', 'lemma', assume_after=False,
                      note=str(sorted(set(words or []) ^ set(keyword.kwlist)))[:300])
            inv = find_group(tree, '_INVALID')
            inv_words = None
            if len(inv) == 1 and inv[0].data and inv[0].data[0][0] in (sc.SUBPATTERN, sc.BRANCH):
                inv_words = literal_words([inv[0].data[0]])
            ctx.prove(z3.BoolVal(inv_words is not None and sorted(inv_words) == sorted(keyword.kwlist)),
                      'only_reserved_words_are_rejected_as_indexed_names', 'lemma', assume_after=False)
            # 2. the optional index
            top = tree.data[0]
            alts = top[1][1] if top[0] is sc.BRANCH and len(tree.data) == 1 else []
            holder = [a for a in alts if 'INDEX' in groups_in(a)]
            ok2 = False
            note = ''
            if len(holder) == 1:
                seq = holder[0].data
                with_index = [it for it in seq if 'INDEX' in groups_in([it])]
                with_names = [it for it in seq if {'_PARAMETER', '_ERROR', '_VARIABLE'} & groups_in([it])]
                ok2 = (len(with_index) == 1 and len(with_names) == 1 and with_index[0] is not with_names[0]
                       and {'_PARAMETER', '_ERROR', '_VARIABLE'} <= groups_in([with_names[0]])
                       and with_index[0][0] is sc.MAX_REPEAT and with_index[0][1][0] == 0 and with_index[0][1][1] == 1
                       and seq.index(with_names[0]) < seq.index(with_index[0]))
                note = f'{len(with_index)} index item(s), {len(with_names)} name item(s)'
            ctx.prove(z3.BoolVal(ok2), 'one_optional_index_follows_parameter_error_and_variable_alike', 'lemma', assume_after=False, note=note)
            # 3. functions
            fn_alt = [a for a in alts if '_FUNCTION' in groups_in(a)]
            ok3 = False
            if len(fn_alt) == 1:
                seq = fn_alt[0].data
                last = seq[-1] if seq else None
                ok3 = (last is not None and last[0] is sc.ASSERT and last[1][0] == 1 and list(last[1][1].data) == [(sc.LITERAL, ord('('))]
                       and '_FUNCTION' in groups_in([seq[0]]))
            ctx.prove(z3.BoolVal(ok3), 'a_function_is_a_name_followed_by_an_opening_parenthesis_that_is_not_consumed', 'lemma', assume_after=False)
            ctx.prove(z3.BoolVal([sorted(groups_in(a)) for a in alts][:3] == [['_VERBATIM'], ['_INVALID'], ['_KEYWORD']]),
                      'verbatim_then_indexed_keyword_then_keyword_take_precedence_over_names', 'lemma', assume_after=False,
                      note=str([sorted(groups_in(a)) for a in alts]))
        except Exception as ex:  # noqa: BLE001 - a pattern this lemma cannot read is an open obligation, not a checker crash
            ctx.prove(z3.BoolVal(False), f'term_re_has_the_documented_structure:{type(ex).__name__}', 'lemma', assume_after=False, note=str(ex)[:200])
        rep.obligations = list(ctx.obligations)
        rep.paths = 1
        rep.scenarios[scen] = {'paths': 1}
        rep.seconds = time.time() - t0
        return rep


CONTRACTS = [TokeniserLemma()]
