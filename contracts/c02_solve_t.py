"""BaseModel.solve_t against the pass-history specification (properties C02, C04, C06).

Ghost state (DESIGN 10/C02, C06):
  passes                  number of evaluation passes performed (incremented by the `_evaluate` call contract)
  Hf[j]                   check vector stored in the model after pass j;  Hf[0] = as read by the first get_check_values()
  FinP(j)  := all Hf[j][i] finite                                       (definitional, introduced once per index)
  ConvP(j) := all |Hf[j][i] - Hf[j-1][i]| < tol   (Float64, strict)     (definitional, introduced once per index)
  Trans(j)  := FinP(j-1) and not FinP(j)          a pass leaves a non-finite value although the previous state was finite
  Judged(j) := FinP(j-1) and FinP(j) and j >= min_iter
  Stop(j)   := Judged(j) and ConvP(j)   or   Trans(j) and errors not in {ignore, replace}
Top-level postconditions are taken from the property statements; the loop invariant from the code.
"""
from __future__ import annotations

import z3

from fsic.core.models import BaseModel
from fsic.exceptions import NonConvergenceError, SolutionError
from pyvc import roles as R
from pyvc import values as V
from pyvc.contracts import Call, FunctionContract, LoopSpec, Outcome
from pyvc.ctx import OutOfSubset
from pyvc.interp import PyRaise, exc_class
from pyvc.libspec import A
from pyvc.values import (ANY_EXCEPTION, BOOL, F64, INT, RNE, STR, SArr, SBool, SExc, SFloat, SInt, SStr,
                         forall_range, norm_index)

from .model_obj import HIST, STORE, VEC, getattr_contract, make_model

InEndoP = z3.Function('InEndoP', STR, BOOL)
EndoWitness = z3.Function('endo_witness', STR, INT)

STATUSES = ('-', '.', 'F', 'E', 'S')


def finite(x):
    return z3.Not(z3.Or(z3.fpIsInf(x), z3.fpIsNaN(x)))


class G:
    """Accessors over ctx.ghost for this contract."""

    def __init__(self, ctx):
        self.g = ctx.ghost

    def __getattr__(self, k):
        return self.g[k]


def S(x):
    return z3.StringVal(x)


class SolveTContract(FunctionContract):
    qualname = 'fsic.core.models.BaseModel.solve_t'
    props = ('C02', 'C04', 'C06')
    required_covers = ('solved', 'failed-return', 'failed-raise', 'skipped', 'error-numerical', 'error-evaluate',
                       'pre-existing', 'value-error', 'index-error', 'hook-before-raises', 'hook-after-raises')

    def scenarios(self):
        return ['generic/offset0', 'generic/offset', 'parser/offset0', 'parser/offset']

    # ------------------------------------------------------------------------------------------------
    def setup(self, interp, scenario):
        ctx = interp.ctx
        hooks, off = scenario.split('/')
        env = make_model(interp, BaseModel, with_lags=True)
        e = {}
        e['env'] = env
        n, nc, ne = env.n, env.nc, env.ne
        t = ctx.fresh('t', INT)
        ctx.assume(z3.And(t >= -n, t < n))
        nt = norm_index(t, n)
        min_iter, max_iter = ctx.fresh('min_iter', INT), ctx.fresh('max_iter', INT)
        ctx.assume(max_iter >= 0)                        # requires: the property quantifies over max_iter in 0..bound
        tol = ctx.fresh('tol', F64)
        offset = ctx.fresh('offset', INT)
        ctx.assume(offset == 0 if off == 'offset0' else offset != 0)
        failures, errors = ctx.fresh('failures', STR), ctx.fresh('errors', STR)
        cfe = ctx.fresh('catch_first_error', BOOL)
        Hf = ctx.fresh('Hf', HIST)
        e.update(t=t, nt=nt, min_iter=min_iter, max_iter=max_iter, tol=tol, offset=offset, failures=failures, errors=errors,
                 cfe=cfe, Hf=Hf, hooks=hooks)
        g = ctx.ghost
        g.update(passes=z3.IntVal(0), before_calls=z3.IntVal(0), after_calls=z3.IntVal(0), after_at=z3.IntVal(-1),
                 h0_linked=False, raised_in=None, hook_exc=None, wfilter='default', store_at_prehook=None)
        # membership predicate of `endogenous` (both directions, Skolemised)
        ctx.assume(forall_range(0, ne, lambda i: InEndoP(z3.Select(env.endo_arr, i)), 'endo'))
        nm = z3.String('nm!endo')
        ctx.assume(z3.ForAll([nm], z3.Implies(InEndoP(nm), z3.And(0 <= EndoWitness(nm), EndoWitness(nm) < ne,
                                                              z3.Select(env.endo_arr, EndoWitness(nm)) == nm))))
        e['inputs'] = {'lags': env.lags, 'leads': env.leads, 'n': n, 'nc': nc, 't': t, 'min_iter': min_iter, 'max_iter': max_iter, 'offset': offset, 'errors': errors,
                       'failures': failures, 'catch_first_error': cfe, 'tol': tol}
        self._install_calls(interp, e)
        self.loops = {R.for_without_call('_evaluate'): self._offset_loop(e), R.body_calls('_evaluate'): self._main_loop(e)}
        interp.registry.set_loops(self.qualname, self.loops)
        kwargs = dict(min_iter=SInt(min_iter), max_iter=SInt(max_iter), tol=SFloat(tol), offset=SInt(offset),
                      failures=SStr(failures), errors=SStr(errors), catch_first_error=SBool(cfe))
        return Call([SInt(t)], kwargs, self_obj=env.obj, entry=e)

    # ---- pass-history predicates (vector-level facts over the ghost history Hf) --------------------------------
    @staticmethod
    def fin(e, j):
        return V.ALL_FINITE(z3.Select(e['Hf'], j), e['env'].nc)

    @staticmethod
    def conv(e, j):
        return V.ALL_CLOSE(z3.Select(e['Hf'], j), z3.Select(e['Hf'], j - 1), e['env'].nc, e['tol'])

    @staticmethod
    def zeroed(a):
        j = z3.Int('j!z')
        return z3.Lambda([j], z3.If(z3.Not(V.is_finite_term(z3.Select(a, j))), z3.FPVal(0.0, F64), z3.Select(a, j)))

    @classmethod
    def trans(cls, e, j):
        return z3.And(cls.fin(e, j - 1), z3.Not(cls.fin(e, j)))

    @classmethod
    def judged(cls, e, j):
        return z3.And(cls.fin(e, j - 1), cls.fin(e, j), j >= e['min_iter'])

    @classmethod
    def stop(cls, e, j):
        lenient = z3.Or(e['errors'] == S('ignore'), e['errors'] == S('replace'))
        return z3.Or(z3.And(cls.judged(e, j), cls.conv(e, j)), z3.And(cls.trans(e, j), z3.Not(lenient)))

    @classmethod
    def no_stop_before(cls, e, k):
        j = z3.Int('j!ns')
        return z3.ForAll([j], z3.Implies(z3.And(1 <= j, j < k), z3.Not(cls.stop(e, j))))

    # ---- contracts used at call sites ----------------------------------------------------------------------
    def _install_calls(self, interp, e):
        ctx = interp.ctx
        env = e['env']
        g = ctx.ghost
        hooks = e['hooks']

        def filter_ok():
            strict = z3.And(e['errors'] == S('raise'), e['cfe'])
            # every warning category: 'error' under errors='raise' with catch_first_error, 'always' otherwise (a filter restricted to one category is neither)
            return z3.If(strict, z3.BoolVal(g['wfilter'] == 'error'), z3.BoolVal(g['wfilter'] == 'always'))

        def forwarded(kwargs, iteration_expected, who):
            ok = []
            for k, sym in (('errors', e['errors']), ('catch_first_error', e['cfe'])):
                v = kwargs.get(k)
                ok.append(z3.BoolVal(False) if v is None else (V.z3_of(v) == sym))
            it = kwargs.get('iteration')
            ok.append(z3.BoolVal(False) if it is None else (V.to_int_term(it) == iteration_expected))
            extra = set(kwargs) - {'errors', 'catch_first_error', 'iteration'}
            ok.append(z3.BoolVal(not extra))
            return z3.And(*ok)

        def maybe_raise(who):
            if ctx.choose(2, f'{who}-raises') == 1:
                exc = SExc(ANY_EXCEPTION, origin=who)
                g['raised_in'] = who
                g['hook_exc'] = exc
                raise PyRaise(exc)

        def havoc_store(tag):
            env.store.data = ctx.fresh(f'vars!{tag}', STORE)

        def before(interp_, obj, args, kwargs, node):
            ctx.use(A('hook.interface', 'user hooks (_evaluate, solve_t_before/after) may change any variable cell and raise any Exception, '
                                        'but do not touch status, iterations, span, check, endogenous'))
            ctx.prove(V.to_int_term(args[0]) == e['t'], 'solve_t_before:same_period', 'pre-at-call', line=getattr(node, 'lineno', 0))
            ctx.prove(forwarded(kwargs, z3.IntVal(0), 'before'), 'solve_t_before:options_forwarded_iteration_0', 'pre-at-call')
            ctx.prove(z3.And(g['before_calls'] == 0, g['passes'] == 0), 'solve_t_before:runs_once_before_first_pass', 'pre-at-call')
            ctx.prove(filter_ok(), 'solve_t_before:warnings-filter', 'pre-at-call', props=('C06',))
            g['before_calls'] = g['before_calls'] + 1
            g['store_at_prehook'] = env.store.data
            if hooks == 'generic':
                havoc_store('before')
                maybe_raise('solve_t_before')
            return None

        def evaluate(interp_, obj, args, kwargs, node):
            ctx.prove(V.to_int_term(args[0]) == e['t'], '_evaluate:same_period', 'pre-at-call')
            ctx.prove(forwarded(kwargs, g['passes'] + 1, 'evaluate'), '_evaluate:options_forwarded_iteration_is_pass_number', 'pre-at-call')
            ctx.prove(z3.And(g['before_calls'] == 1, g['after_calls'] == 0), '_evaluate:after_pre_hook_before_post_hook', 'pre-at-call')
            ctx.prove(filter_ok(), '_evaluate:warnings-filter', 'pre-at-call', props=('C06',))
            ctx.prove(g['passes'] < e['max_iter'], '_evaluate:at_most_max_iter_passes', 'pre-at-call')
            g['passes'] = g['passes'] + 1
            old = env.store.data
            havoc_store('pass')
            if hooks == 'parser':
                # strong interface contract of parser-built models (proved per generated program, C01/C04):
                # an evaluation pass writes only endogenous cells of the period being solved
                ctx.use(A('generated._evaluate.frame', 'parser-built _evaluate writes only cells (e, nt) with e endogenous (proved per program in C01/C04)'))
                nm, pos = z3.String('nm!ev'), z3.Int('pos!ev')
                ctx.assume(z3.ForAll([nm, pos], z3.Implies(z3.Or(pos != e['nt'], z3.Not(InEndoP(nm))),
                                                            z3.Select(z3.Select(env.store.data, nm), pos) == z3.Select(z3.Select(old, nm), pos))))
            if ctx.choose(2, '_evaluate-raises') == 1:
                exc = SExc(ANY_EXCEPTION, origin='_evaluate')
                g['raised_in'] = '_evaluate'
                g['hook_exc'] = exc
                raise PyRaise(exc)
            return None

        def after(interp_, obj, args, kwargs, node):
            ctx.prove(V.to_int_term(args[0]) == e['t'], 'solve_t_after:same_period', 'pre-at-call')
            ctx.prove(forwarded(kwargs, g['passes'], 'after'), 'solve_t_after:options_forwarded_iteration_is_pass_number', 'pre-at-call')
            ctx.prove(z3.And(g['before_calls'] == 1, g['after_calls'] == 0), 'solve_t_after:runs_once', 'pre-at-call')
            ctx.prove(filter_ok(), 'solve_t_after:warnings-filter', 'pre-at-call', props=('C06',))
            g['after_calls'] = g['after_calls'] + 1
            g['after_at'] = g['passes']
            if hooks == 'generic':
                havoc_store('after')
                maybe_raise('solve_t_after')
            return None

        def get_check_values(interp_, closure, args, kwargs, node):
            if not g['h0_linked']:
                g['h0_linked'] = True
                g['store_after_offset'] = env.store.data
            r = interp_.call(closure, args, kwargs, node)
            # ghost: Hf[passes] := the check vector just read (definitional: index `passes` is new each time)
            if not isinstance(r, SArr) or r.dtype != 'float':
                raise OutOfSubset('get_check_values() no longer returns a float vector')
            ctx.assume(z3.Select(e['Hf'], g['passes']) == r.arr)
            ctx.prove(r.length == env.nc, 'get_check_values:one_value_per_check_variable', 'ensures')
            return r

        interp.registry.set_calls({
            'fsic.core.models.BaseModel.solve_t_before': before,
            'fsic.core.models.BaseModel._evaluate': evaluate,
            'fsic.core.models.BaseModel.solve_t_after': after,
            'fsic.core.models.BaseModel.solve_t.get_check_values': get_check_values,
            'fsic.core.containers.VectorContainer.__getattr__': getattr_contract,
        })

    # ---- loop 0: `for name in self.endogenous` (offset copy) ------------------------------------------------
    def _offset_loop(self, e):
        env = e['env']

        def inv(interp, fr, k):
            data = env.store.data
            v0 = env.vars0
            nt, off = e['nt'], e['offset']
            nm, pos = z3.String('nm!o'), z3.Int('pos!o')
            return [
                ('other_periods_unchanged',
                 z3.ForAll([nm, pos], z3.Implies(pos != nt, z3.Select(z3.Select(data, nm), pos) == z3.Select(z3.Select(v0, nm), pos)))),
                ('copied_so_far',
                 forall_range(0, k, lambda j: z3.Select(z3.Select(data, z3.Select(env.endo_arr, j)), nt)
                              == z3.Select(z3.Select(v0, z3.Select(env.endo_arr, j)), nt + off), 'cp')),
                ('non_endogenous_unchanged',
                 z3.ForAll([nm], z3.Implies(z3.Not(InEndoP(nm)), z3.Select(z3.Select(data, nm), nt) == z3.Select(z3.Select(v0, nm), nt)))),
                ('offset_in_span', z3.And(nt + off >= 0, nt + off < env.n, off != 0)),
                ('nothing_else_yet', z3.And(interp.ctx.ghost['passes'] == 0, interp.ctx.ghost['before_calls'] == 0,
                                            env.status.arr == env.status0, env.iterations.arr == env.iter0)),
            ]

        def havoc(interp, fr):
            env.store.data = interp.ctx.fresh('vars!offsetloop', STORE)

        return LoopSpec(invariant=inv, havoc=havoc, props=('C02', 'C04'))

    # ---- loop 1: `for iteration in range(1, max_iter + 1)` ----------------------------------------------------
    def _main_loop(self, e):
        env = e['env']

        def inv(interp, fr, k):
            g = interp.ctx.ghost
            it = k + 1                                   # value the loop variable takes in the iteration about to start
            p = g['passes']
            # the locals are found by role: the one that receives get_check_values(), the one stored into self.status[t]
            cv = fr.locals.get(R.assigned_from_call(fr.fi.node, 'get_check_values', 'current_values'))
            st = fr.locals.get(R.stored_into_self_series(fr.fi.node, 'status', 'status'))
            out = [('passes_is_iteration_minus_1', p == it - 1),
                   ('no_stop_so_far', self.no_stop_before(e, it)),
                   ('hooks_so_far', z3.And(g['before_calls'] == 1, g['after_calls'] == 0)),
                   ('nothing_recorded_yet', z3.And(env.status.arr == env.status0, env.iterations.arr == env.iter0))]
            if isinstance(cv, SArr):
                hp = z3.Select(e['Hf'], p)
                out.append(('current_values_has_check_length', cv.length == env.nc))
                out.append(('current_values_is_last_stored_check_vector',
                            z3.Or(cv.arr == hp, z3.And(e['errors'] == S('replace'), z3.Not(self.fin(e, p)), cv.arr == self.zeroed(hp)))))
            else:
                out.append(('current_values_is_array', z3.BoolVal(False)))
            out.append(('status_local_unsolved', V.z3_of(st) == S('-') if st is not None else z3.BoolVal(False)))
            if e['hooks'] == 'parser':
                nm, pos = z3.String('nm!f'), z3.Int('pos!f')
                out.append(('frame_so_far', z3.ForAll([nm, pos], z3.Implies(
                    z3.Or(pos != e['nt'], z3.Not(InEndoP(nm))),
                    z3.Select(z3.Select(env.store.data, nm), pos) == z3.Select(z3.Select(env.vars0, nm), pos)))))
            return out

        def havoc(interp, fr):
            ctx = interp.ctx
            g = ctx.ghost
            g['passes'] = ctx.fresh('passes', INT)
            g['before_calls'] = ctx.fresh('before_calls', INT)
            g['after_calls'] = ctx.fresh('after_calls', INT)
            env.store.data = ctx.fresh('vars!loop', STORE)
            env.status.arr = ctx.fresh('status!loop', z3.ArraySort(INT, STR))
            env.iterations.arr = ctx.fresh('iterations!loop', z3.ArraySort(INT, INT))
            g['wfilter'] = 'default'

        return LoopSpec(invariant=inv, havoc=havoc, props=('C02', 'C06'))

    # ------------------------------------------------------------------------------------------------------
    regions = {
        'errors==replace': lambda inputs, ob: inputs['errors'] == S('replace'),
        'offset!=0': lambda inputs, ob: inputs['offset'] != 0,
        'max_iter<=0': lambda inputs, ob: inputs['max_iter'] <= 0,
        'infeasible-period': lambda inputs, ob: z3.Or(norm_index(inputs['t'], inputs['n']) < inputs['lags'],
                                                      norm_index(inputs['t'], inputs['n']) > inputs['n'] - 1 - inputs['leads']),
    }

    def post(self, interp, scenario, call, out):
        ctx = interp.ctx
        e = call.entry
        env = e['env']
        g = ctx.ghost
        n, nt = env.n, e['nt']
        E, Fl = e['errors'], e['failures']
        p = g['passes']
        st_arr, it_arr = env.status.arr, env.iterations.arr
        st_nt, it_nt = z3.Select(st_arr, nt), z3.Select(it_arr, nt)
        C2, C4, C6 = ('C02',), ('C04',), ('C06',)
        ALL = ('C02', 'C04', 'C06')
        q = z3.Int('pos!post')

        bookkeeping_unchanged = z3.And(st_arr == env.status0, it_arr == env.iter0)
        other_periods_bookkeeping = z3.ForAll([q], z3.Implies(q != nt, z3.And(z3.Select(st_arr, q) == z3.Select(env.status0, q),
                                                                              z3.Select(it_arr, q) == z3.Select(env.iter0, q))))
        vars_unchanged = env.store.data == env.vars0
        offset_bad = z3.And(e['offset'] != 0, z3.Or(nt + e['offset'] < 0, nt + e['offset'] >= n))
        pre_existing = z3.And(E == S('raise'), z3.Not(self.fin(e, z3.IntVal(0))))

        ctx.prove(other_periods_bookkeeping, 'status_and_iterations_change_only_at_t', 'frame', props=('C04', 'C02'))
        # every store into status is one of the five SolutionStatus values (entry values are assumed valid)
        valid0 = z3.Or(*[z3.Select(env.status0, nt) == S(s) for s in STATUSES])
        ctx.prove(z3.Implies(valid0, z3.Or(*[st_nt == S(s) for s in STATUSES])), 'status_is_one_of_five_values', 'ensures', props=C6)

        if e['hooks'] == 'parser':
            nm, pos = z3.String('nm!pf'), z3.Int('pos!pf')
            ctx.prove(z3.ForAll([nm, pos], z3.Implies(z3.Or(pos != nt, z3.Not(InEndoP(nm))),
                                                       z3.Select(z3.Select(env.store.data, nm), pos) == z3.Select(z3.Select(env.vars0, nm), pos))),
                      'only_endogenous_cells_of_period_t_change', 'frame', props=C4)

        def rejected_up_front(label, props):
            ctx.prove(z3.And(g['before_calls'] == 0, g['after_calls'] == 0, p == 0), f'{label}:before_any_hook_or_pass', 'ensures', props=props)
            ctx.prove(bookkeeping_unchanged, f'{label}:status_iterations_unchanged', 'frame', props=props)

        if out.kind == 'raise':
            cls = exc_class(out.exc)
            cause = out.exc.cause if isinstance(out.exc, SExc) else None
            if cls is ValueError and g['raised_in'] is None and not self._after_prehook(g):
                ctx.cover('value-error')
                ctx.prove(e['min_iter'] > e['max_iter'], 'ValueError_only_when_min_iter_exceeds_max_iter', 'raises', props=C2)
                rejected_up_front('ValueError', ('C02', 'C04'))
                ctx.prove(vars_unchanged, 'ValueError:values_unchanged', 'frame', props=('C02', 'C04'))
                return
            ctx.prove(e['min_iter'] <= e['max_iter'], 'min_iter_exceeding_max_iter_is_rejected_first', 'raises', props=C2)
            if cls is IndexError and g['raised_in'] is None:
                ctx.cover('index-error')
                ctx.prove(offset_bad, 'IndexError_only_when_offset_leaves_span', 'raises', props=C2)
                rejected_up_front('IndexError', ('C02', 'C04'))
                ctx.prove(vars_unchanged, 'IndexError:values_unchanged', 'frame', props=('C02', 'C04'))
                return
            ctx.prove(z3.Not(offset_bad), 'offset_outside_span_is_rejected', 'raises', props=C2)
            self._offset_copy_post(ctx, e, g)
            if cls is SolutionError and cause is None and not self._after_prehook(g):
                ctx.cover('pre-existing')
                ctx.prove(pre_existing, 'pre_existing_rejection_only_under_raise_with_nonfinite_start', 'raises', props=C6)
                rejected_up_front('pre_existing', ('C06', 'C04'))
                ctx.prove(vars_unchanged, 'rejected_call_changes_nothing', 'frame', props=C4)
                return
            ctx.prove(z3.Not(pre_existing), 'pre_existing_nonfinite_under_raise_is_rejected_before_any_pass', 'raises', props=C6)
            if cls is SolutionError and cause is not None:
                origin = cause.origin if isinstance(cause, SExc) else '?'
                ctx.prove(cause is g['hook_exc'], 'SolutionError_chained_to_the_original_exception', 'raises', props=C6)
                if origin == 'solve_t_before':
                    ctx.cover('hook-before-raises')
                    ctx.prove(z3.And(p == 0, g['before_calls'] == 1), 'pre_hook_failure:before_first_pass', 'ensures', props=C6)
                    ctx.prove(bookkeeping_unchanged, 'pre_hook_failure:nothing_recorded', 'ensures', props=C6)
                elif origin == '_evaluate':
                    ctx.cover('error-evaluate')
                    ctx.prove(z3.And(1 <= p, p <= e['max_iter']), 'evaluate_failure:within_max_iter', 'ensures', props=C6)
                    ctx.prove(self.no_stop_before(e, p), 'evaluate_failure:no_earlier_stop', 'ensures', props=C6)
                    ctx.prove(z3.If(E == S('raise'), z3.And(st_nt == S('E'), it_nt == p), bookkeeping_unchanged),
                              'evaluate_failure:records_E_and_pass_number_under_raise', 'ensures', props=C6)
                elif origin == 'solve_t_after':
                    ctx.cover('hook-after-raises')
                    ctx.prove(z3.And(g['after_calls'] == 1, g['after_at'] == p), 'post_hook_failure:after_converging_pass', 'ensures', props=C6)
                    ctx.prove(bookkeeping_unchanged, 'post_hook_failure:nothing_recorded', 'ensures', props=C6)
                else:
                    ctx.prove(False, 'SolutionError_with_unknown_cause', 'raises', props=C6)
                return
            ctx.prove(g['raised_in'] is None, 'hook_exception_surfaces_as_SolutionError', 'raises', props=C6)
            if cls is SolutionError:
                ctx.cover('error-numerical')
                ctx.prove(E == S('raise'), 'numerical_SolutionError_only_under_raise', 'raises', props=C6)
                ctx.prove(z3.And(1 <= p, p <= e['max_iter'], self.trans(e, p)), 'numerical_error:at_first_nonfinite_pass', 'ensures', props=C6)
                ctx.prove(self.no_stop_before(e, p), 'numerical_error:no_earlier_stop', 'ensures', props=C6)
                ctx.prove(z3.And(st_nt == S('E'), it_nt == p), 'numerical_error:records_E_and_pass_number', 'ensures', props=C6)
                ctx.prove(g['after_calls'] == 0, 'numerical_error:post_hook_not_run', 'ensures', props=C6)
                return
            if cls is NonConvergenceError:
                ctx.cover('failed-raise')
                ctx.prove(Fl == S('raise'), 'NonConvergenceError_only_when_failures_is_raise', 'raises', props=C2)
                self._failed_post(ctx, e, g, st_nt, it_nt, p)
                return
            if cls is ValueError and self._after_prehook(g):
                valid = z3.Or(*[E == S(x) for x in ('raise', 'skip', 'ignore', 'replace')])
                ctx.prove(z3.And(z3.Not(valid), self.trans(e, p)), 'late_ValueError_only_for_invalid_errors_option', 'raises', props=C6)
                return
            ctx.prove(False, f'only_documented_exceptions:{getattr(cls, "__name__", cls)}@{getattr(out.exc, "origin", "")}', 'raises', props=ALL)
            return

        # ---- normal return ------------------------------------------------------------------------------------
        ctx.prove(z3.And(nt >= env.lags, nt <= n - 1 - env.leads), 'infeasible_period_is_rejected_rather_than_served', 'raises', props=C4,
                  note='a period that cannot accommodate the model\'s lags or leads must be rejected (the Python engine has no such guard)')
        ctx.prove(e['min_iter'] <= e['max_iter'], 'min_iter_exceeding_max_iter_is_rejected_first', 'raises', props=C2)
        ctx.prove(z3.Not(offset_bad), 'offset_outside_span_is_rejected', 'raises', props=C2)
        ctx.prove(z3.Not(pre_existing), 'pre_existing_nonfinite_under_raise_is_rejected_before_any_pass', 'raises', props=C6)
        self._offset_copy_post(ctx, e, g)
        r = out.value
        rt = V.truth(r)
        ctx.prove(g['before_calls'] == 1, 'pre_hook_ran_exactly_once', 'ensures', props=C2)
        ctx.prove((rt if not isinstance(rt, bool) else z3.BoolVal(rt)) == (st_nt == S('.')), 'result_true_iff_status_solved', 'ensures', props=('C02', 'C06'))
        solved = st_nt == S('.')
        if ctx.decide(solved, 'post:solved'):
            ctx.cover('solved')
            ctx.prove(z3.And(1 <= p, p <= e['max_iter'], it_nt == p), 'solved:iterations_is_number_of_passes', 'ensures', props=C2)
            ctx.prove(p >= e['min_iter'], 'solved:at_least_min_iter_passes', 'ensures', props=C2)
            # C02 is stated for histories in which check values stay finite; C06 covers the rest
            jj = z3.Int('j!fin')
            stay_finite = z3.ForAll([jj], z3.Implies(z3.And(0 <= jj, jj <= p), self.fin(e, jj)))
            ctx.prove(z3.Implies(stay_finite, self.conv(e, p)), 'solved:every_check_variable_moved_less_than_tol', 'ensures', props=C2)
            ctx.prove(z3.And(self.fin(e, p - 1), self.fin(e, p)), 'solved:pass_from_nonfinite_not_judged', 'ensures', props=C6)
            ctx.prove(z3.Implies(z3.And(self.fin(e, p - 1), self.fin(e, p)), self.conv(e, p)),
                      'solved:judged_pass_met_the_ordinary_convergence_rule', 'ensures', props=C6)
            ctx.prove(self.no_stop_before(e, p), 'solved:first_such_pass', 'ensures', props=('C02', 'C06'))
            ctx.prove(z3.And(g['after_calls'] == 1, g['after_at'] == p), 'solved:post_hook_ran_once_after_converging_pass', 'ensures', props=C2)
            return
        ctx.prove(g['after_calls'] == 0, 'unsolved:post_hook_not_run', 'ensures', props=C2)
        if ctx.decide(st_nt == S('S'), 'post:skipped'):
            ctx.cover('skipped')
            ctx.prove(E == S('skip'), 'skipped_only_under_skip', 'ensures', props=C6)
            ctx.prove(z3.And(1 <= p, p <= e['max_iter'], self.trans(e, p), it_nt == p), 'skipped:at_first_nonfinite_pass', 'ensures', props=C6)
            ctx.prove(self.no_stop_before(e, p), 'skipped:no_earlier_stop', 'ensures', props=C6)
            return
        ctx.cover('failed-return')
        ctx.prove(st_nt == S('F'), 'unsolved_return_is_F_or_S', 'ensures', props=('C02', 'C06'))
        ctx.prove(Fl != S('raise'), 'failed:raises_NonConvergenceError_when_failures_is_raise', 'ensures', props=C2)
        self._failed_post(ctx, e, g, st_nt, it_nt, p)

    @staticmethod
    def _after_prehook(g):
        bc = z3.simplify(g['before_calls'])
        return not (z3.is_int_value(bc) and bc.as_long() == 0)

    def _failed_post(self, ctx, e, g, st_nt, it_nt, p):
        ctx.prove(st_nt == S('F'), 'failed:status_F', 'ensures', props=('C02',))
        ctx.prove(z3.And(p == e['max_iter'], it_nt == e['max_iter']), 'failed:iterations_is_max_iter', 'ensures', props=('C02',))
        ctx.prove(self.no_stop_before(e, e['max_iter'] + 1), 'failed:no_pass_met_the_stopping_rule', 'ensures', props=('C02', 'C06'))
        ctx.prove(g['after_calls'] == 0, 'failed:post_hook_not_run', 'ensures', props=('C02',))

    def _offset_copy_post(self, ctx, e, g):
        """A non-zero in-span offset first copies every endogenous cell of period t+offset into t (and nothing else)."""
        env = e['env']
        after = g.get('store_after_offset')
        if after is None:
            return
        nt, off = e['nt'], e['offset']
        v0 = env.vars0
        ctx.prove(z3.Implies(off == 0, after == v0), 'offset0:no_copy', 'ensures', props=('C02', 'C04'))
        ctx.prove(z3.Implies(off != 0, forall_range(0, env.ne, lambda j: z3.Select(z3.Select(after, z3.Select(env.endo_arr, j)), nt)
                                                  == z3.Select(z3.Select(v0, z3.Select(env.endo_arr, j)), nt + off), 'oc')),
                  'offset:copies_endogenous_values_of_t_plus_offset', 'ensures', props=('C02',))
        nm, pos = z3.String('nm!oc'), z3.Int('pos!oc')
        ctx.prove(z3.ForAll([nm, pos], z3.Implies(z3.Or(pos != nt, z3.Not(InEndoP(nm))),
                                                   z3.Select(z3.Select(after, nm), pos) == z3.Select(z3.Select(v0, nm), pos))),
                  'offset:copy_touches_only_endogenous_cells_of_t', 'frame', props=('C02', 'C04'))


CONTRACTS = [SolveTContract()]
