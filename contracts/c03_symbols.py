"""C03 - Symbol.combine, the merge loops, and the name lists / LAGS / LEADS of build_model_definition."""
from __future__ import annotations

import z3

import fsic.parser as fp
from fsic.exceptions import ParserError, SymbolError
from fsic.parser import Symbol, Type
from pyvc import values as V
from pyvc.contracts import Call, FunctionContract
from pyvc.interp import exc_class
from pyvc.values import INT, STR, SInt, SObj, SStr

VARLIKE = (int(Type.VARIABLE), int(Type.EXOGENOUS), int(Type.ENDOGENOUS))


def S(x):
    return z3.StringVal(x)


def opt_value(ctx, label, kind_choices):
    """A value of one of the given dynamic types, chosen non-deterministically: 'none' | 'int' | 'str'."""
    k = kind_choices[ctx.choose(len(kind_choices), f'shape:{label}')]
    if k == 'none':
        return None, k
    if k == 'int':
        return SInt(ctx.fresh(label, INT)), k
    return SStr(ctx.fresh(label, STR)), k


class CombineContract(FunctionContract):
    qualname = 'fsic.parser.Symbol.combine'
    props = ('C03', 'C14')
    required_covers = ('returned', 'SymbolError', 'ParserError')

    def scenarios(self):
        # case split on the dynamic types of the two `lags` fields (exhaustive); all other shapes are chosen inside a scenario
        return [f'lags:{a}/{b}' for a in ('int', 'str', 'none') for b in ('int', 'str', 'none')]

    def setup(self, interp, scenario):
        ctx = interp.ctx
        lag_shapes = dict(zip(('self', 'other'), scenario.split(':')[1].split('/')))
        name = ctx.fresh('name', STR)
        e = {'name': name}
        syms = []
        for who in ('self', 'other'):
            ty = ctx.fresh(f'{who}.type', INT)
            ctx.assume(z3.And(ty >= 1, ty <= len(Type)))
            lags, lk = opt_value(ctx, f'{who}.lags', [lag_shapes[who]])
            leads, dk = opt_value(ctx, f'{who}.leads', ['int', 'str', 'none'])
            eq, ek = opt_value(ctx, f'{who}.equation', ['none', 'str'])
            code, ck = opt_value(ctx, f'{who}.code', ['none', 'str'])
            e[who] = dict(type=ty, lags=lags, leads=leads, equation=eq, code=code, kinds=(lk, dk, ek, ck))
            syms.append(SObj(Symbol, dict(name=SStr(name), type=SInt(ty), lags=lags, leads=leads, equation=eq, code=code), label=who))
        e['inputs'] = {'self.type': e['self']['type'], 'other.type': e['other']['type']}
        for who in ('self', 'other'):
            for f in ('lags', 'leads'):
                v = e[who][f]
                if isinstance(v, SInt):
                    e['inputs'][f'{who}.{f}'] = v.e
        return Call([syms[1]], {}, self_obj=syms[0], entry=e)

    @staticmethod
    def _lagspec(a, b, is_lag):
        """Expected combined lag/lead per the statement: deepest lag / furthest lead over the mentions and 0; an integer offset wins
        over a named period; two named periods give 0; None only with None."""
        ka = 'none' if a is None else ('int' if isinstance(a, SInt) else 'str')
        kb = 'none' if b is None else ('int' if isinstance(b, SInt) else 'str')
        if ka == kb == 'none':
            return 'none', None
        if ka == kb == 'int':
            x, y = a.e, b.e
            if is_lag:
                m = z3.If(x < y, x, y)
                return 'int', z3.If(m < 0, m, z3.IntVal(0))
            m = z3.If(x > y, x, y)
            return 'int', z3.If(m > 0, m, z3.IntVal(0))
        if ka == kb == 'str':
            return 'int', z3.IntVal(0)
        if ka == 'int' and kb == 'str':
            return 'int', a.e
        if ka == 'str' and kb == 'int':
            return 'int', b.e
        return 'typeerror', None

    def post(self, interp, scenario, call, out):
        ctx = interp.ctx
        e = call.entry
        a, b = e['self'], e['other']
        ta, tb = a['type'], b['type']
        varlike = lambda t: z3.Or(*[t == v for v in VARLIKE])   # noqa: E731
        compatible = z3.Or(ta == tb, z3.And(varlike(ta), varlike(tb)))

        def differ(x, y):
            if x is None or y is None:
                return z3.BoolVal(False)
            return x.e != y.e
        two_defs = z3.Or(differ(a['equation'], b['equation']), differ(a['code'], b['code']))
        lag_kind, lag_val = self._lagspec(a['lags'], b['lags'], True)
        lead_kind, lead_val = self._lagspec(a['leads'], b['leads'], False)
        shape_error = 'typeerror' in (lag_kind, lead_kind)
        if out.kind == 'raise':
            cls = exc_class(out.exc)
            if cls is SymbolError:
                ctx.cover('SymbolError')
                ctx.prove(z3.Not(compatible), 'SymbolError_only_for_a_variable_mixed_with_parameter_error_or_other_kind', 'raises')
                return
            if cls is ParserError:
                ctx.cover('ParserError')
                ctx.prove(two_defs, 'ParserError_only_for_two_different_equations', 'raises')
                return
            if cls is TypeError:
                ctx.prove(z3.BoolVal(shape_error), 'TypeError_only_for_None_mixed_with_an_offset', 'raises')
                return
            ctx.prove(False, f'only_parser_errors:{getattr(cls, "__name__", cls)}', 'raises')
            return
        ctx.cover('returned')
        r = out.value
        ctx.prove(z3.BoolVal(isinstance(r, SObj) and r.cls is Symbol), 'returns_a_Symbol', 'ensures')
        ctx.prove(compatible, 'incompatible_kinds_are_rejected_with_SymbolError', 'raises')
        ctx.prove(z3.Not(two_defs), 'two_different_equations_are_rejected_with_ParserError', 'raises')
        ctx.prove(z3.BoolVal(not shape_error), 'None_mixed_with_offset_is_rejected', 'raises')
        if not (isinstance(r, SObj) and r.cls is Symbol):
            return
        f = r.fields
        ctx.prove(V.z3_of(f['name']) == e['name'], 'name_is_kept', 'ensures')
        rt = V.to_int_term(f['type'])
        ctx.prove(rt == z3.If(ta > tb, ta, tb), 'type_is_the_stronger_of_the_two(endogenous>exogenous>variable)', 'ensures')
        for fld, kind, val in (('lags', lag_kind, lag_val), ('leads', lead_kind, lead_val)):
            got = f[fld]
            if kind == 'none':
                ctx.prove(z3.BoolVal(got is None), f'{fld}_stay_None', 'ensures')
            elif kind == 'int':
                ok = isinstance(got, (SInt, int)) and not isinstance(got, bool)
                ctx.prove(z3.BoolVal(ok), f'{fld}_is_an_integer', 'ensures')
                if ok:
                    ctx.prove(V.to_int_term(got) == val,
                              f'{fld}_is_the_' + ('deepest_lag' if fld == 'lags' else 'furthest_lead') + '_over_both_mentions_and_0', 'ensures')
        for fld in ('equation', 'code'):
            x, y = a[fld], b[fld]
            got = f[fld]
            if x is None and y is None:
                ctx.prove(z3.BoolVal(got is None), f'{fld}_stays_None', 'ensures')
            else:
                want = (x if x is not None else y).e
                ctx.prove(z3.BoolVal(got is not None) if got is None else V.z3_of(got) == want, f'{fld}_is_kept', 'ensures')


CONTRACTS = [CombineContract()]


# ---------------------------------------------------------------------------------------------------------------
# build_model_definition / build_fortran_definition: name lists, LAGS / LEADS (shared contract: C03, C15, C07)
# ---------------------------------------------------------------------------------------------------------------
KIND_CHOICES = [Type.ENDOGENOUS, Type.EXOGENOUS, Type.PARAMETER, Type.ERROR, Type.FUNCTION, Type.VERBATIM]


def symbolic_symbol(ctx, i, ty):
    """A parser-normalised symbol of the given kind with symbolic fields (requires: lags <= 0 <= leads for indexed kinds)."""
    name = ctx.fresh(f's{i}.name', STR)
    d = {'type': ty, 'name': SStr(name)}
    if ty in (Type.FUNCTION, Type.VERBATIM):
        d.update(lags=None, leads=None)
    else:
        lg, ld = ctx.fresh(f's{i}.lags', INT), ctx.fresh(f's{i}.leads', INT)
        ctx.assume(z3.And(lg <= 0, ld >= 0))
        d.update(lags=SInt(lg), leads=SInt(ld))
    has_eq = ty in (Type.ENDOGENOUS, Type.VERBATIM) and ctx.choose(2, f's{i}.has_equation') == 0
    if has_eq:
        d.update(equation=SStr(ctx.fresh(f's{i}.equation', STR)), code=SStr(ctx.fresh(f's{i}.code', STR)))
    else:
        d.update(equation=None, code=None)
    if ty is Type.VERBATIM:
        d['name'] = None
    return SObj(Symbol, d, label=f's{i}')


class LagsLeadsContract(FunctionContract):
    """The lag/lead and name-list logic shared by build_model_definition and build_fortran_definition, for symbol lists of
    length <= 2 with symbolic contents (bounded in the list length, stated in the evidence; all integer options symbolic)."""
    props = ('C03', 'C15', 'C07')
    target = 'fsic.parser.build_model_definition'

    def __init__(self, qualname=None):
        self.qualname = qualname or self.target

    def scenarios(self):
        out = ['n0']
        out += [f'n1:{a.name}' for a in KIND_CHOICES]
        out += [f'n2:{a.name}/{b.name}' for a in KIND_CHOICES for b in KIND_CHOICES]
        return out

    def setup(self, interp, scenario):
        ctx = interp.ctx
        kinds = [] if scenario == 'n0' else [Type[k] for k in scenario.split(':')[1].split('/')]
        syms = [symbolic_symbol(ctx, i, k) for i, k in enumerate(kinds)]
        e = {'syms': syms, 'kinds': kinds}
        kw = {}
        for opt in ('lags', 'leads'):
            if ctx.choose(2, f'{opt}-given') == 1:
                v = ctx.fresh(opt, INT)
                e[opt] = v
                kw[opt] = SInt(v)
            else:
                e[opt] = None
        for opt in ('min_lags', 'min_leads'):
            v = ctx.fresh(opt, INT)
            e[opt] = v
            kw[opt] = SInt(v)
        e['inputs'] = {k: v for k, v in e.items() if k in ('lags', 'leads', 'min_lags', 'min_leads') and v is not None}
        for i, s_ in enumerate(syms):
            for f in ('lags', 'leads'):
                if s_.fields[f] is not None:
                    e['inputs'][f's{i}.{f}'] = s_.fields[f].e
        if self.qualname.endswith('build_model_definition'):
            kw['with_type_hints'] = ctx.choose(2, 'with_type_hints') == 0
            e['typed'] = kw['with_type_hints']
            # converter: either the default (replaced at its call site by "a function of the symbol", logged) or a custom callable
            log, default_log = [], []
            e['conv_log'], e['default_log'] = log, default_log
            CONV = {'custom': z3.Function('custom_converter_output', STR, STR, STR),
                    'default': z3.Function('default_converter_output', STR, STR, STR)}

            def conv_value(sym, which):
                eq, code = sym.fields['equation'], sym.fields['code']
                if eq is None or code is None:
                    return None
                return SStr(CONV[which](eq.e, code.e))

            class Conv:
                def __init__(self_, which, lg):
                    self_.which, self_.lg = which, lg

                def vc_call(self_, interp_, args, kwargs, node):
                    self_.lg.append(args[0])
                    v = conv_value(args[0], self_.which)
                    if v is None:
                        from pyvc.ctx import OutOfSubset
                        raise OutOfSubset('converter applied to a symbol without equation')
                    return v
            e['custom_given'] = ctx.choose(2, 'custom-converter') == 1
            e['conv_value'] = lambda sym: conv_value(sym, 'custom' if e['custom_given'] else 'default')
            if e['custom_given']:
                kw['converter'] = Conv('custom', log)
            interp.registry.set_calls({'fsic.parser.build_model_definition.default_converter':
                                       lambda interp_, closure, args, kwargs, node: Conv('default', default_log).vc_call(interp_, args, kwargs, node)})
        return Call([syms], kw, entry=e)

    def expected(self, e):
        idx = [s_ for s_ in e['syms'] if s_.fields['type'] not in (Type.FUNCTION, Type.KEYWORD, Type.VERBATIM)]

        def fold(vals, lo):
            m = vals[0]
            for v in vals[1:]:
                m = z3.If(v < m, v, m) if lo else z3.If(v > m, v, m)
            return m
        if e['lags'] is not None:
            lags = e['lags']
        else:
            deepest = -fold([s_.fields['lags'].e for s_ in idx], True) if idx else z3.IntVal(0)
            lags = z3.If(deepest > e['min_lags'], deepest, e['min_lags'])
        if e['leads'] is not None:
            leads = e['leads']
        else:
            furthest = fold([s_.fields['leads'].e for s_ in idx], False) if idx else z3.IntVal(0)
            leads = z3.If(furthest > e['min_leads'], furthest, e['min_leads'])
        lists = {k: [s_.fields['name'] for s_ in e['syms'] if s_.fields['type'] is t]
                 for k, t in (('endogenous', Type.ENDOGENOUS), ('exogenous', Type.EXOGENOUS), ('parameters', Type.PARAMETER), ('errors', Type.ERROR))}
        return lags, leads, lists

    def post(self, interp, scenario, call, out):
        from pyvc.libspec import model_str_format
        ctx = interp.ctx
        e = call.entry
        if out.kind == 'raise':
            ctx.prove(False, f'no_exception:{getattr(exc_class(out.exc), "__name__", "?")}@{getattr(out.exc, "origin", "")}', 'raises')
            return
        r = out.value
        ctx.prove(z3.BoolVal(isinstance(r, (SStr, str))), 'returns_text', 'ensures')
        lags, leads, lists = self.expected(e)
        template = fp.MODEL_TEMPLATE_TYPED if e.get('typed', True) else fp.MODEL_TEMPLATE_UNTYPED
        # expected text: the template constant read from the source, filled with the values the property prescribes; the equations
        # block is whatever the function produced (its content is the subject of the C15 converter obligations)
        blocks = [s_ for s_ in e['syms'] if s_.fields['type'] in (Type.ENDOGENOUS, Type.VERBATIM) and s_.fields['equation'] is not None
                  and s_.fields['code'] is not None]
        eq_parts = []
        for i, s_ in enumerate(blocks):
            if i:
                eq_parts.append(('c', '\n\n'))
            eq_parts.append(('block', s_))
        want = model_str_format(interp, template, [], dict(endogenous=lists['endogenous'], exogenous=lists['exogenous'],
                                                           parameters=lists['parameters'], errors=lists['errors'],
                                                           lags=SInt(lags), leads=SInt(leads), equations='\x00EQ\x00'), None)
        got = V.sstr(r) if isinstance(r, (SStr, str)) else None
        if got is None:
            return
        # compare everything outside the equations slot structurally
        wp = V.sstr(want).parts
        pre, postp = self._split(wp)
        gp = got.parts
        ctx.prove(self._prefix_eq(gp, pre), 'class_header_lists_LAGS_LEADS_as_prescribed', 'ensures',
                  note='names by kind in first-appearance order; LAGS/LEADS = explicit value, else max(deepest lag|furthest lead, min_*)')
        ends_pass = self._ends_with_pass(gp)
        if not blocks:
            ctx.prove(z3.BoolVal(ends_pass), 'pass_inserted_when_there_is_no_equation', 'ensures', props=('C15',))
        if 'conv_log' in e:
            from pyvc.libspec import UF_INDENT
            log, other = (e['conv_log'], e['default_log']) if e['custom_given'] else (e['default_log'], e['conv_log'])
            ctx.prove(z3.BoolVal(len(log) == len(blocks) and all(a is b for a, b in zip(log, blocks)) and not other),
                      'the_given_converter_is_applied_once_per_symbol_with_equation_in_symbol_order', 'ensures', props=('C15',))
            # the equations slot is exactly the indented converter outputs joined by blank lines
            if blocks and ends_pass:
                # `pass` replaces the equations block only when the converter produced no text at all
                from pyvc.libspec import UF_INDENT as _UI
                joined = z3.Concat(*[x for i, s_ in enumerate(blocks) for x in
                                     ([z3.StringVal('\n\n')] if i else []) + [_UI(e['conv_value'](s_).e, z3.StringVal('        '))]]) \
                    if len(blocks) > 1 else _UI(e['conv_value'](blocks[0]).e, z3.StringVal('        '))
                ctx.prove(z3.Length(joined) == 0, 'pass_replaces_equations_only_when_converter_output_is_empty', 'ensures', props=('C15',))
            elif blocks:
                eqp = []
                for i, s_ in enumerate(blocks):
                    if i:
                        eqp.append(('c', '\n\n'))
                    eqp.append(('s', UF_INDENT(e['conv_value'](s_).e, z3.StringVal('        '))))
                whole = SStr(pre + eqp + postp)
                conds = V.parts_prefix_conditions(got, whole)
                back = V.parts_prefix_conditions(whole, got)
                ok = conds is not None and back is not None
                ctx.prove(z3.And(*(conds + back)) if ok and (conds + back) else z3.BoolVal(ok),
                          'text_is_the_template_with_converter_outputs_inserted_verbatim', 'ensures', props=('C15',))

    @staticmethod
    def _split(parts):
        pre, post, seen = [], [], False
        for p in parts:
            if p[0] == 'c' and '\x00EQ\x00' in p[1]:
                a, b = p[1].split('\x00EQ\x00')
                pre.append(('c', a))
                post.append(('c', b))
                seen = True
            elif seen:
                post.append(p)
            else:
                pre.append(p)
        return pre, post

    @staticmethod
    def _prefix_eq(got_parts, want_prefix):
        """got starts with want_prefix (as strings)."""
        w = SStr(want_prefix)
        g = SStr(got_parts)
        conds = V.parts_prefix_conditions(g, w)
        if conds is None:
            return z3.PrefixOf(w.e, g.e)
        return z3.And(*conds) if conds else z3.BoolVal(True)

    @staticmethod
    def _ends_with_pass(parts):
        return bool(parts) and parts[-1][0] == 'c' and parts[-1][1].rstrip('\n').endswith('        pass')


CONTRACTS += [LagsLeadsContract()]
