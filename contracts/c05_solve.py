"""SolverMixin.solve / iter_periods / solve_period (C05; default range for C03/C04; solve_period for C02).

Ghost call log of the single-period solver:  ncalls, Lt[k] = position passed to the k-th call, R[k] = its result.
The per-period solver `solve_t` is replaced by its contract at the call sites (pre: the caller's options are
forwarded unchanged; post: returns a bool or raises), the span look-up `_locate_period_in_span` by the assumed
look-up contract (DESIGN 10/C05): for a label it returns an int position pos with span[pos] == label, or a
non-int value (slice / other) when the label has no single position, or raises KeyError.
"""
from __future__ import annotations

import ast

import z3

from fsic.core.models import BaseModel
from fsic.exceptions import SolutionError
from pyvc import roles as R
from pyvc import values as V
from pyvc.contracts import Call, FunctionContract, LoopSpec
from pyvc.ctx import OutOfSubset
from pyvc.interp import PyRaise, exc_class
from pyvc.libspec import A, SGenSeq, SOptList
from pyvc.values import (ANY_EXCEPTION, BOOL, F64, INT, STR, SArr, SBool, SExc, SFloat, SInt, SObj, SSeq, SStr,
                         forall_range)

from .model_obj import getattr_contract, make_model

OPTS = ('min_iter', 'max_iter', 'tol', 'offset', 'failures', 'errors', 'catch_first_error')


def S(x):
    return z3.StringVal(x)


def fresh_options(ctx):
    o = {'min_iter': ctx.fresh('min_iter', INT), 'max_iter': ctx.fresh('max_iter', INT), 'tol': ctx.fresh('tol', F64),
         'offset': ctx.fresh('offset', INT), 'failures': ctx.fresh('failures', STR), 'errors': ctx.fresh('errors', STR),
         'catch_first_error': ctx.fresh('catch_first_error', BOOL)}
    return o


def wrap_options(o):
    return dict(min_iter=SInt(o['min_iter']), max_iter=SInt(o['max_iter']), tol=SFloat(o['tol']), offset=SInt(o['offset']),
                failures=SStr(o['failures']), errors=SStr(o['errors']), catch_first_error=SBool(o['catch_first_error']))


def distinct_labels(ctx, env):
    i, j = z3.Int('i!d'), z3.Int('j!d')
    sp = env.span.arr
    ctx.assume(z3.ForAll([i, j], z3.Implies(z3.And(0 <= i, i < env.n, 0 <= j, j < env.n, i != j),
                                            z3.Select(sp, i) != z3.Select(sp, j))))


class NotAPosition:
    """A look-up result that is neither an int nor a slice (e.g. a boolean mask)."""


def install_solver_calls(interp, e, *, locate_kinds, solve_t_qualname='fsic.core.models.BaseModel.solve_t', extra=()):
    """Call contracts for solve_t and the span look-up; records the ghost call log."""
    ctx = interp.ctx
    g = ctx.ghost
    env = e['env']
    g.update(ncalls=z3.IntVal(0), Lt=ctx.fresh('Lt', z3.ArraySort(INT, INT)), R=ctx.fresh('R', z3.ArraySort(INT, BOOL)),
             solve_t_exc=None, located={}, locate_order=[])

    def solve_t(interp_, obj, args, kwargs, node):
        t = V.to_int_term(args[0])
        ok = [z3.BoolVal(k in kwargs) for k in OPTS]
        for k in OPTS:
            if k in kwargs:
                ok.append(V.z3_of(kwargs[k]) == e['opts'][k])
        # further keywords the entry point forwards as they are (the linker's `submodels` selection)
        for k_ in extra:
            ok.append(z3.BoolVal(k_ in kwargs and kwargs[k_] is e['extra'][k_]))
        unexpected = set(kwargs) - set(OPTS) - set(extra)
        ok.append(z3.BoolVal(not unexpected))
        ctx.prove(z3.And(*ok), 'solve_t:same_options_as_the_caller', 'pre-at-call', line=getattr(node, 'lineno', 0))
        ctx.prove(z3.And(t >= -env.n, t < env.n), 'solve_t:position_inside_span', 'pre-at-call')
        k = g['ncalls']
        g['Lt'] = z3.Store(g['Lt'], k, t)
        g['ncalls'] = k + 1
        ctx.use(A('fsic.solve_t.contract', 'solve_t(t, **options) returns a bool or raises (its own contract is proved in C02/C06)'))
        if ctx.choose(2, 'solve_t-raises') == 1:
            exc = SExc(ANY_EXCEPTION, origin='solve_t')
            g['solve_t_exc'] = exc
            raise PyRaise(exc)
        return SBool(z3.Select(g['R'], k))

    def locate(interp_, obj, args, kwargs, node):
        ctx.use(A('fsic.locate.contract', '_locate_period_in_span(label) returns an int pos with 0 <= pos < n and span[pos] == label, or a '
                                          'non-int value when the label has no single position, or raises KeyError'))
        label = args[0]
        key = V.z3_of(label).sexpr()
        if key in g['located']:
            # the look-up is a function of (span, label): the same label resolves to the same result
            r = g['located'][key]
            if isinstance(r, SExc):
                raise PyRaise(r)
            return r
        kind = ctx.choose(4, 'locate') if locate_kinds == 'all' else 0
        if kind in (1, 2, 3):
            # labels are pairwise distinct (precondition), so a label that is an element of the span has a single position:
            # a non-int result or KeyError only arises for a label that equals no element of the span
            ctx.assume(forall_range(0, env.n, lambda i: z3.Select(env.span.arr, i) != V.z3_of(label), 'absent'))
        if kind == 2:
            exc = SExc(KeyError, origin='locate')
            g['located'][key] = exc
            raise PyRaise(exc)
        if kind in (1, 3):
            # a slice (a year against a quarterly PeriodIndex) or any other value that is not a single position (pandas returns a boolean mask
            # for a label that occurs several times in an unsorted index)
            r = slice(0, 1) if kind == 1 else NotAPosition()
            g['located'][key] = r
            g['locate_order'].append((label, r))
            return r
        pos = ctx.fresh('pos', INT)
        ctx.assume(z3.And(pos >= 0, pos < env.n, z3.Select(env.span.arr, pos) == V.z3_of(label)))
        g['locate_order'].append((label, pos))
        g['located'][key] = SInt(pos)
        return SInt(pos)

    interp.registry.set_calls({
        solve_t_qualname: solve_t,
        'fsic.core.containers.VectorContainer._locate_period_in_span': locate,
        'fsic.core.containers.VectorContainer.__getattr__': getattr_contract,
    })


class SolvePeriodContract(FunctionContract):
    qualname = 'fsic.core.interfaces.SolverMixin.solve_period'
    props = ('C02', 'C05', 'C06')
    required_covers = ('forwarded', 'keyerror')

    def setup(self, interp, scenario):
        ctx = interp.ctx
        env = make_model(interp, BaseModel)
        e = {'env': env, 'opts': fresh_options(ctx)}
        e['period'] = ctx.fresh('period', STR)
        install_solver_calls(interp, e, locate_kinds='all')
        e['inputs'] = dict(e['opts'], n=env.n)
        return Call([SStr(e['period'])], wrap_options(e['opts']), self_obj=env.obj, entry=e)

    def post(self, interp, scenario, call, out):
        ctx = interp.ctx
        g = ctx.ghost
        e = call.entry
        loc = g['locate_order']
        ctx.prove(len(loc) <= 1, 'label_located_once', 'ensures')
        located_int = bool(loc) and not isinstance(loc[0][1], (slice, NotAPosition))
        if out.kind == 'raise':
            if out.exc is g['solve_t_exc']:
                ctx.prove(g['ncalls'] == 1, 'exception_of_solve_t_propagates_unchanged', 'raises')
                return
            ctx.cover('keyerror')
            ctx.prove(exc_class(out.exc) is KeyError, 'unknown_or_multi_position_label_raises_KeyError', 'raises')
            ctx.prove(z3.And(g['ncalls'] == 0, z3.BoolVal(not located_int)), 'KeyError_only_when_label_has_no_single_position_and_nothing_solved', 'raises')
            return
        ctx.cover('forwarded')
        ctx.prove(z3.BoolVal(located_int), 'returns_only_for_a_located_label', 'ensures')
        if located_int:
            ctx.prove(z3.And(g['ncalls'] == 1, z3.Select(g['Lt'], 0) == loc[0][1]), 'equals_solve_t_at_position_of_label', 'ensures')
            r = out.value
            ctx.prove(isinstance(r, SBool) and z3.eq(z3.simplify(r.e), z3.simplify(z3.Select(g['R'], 0))) or V.truth(r) == z3.Select(g['R'], 0),
                      'returns_the_result_of_solve_t', 'ensures')


class SolveContract(FunctionContract):
    """SolverMixin.solve: visits exactly the periods from start to end inclusive, in span order; identical to the sequence of
    single-period solves with the same options; returned triple; failure propagation."""
    qualname = 'fsic.core.interfaces.SolverMixin.solve'
    props = ('C05', 'C03', 'C04')
    required_covers = ('returned', 'value-error', 'keyerror', 'empty-span', 'solve_t-raised')
    model_cls = BaseModel
    solve_t_qualname = 'fsic.core.models.BaseModel.solve_t'
    extra_kwargs = ()
    prevalidates_labels = True       # solve() rejects a start/end label without a single position before anything is solved

    def scenarios(self):
        return ['default-range', 'start-end', 'start-only', 'end-only', 'empty-span', 'short-span']

    def setup(self, interp, scenario):
        ctx = interp.ctx
        env = make_model(interp, self.model_cls, with_lags=True)
        e = {'env': env, 'opts': fresh_options(ctx), 'scenario': scenario, 'extra': {k: object() for k in self.extra_kwargs}}
        distinct_labels(ctx, env)
        kw = wrap_options(e['opts'])
        kw.update(e['extra'])
        e['start'] = e['end'] = None
        if scenario == 'empty-span':
            # n == 0 contradicts make_model's n >= 1: rebuild the span as empty
            env.span.length = z3.IntVal(0)
            e['empty'] = True
        elif scenario == 'short-span':
            # a non-empty span too short for the model's lags and leads: no period reads inside the span, so the default range is
            # empty - the call may refuse (IndexError from the span look-up) but must not solve any period
            ctx.assume(z3.And(env.n >= 1, env.n < env.lags + env.leads + 1))
        else:
            # requires (C04 quantifier): the span accommodates the model's lags and leads
            ctx.assume(env.n >= env.lags + env.leads + 1)
        if scenario in ('start-end', 'start-only'):
            e['start'] = ctx.fresh('start', STR)
            kw['start'] = SStr(e['start'])
        if scenario in ('start-end', 'end-only'):
            e['end'] = ctx.fresh('end', STR)
            kw['end'] = SStr(e['end'])
        install_solver_calls(interp, e, locate_kinds='all' if (scenario in ('start-end', 'start-only', 'end-only') and self.prevalidates_labels) else 'int',
                             solve_t_qualname=self.solve_t_qualname, extra=self.extra_kwargs)
        self.loops = {R.body_calls('solve_t'): self._loop(e)}
        interp.registry.set_loops(self.qualname, self.loops)
        e['inputs'] = dict(e['opts'], n=env.n, lags=env.lags, leads=env.leads)
        return Call([], kw, self_obj=env.obj, entry=e)

    def _loop(self, e):
        env = e['env']

        def roles(fr):
            # locals by role: the three returned lists (labels, positions, flags in the order of the return statement) and the iterated object
            fn = fr.fi.node
            ret = R.returned_names(fn) or ['labels', 'indexes', 'solved']
            loop = next((n for n in ast.walk(fn) if isinstance(n, ast.For) and R.body_calls('solve_t')(n)), None)
            src = (R.iter_source_name(loop) if loop is not None else None) or 'period_iter'
            return {'labels': ret[0], 'indexes': ret[1], 'solved': ret[2], 'period_iter': src}

        def inv(interp, fr, k):
            g = interp.ctx.ghost
            rn = roles(fr)
            pit = fr.locals[rn['period_iter']]
            seq = pit.fields['_iter']
            cnt = V.to_int_term(pit.fields['_length'])
            out = [('one_call_per_visited_period', g['ncalls'] == k),
                   ('length_is_number_of_periods', z3.And(cnt == seq.length, cnt >= 0, k <= cnt))]
            for nme, kind in (('indexes', 'int'), ('labels', 'str'), ('solved', 'bool')):
                lst = fr.locals[rn[nme]]
                out.append((f'{nme}_has_one_slot_per_period', lst.length == cnt))
            j = z3.Int('j!inv')

            def elem(jj):
                t, lab = seq.element(jj)
                return V.to_int_term(t), V.z3_of(lab)
            if k is not None and (not z3.is_int_value(z3.simplify(k)) or z3.simplify(k).as_long() > 0):
                ix, lb, sv = fr.locals[rn['indexes']], fr.locals[rn['labels']], fr.locals[rn['solved']]
                out.append(('calls_so_far_are_the_periods_in_order',
                            z3.ForAll([j], z3.Implies(z3.And(0 <= j, j < k), z3.Select(g['Lt'], j) == elem(j)[0]))))
                if ix.arr is not None and lb.arr is not None and sv.arr is not None:
                    out.append(('triple_so_far',
                                z3.ForAll([j], z3.Implies(z3.And(0 <= j, j < k), z3.And(
                                    z3.Select(ix.isset, j), z3.Select(lb.isset, j), z3.Select(sv.isset, j),
                                    z3.Select(ix.arr, j) == elem(j)[0], z3.Select(lb.arr, j) == elem(j)[1],
                                    z3.Select(sv.arr, j) == z3.Select(g['R'], j))))))
                else:
                    out.append(('triple_lists_are_typed', z3.BoolVal(False)))
            return out

        def havoc(interp, fr):
            ctx = interp.ctx
            g = ctx.ghost
            g['ncalls'] = ctx.fresh('ncalls', INT)
            g['Lt'] = ctx.fresh('Lt!loop', z3.ArraySort(INT, INT))
            rn = roles(fr)
            for role, kind in (('indexes', 'int'), ('labels', 'str'), ('solved', 'bool')):
                nme = rn[role]
                lst = fr.locals[nme]
                fr.locals[nme] = SOptList(lst.length, kind, ctx.fresh(role + '.data', z3.ArraySort(INT, V._SORT_OF_KIND[kind])),
                                          ctx.fresh(role + '.isset', z3.ArraySort(INT, BOOL)))

        return LoopSpec(invariant=inv, havoc=havoc, props=(('C05',) if 'C05' in self.props else tuple(self.props)))

    def post(self, interp, scenario, call, out):
        ctx = interp.ctx
        g = ctx.ghost
        e = call.entry
        env = e['env']
        o = e['opts']
        n, lags, leads = env.n, env.lags, env.leads
        loc = g['locate_order']
        bad_minmax = o['min_iter'] > o['max_iter']
        # solve() itself writes no bookkeeping and no values: everything it changes, it changes through the single-period solver
        ctx.prove(z3.And(env.status.arr == env.status0, env.iterations.arr == env.iter0, env.store.data == env.vars0),
                  'solve_changes_the_model_only_through_the_single_period_solver', 'frame')

        if out.kind == 'raise':
            cls = exc_class(out.exc)
            if out.exc is g['solve_t_exc']:
                ctx.cover('solve_t-raised')
                # failure containment (call-log half): the periods before the failing one were solved in order, none after it
                k = g['ncalls']
                ctx.prove(k >= 1, 'failing_period_was_attempted', 'raises')
                self._log_is_prefix(ctx, e, g, k, 'exception_from_period_k:earlier_periods_solved_in_order_later_untouched')
                return
            if cls is ValueError:
                ctx.cover('value-error')
                ctx.prove(z3.And(bad_minmax, g['ncalls'] == 0), 'ValueError_only_when_min_iter_exceeds_max_iter_before_anything_is_solved', 'raises')
                return
            ctx.prove(z3.Not(bad_minmax), 'min_iter_exceeding_max_iter_is_rejected', 'raises')
            if cls is KeyError:
                ctx.cover('keyerror')
                nonint = any(isinstance(r, (slice, NotAPosition)) for _, r in loc) or getattr(out.exc, 'origin', '') == 'locate'
                ctx.prove(z3.And(z3.BoolVal(bool(nonint)), g['ncalls'] == 0),
                          'KeyError_only_for_start_or_end_without_a_single_position_before_anything_is_solved', 'raises')
                return
            if cls is SolutionError:
                ctx.cover('empty-span')
                ctx.prove(z3.And(env.span.length == 0, g['ncalls'] == 0), 'SolutionError_only_for_an_empty_span', 'raises')
                return
            if scenario == 'short-span' and cls is IndexError:
                ctx.prove(g['ncalls'] == 0, 'span_too_short_for_lags_and_leads:refused_before_anything_is_solved', 'raises')
                return
            ctx.prove(False, f'only_documented_exceptions:{getattr(cls, "__name__", cls)}', 'raises')
            return
        ctx.cover('returned')
        ctx.prove(z3.Not(bad_minmax), 'min_iter_exceeding_max_iter_is_rejected', 'raises')
        ctx.prove(env.span.length > 0, 'empty_span_is_rejected', 'raises')
        ctx.prove(z3.BoolVal(not any(isinstance(r, (slice, NotAPosition)) for _, r in loc)), 'start_or_end_without_single_position_is_rejected', 'raises')
        # the range is the one the caller asked for: a start / end label that was given is the label whose position was looked up
        # (the bounds below are taken from those look-ups; a label that is silently ignored must not pass as "the default")
        for which in ('start', 'end'):
            if e[which] is not None:
                found = any(V.is_sym(lab) and z3.eq(V.z3_of(lab), e[which]) for lab, _ in loc)
                ctx.prove(z3.BoolVal(bool(found)), f'{which}_label_given_by_the_caller_is_looked_up_in_the_span', 'ensures')
        s, t_ = self._bounds(e, g)
        cnt = z3.If(t_ - s + 1 > 0, t_ - s + 1, z3.IntVal(0))
        k = g['ncalls']
        ctx.prove(k == cnt, 'visits_exactly_start_to_end_inclusive', 'ensures')
        self._log_is_prefix(ctx, e, g, k, 'periods_visited_in_span_order')
        r = out.value
        ok = isinstance(r, tuple) and len(r) == 3 and all(isinstance(x, SOptList) for x in r)
        ctx.prove(z3.BoolVal(ok), 'returns_triple_of_lists', 'ensures')
        if ok:
            labels, indexes, solved = r
            j = z3.Int('j!post')
            ctx.prove(z3.And(labels.length == cnt, indexes.length == cnt, solved.length == cnt), 'triple_has_one_entry_per_period', 'ensures')
            if cnt is not None and labels.arr is not None and indexes.arr is not None and solved.arr is not None:
                ctx.prove(z3.ForAll([j], z3.Implies(z3.And(0 <= j, j < cnt), z3.And(
                    z3.Select(indexes.isset, j), z3.Select(labels.isset, j), z3.Select(solved.isset, j),
                    z3.Select(indexes.arr, j) == s + j,
                    z3.Select(labels.arr, j) == z3.Select(env.span.arr, s + j),
                    z3.Select(solved.arr, j) == z3.Select(g['R'], j)))), 'returned_labels_positions_flags_match_the_calls', 'ensures')
            else:
                # zero periods: the lists stay untyped and empty
                ctx.prove(cnt == 0, 'untyped_lists_only_when_no_period_is_visited', 'ensures')

    @staticmethod
    def _bounds(e, g):
        """Positions of the first and last period to visit, from the property statement: start/end label positions,
        defaults = first period with enough lags / last with enough leads."""
        env = e['env']
        loc = {('start' if V.is_sym(lab) and z3.eq(V.z3_of(lab), e['start']) else 'end' if e['end'] is not None and V.is_sym(lab) and z3.eq(V.z3_of(lab), e['end']) else 'default'): r
               for lab, r in g['locate_order'] if not isinstance(r, (slice, NotAPosition))} if False else None
        s = env.lags
        t_ = env.n - 1 - env.leads
        for lab, r in g['locate_order']:
            if isinstance(r, (slice, NotAPosition)):
                continue
            if e['start'] is not None and V.is_sym(lab) and z3.eq(V.z3_of(lab), e['start']):
                s = r
            if e['end'] is not None and V.is_sym(lab) and z3.eq(V.z3_of(lab), e['end']):
                t_ = r
        return s, t_

    def _log_is_prefix(self, ctx, e, g, k, label):
        s, _ = self._bounds(e, g)
        j = z3.Int('j!log')
        ctx.prove(z3.ForAll([j], z3.Implies(z3.And(0 <= j, j < k), z3.Select(g['Lt'], j) == s + j)), label, 'ensures')


class LinkerSolveContract(SolveContract):
    """BaseLinker.solve: the same period loop over the linker's own single-period solver, with the `submodels` selection forwarded as given.
    (The linker does not pre-validate start/end labels; its contract is stated for labels that have a position.)"""
    qualname = 'fsic.core.linkers.BaseLinker.solve'
    props = ('C08',)
    required_covers = ('returned', 'value-error', 'empty-span', 'solve_t-raised')
    solve_t_qualname = 'fsic.core.linkers.BaseLinker.solve_t'
    extra_kwargs = ('submodels',)
    prevalidates_labels = False

    @property
    def model_cls(self):
        from fsic.core.linkers import BaseLinker
        return BaseLinker


CONTRACTS = [SolvePeriodContract(), SolveContract()]


# ---------------------------------------------------------------------------------------------------------------
# "with the same options": an option that the caller leaves out takes the same default at every entry point
# ---------------------------------------------------------------------------------------------------------------
class SolverDefaults:
    """Lemma over the signatures (read from the imported functions on every run): solve(), solve_period() and solve_t() - of the model, the
    linker and the Fortran engine - give every shared solver option the same default value, so that solve() with an option left out is the
    per-period loop with that option left out."""
    qualname = 'fsic.core.interfaces.SolverMixin.solve~solve_period~BaseModel.solve_t (defaults)'
    props = ('C05', 'C02', 'C08', 'C07')

    def scenarios(self):
        return ['lemma']

    def custom_generate(self, scen):
        import hashlib
        import inspect
        import time

        import fsic.fortran
        from fsic.core.interfaces import SolverMixin
        from fsic.core.linkers import BaseLinker
        from pyvc.contracts import FunctionReport
        from pyvc.ctx import Ctx
        rep = FunctionReport(qualname=self.qualname)
        t0 = time.time()
        ctx = Ctx(scenario=scen)
        ctx.current_fn = self.qualname
        ctx.default_props = self.props
        fns = {'SolverMixin.solve': SolverMixin.solve, 'SolverMixin.solve_period': SolverMixin.solve_period, 'BaseModel.solve_t': BaseModel.solve_t,
               'BaseLinker.solve': BaseLinker.solve, 'BaseLinker.solve_t': BaseLinker.solve_t,
               'FortranEngine.solve': fsic.fortran.FortranEngine.solve, 'FortranEngine.solve_t': fsic.fortran.FortranEngine.solve_t}
        rep.sha256 = hashlib.sha256(''.join(str(inspect.signature(f)) for f in fns.values()).encode()).hexdigest()
        ref = {k: p.default for k, p in inspect.signature(BaseModel.solve_t).parameters.items() if k in OPTS}
        ctx.prove(z3.BoolVal(set(ref) == set(OPTS)), 'single_period_solver_has_every_documented_option', 'lemma', assume_after=False, note=str(sorted(ref)))
        for name, f in fns.items():
            sig = inspect.signature(f).parameters
            for opt in OPTS:
                if opt not in sig:
                    if name.startswith('FortranEngine') and opt == 'catch_first_error':
                        continue            # the compiled engine has no per-operation error trapping (documented difference)
                    ctx.prove(z3.BoolVal(False), f'{name}:accepts_option_{opt}', 'lemma', assume_after=False)
                    continue
                d = sig[opt].default
                same = d == ref.get(opt) and type(d) is type(ref.get(opt))
                ctx.prove(z3.BoolVal(same), f'{name}:default_of_{opt}_is_that_of_the_single_period_solver', 'lemma', assume_after=False, note=f'{d!r} vs {ref.get(opt)!r}')
        rep.obligations = list(ctx.obligations)
        rep.paths = 1
        rep.scenarios[scen] = {'paths': 1}
        rep.seconds = time.time() - t0
        return rep
