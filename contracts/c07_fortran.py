"""C07 - the FortranEngine wrappers, given an assumed contract for the compiled ENGINE (DESIGN 10/C07).

ENGINE.solve_t / ENGINE.evaluate are replaced by recording contracts that return arbitrary (values, converged, iteration,
error_code).  Obligations: what the wrapper hands to Fortran (one-based period, one-based check-variable rows inside
1..nrows, option codes, offset) and how it maps the returned codes to the outcomes of the Python solver (status,
iterations, result flag, exception class).  The ENGINE contract itself is exercised by the bounded differential.
"""
from __future__ import annotations

import z3

import fsic
import fsic.fortran
from fsic.exceptions import FortranEngineError, NonConvergenceError, SolutionError
from pyvc import values as V
from pyvc.contracts import Call, FunctionContract
from pyvc.ctx import OutOfSubset
from pyvc.interp import PyRaise, exc_class
from pyvc.libspec import A
from pyvc.values import BOOL, F64, INT, STR, SArr, SBool, SExc, SFloat, SInt, SObj, SSeq, SStr, VarStore, norm_index

from .model_obj import getattr_contract, make_model


class _Py(fsic.BaseModel):
    ENDOGENOUS = ['Y', 'C']
    EXOGENOUS = ['G']
    NAMES = ENDOGENOUS + EXOGENOUS
    CHECK = ['C', 'Y']


class _F(fsic.fortran.FortranEngine, _Py):
    ENGINE = object()


INSTANCE_CHECK = ['Y']          # _F.CHECK is ['C', 'Y']


def S(x):
    return z3.StringVal(x)


class FortranSolveT(FunctionContract):
    qualname = 'fsic.fortran.FortranEngine.solve_t'
    props = ('C07',)
    required_covers = ('solved', 'failed', 'error', 'skipped', 'engine-error')

    def scenarios(self):
        return ['offset0', 'offset']

    def setup(self, interp, scenario):
        ctx = interp.ctx
        env = make_model(interp, _F)
        obj = env.obj
        obj.fields['names'] = list(_F.NAMES)
        obj.fields['check'] = list(INSTANCE_CHECK)      # the instance's own list (it may have been edited): not the class-level CHECK
        obj.fields['endogenous'] = list(_F.ENDOGENOUS)
        obj.known_vars = tuple(_F.NAMES)
        e = {'env': env, 'engine_calls': [], 'values_set': []}
        n = env.n
        t = ctx.fresh('t', INT)
        ctx.assume(z3.And(t >= -n, t < n))
        e['t'], e['nt'] = t, norm_index(t, n)
        for k, srt in (('min_iter', INT), ('max_iter', INT), ('offset', INT), ('tol', F64), ('failures', STR), ('errors', STR), ('cfe', BOOL)):
            e[k] = ctx.fresh(k, srt)
        ctx.assume(e['offset'] == 0 if scenario == 'offset0' else e['offset'] != 0)
        e['inputs'] = {k: e[k] for k in ('t', 'min_iter', 'max_iter', 'offset', 'errors', 'failures')}
        values_token = object()
        e['values_token'] = values_token

        class Values:
            def astype(self_, dt):
                return values_token
        ret = dict(values=object(), converged=SBool(ctx.fresh('converged', BOOL)), iteration=SInt(ctx.fresh('engine_iteration', INT)),
                   code=SInt(ctx.fresh('error_code', INT)))
        e['ret'] = ret
        e['inputs']['error_code'] = ret['code'].e

        class Engine:
            class solve_t:
                @staticmethod
                def vc_call(interp_, args, kwargs, node):
                    ctx.use(A('fortran.ENGINE.solve_t', 'the compiled solve_t returns (values, converged, iteration, error_code) per the error-code table of the template; '
                                                        'exercised by the bounded differential (gfortran + ctypes)'))
                    e['engine_calls'].append(list(args))
                    return (ret['values'], ret['converged'], ret['iteration'], ret['code'])
        obj.fields['ENGINE'] = Engine

        def values_get(interp_, o, args, kwargs, node):
            return Values()

        def values_set(interp_, o, args, kwargs, node):
            e['values_set'].append(args[0])
            return None
        interp.registry.set_calls({'fsic.core.interfaces.ModelInterface.values': values_get,
                                   'fsic.core.containers.VectorContainer.__getattr__': getattr_contract})
        # the `values` setter is reached through the attribute protocol: intercept by name
        e['values_setter'] = values_set
        orig_setattr = interp.setattr

        def patched_setattr(o, name, v, node=None):
            if o is obj and name == 'values':
                return values_set(interp, o, [v], {}, node)
            return orig_setattr(o, name, v, node)
        interp.setattr = patched_setattr
        kw = dict(min_iter=SInt(e['min_iter']), max_iter=SInt(e['max_iter']), tol=SFloat(e['tol']), offset=SInt(e['offset']), failures=SStr(e['failures']),
                  errors=SStr(e['errors']), catch_first_error=SBool(e['cfe']))
        return Call([SInt(t)], kw, self_obj=obj, entry=e)

    def post(self, interp, scenario, call, out):
        ctx = interp.ctx
        e = call.entry
        env = e['env']
        nt = e['nt']
        calls = e['engine_calls']
        st_nt, it_nt = z3.Select(env.status.arr, nt), z3.Select(env.iterations.arr, nt)
        E, Fl = e['errors'], e['failures']
        valid = z3.Or(*[E == S(x) for x in ('raise', 'skip', 'ignore', 'replace')])
        code = e['ret']['code'].e
        if calls:
            a = calls[0]
            codes = {'raise': 0, 'skip': 1, 'ignore': 2, 'replace': 3}
            want_code = z3.IntVal(-99)
            for k_, v_ in codes.items():
                want_code = z3.If(E == S(k_), z3.IntVal(v_), want_code)
            rows = a[6] if len(a) > 6 else None
            ok_rows = isinstance(rows, list) and rows == [_F.NAMES.index(x) + 1 for x in INSTANCE_CHECK] and all(1 <= r <= len(_F.NAMES) for r in rows)
            ctx.prove(z3.BoolVal(len(calls) == 1 and len(a) == 8 and a[0] is e['values_token']), 'engine_called_once_with_the_model_values_as_float', 'pre-at-call')
            ctx.prove(V.to_int_term(a[1]) == e['t'] + 1, 'period_passed_one_based', 'pre-at-call')
            ctx.prove(z3.And(V.to_int_term(a[2]) == e['min_iter'], V.to_int_term(a[3]) == e['max_iter'], V.z3_of(a[4]) == e['tol'], V.to_int_term(a[5]) == e['offset']),
                      'iteration_limits_tolerance_and_offset_passed_unchanged', 'pre-at-call')
            # the up-front rejections of the pure-Python solver hold here too: the compiled routine is reached only with limits in order
            # and with the offset period inside the span (position of t counted from the start, whichever way t was spelt)
            ctx.prove(z3.And(e['min_iter'] <= e['max_iter'], nt + e['offset'] >= 0, nt + e['offset'] < env.n),
                      'engine_reached_only_with_min_iter_not_above_max_iter_and_the_offset_period_inside_the_span', 'pre-at-call')
            ctx.prove(z3.BoolVal(ok_rows), 'check_variable_rows_are_one_based_positions_in_the_variable_order', 'pre-at-call', note=str(rows))
            ctx.prove(V.to_int_term(a[7]) == want_code, 'errors_option_passed_as_its_code', 'pre-at-call')
            if out.kind == 'return' or (out.kind == 'raise' and exc_class(out.exc) in (NonConvergenceError,)) or (out.kind == 'raise' and exc_class(out.exc) is SolutionError):
                ctx.prove(z3.BoolVal(e['values_set'] == [e['ret']['values']]), 'solved_values_written_back_unchanged', 'ensures')
        if out.kind == 'raise':
            cls = exc_class(out.exc)
            if not calls:
                ctx.prove(z3.BoolVal(cls in (ValueError, IndexError, SolutionError, KeyError)), f'up_front_rejection_class:{getattr(cls, "__name__", cls)}', 'raises')
                if cls is KeyError:
                    ctx.prove(z3.Not(valid), 'KeyError_only_for_an_invalid_errors_option', 'raises')
                return
            if cls is NonConvergenceError:
                ctx.cover('failed')
                ctx.prove(z3.And(code == 0, z3.Not(e['ret']['converged'].e), Fl == S('raise'), st_nt == S('F'), it_nt == e['ret']['iteration'].e),
                          'NonConvergenceError_iff_not_converged_without_error_and_failures_is_raise_(status_F_recorded)', 'raises')
                return
            if cls is SolutionError:
                ctx.cover('error')
                ctx.prove(z3.And(code == 21, E == S('raise'), st_nt == S('E'), it_nt == e['ret']['iteration'].e), 'SolutionError_for_code_21_under_raise_(status_E_and_iteration_recorded)', 'raises')
                return
            if cls is FortranEngineError:
                ctx.cover('engine-error')
                ctx.prove(z3.Not(z3.Or(code == 0, z3.And(code == 21, E == S('raise')), z3.And(code == 22, E == S('skip')))), 'FortranEngineError_only_for_an_unmapped_error_code', 'raises')
                return
            ctx.prove(False, f'only_documented_exceptions:{getattr(cls, "__name__", cls)}', 'raises')
            return
        rt = V.truth(out.value)
        ctx.prove((rt if not isinstance(rt, bool) else z3.BoolVal(rt)) == (st_nt == S('.')), 'result_true_iff_status_solved', 'ensures')
        ctx.prove(it_nt == e['ret']['iteration'].e, 'iterations_is_the_count_returned_by_the_engine', 'ensures')
        if ctx.decide(st_nt == S('.'), 'post:solved'):
            ctx.cover('solved')
            ctx.prove(z3.And(code == 0, e['ret']['converged'].e), 'solved_iff_converged_without_error', 'ensures')
        elif ctx.decide(st_nt == S('S'), 'post:skipped'):
            ctx.cover('skipped')
            ctx.prove(z3.And(code == 22, E == S('skip')), 'skipped_iff_code_22_under_skip', 'ensures')
        else:
            ctx.prove(z3.And(st_nt == S('F'), code == 0, z3.Not(e['ret']['converged'].e), Fl != S('raise')), 'failed_iff_not_converged_without_error', 'ensures')


class FortranEvaluate(FunctionContract):
    qualname = 'fsic.fortran.FortranEngine._evaluate'
    props = ('C07',)

    def setup(self, interp, scenario):
        ctx = interp.ctx
        e = {'calls': [], 'values_set': []}
        token, out_vals = object(), object()
        code = SInt(ctx.fresh('error_code', INT))
        e.update(token=token, out_vals=out_vals, code=code, t=ctx.fresh('t', INT), inputs={'error_code': code.e})

        class Values:
            def astype(self_, dt):
                return token

        class Engine:
            class evaluate:
                @staticmethod
                def vc_call(interp_, args, kwargs, node):
                    e['calls'].append(list(args))
                    return (out_vals, code)
        obj = SObj(_F, {'ENGINE': Engine, 'span': [1, 2, 3]}, label='f')
        interp.registry.set_calls({'fsic.core.interfaces.ModelInterface.values': lambda i, o, a, k, n: Values()})
        orig = interp.setattr

        def patched(o, name, v, node=None):
            if o is obj and name == 'values':
                e['values_set'].append(v)
                return None
            return orig(o, name, v, node)
        interp.setattr = patched
        return Call([SInt(e['t'])], {}, self_obj=obj, entry=e)

    def post(self, interp, scenario, call, out):
        ctx = interp.ctx
        e = call.entry
        c = e['code'].e
        ctx.prove(z3.BoolVal(len(e['calls']) == 1 and e['calls'][0][0] is e['token']) if len(e['calls']) != 1 else V.to_int_term(e['calls'][0][1]) == e['t'] + 1,
                  'engine_evaluate_called_once_with_one_based_period', 'pre-at-call')
        if out.kind == 'raise':
            cls = exc_class(out.exc)
            index_codes = z3.Or(c == 11, c == 12, c == 13, c == 14)
            ctx.prove(z3.And(c != 0, z3.If(index_codes, z3.BoolVal(cls is IndexError), z3.BoolVal(cls is SolutionError))), 'index_codes_raise_IndexError_other_codes_SolutionError', 'raises')
            ctx.prove(z3.BoolVal(not e['values_set']), 'a_failed_evaluation_writes_nothing_back', 'frame')
            return
        ctx.prove(z3.And(c == 0, z3.BoolVal(e['values_set'] == [e['out_vals']])), 'values_written_back_only_for_code_0', 'ensures')


CONTRACTS = [FortranSolveT(), FortranEvaluate()]


class FortranSolve(FunctionContract):
    """FortranEngine.solve over a range of two periods (positions 1 and 2 of a four-period span, the default range of a model with one lag and
    one lead), against an assumed contract of the compiled ENGINE.solve (per period: converged flag, iteration count, error code).  What is
    handed over (one-based periods, one-based check rows, option codes, limits) and, period by period in order, how the returned codes become
    statuses, iteration counts, solved flags and exceptions - exactly as the Python solver would record them; after an exception the later
    period is untouched."""
    qualname = 'fsic.fortran.FortranEngine.solve'
    props = ('C07',)
    required_covers = ('returned', 'raised-first', 'raised-second', 'value-error')

    def scenarios(self):
        return ['default-range', 'explicit-range']

    def setup(self, interp, scenario):
        ctx = interp.ctx
        env = make_model(interp, _F, with_lags=True)
        obj = env.obj
        ctx.assume(z3.And(env.n == 4, env.lags == 1, env.leads == 1))
        ctx.assume(z3.Distinct(*[z3.Select(env.span.arr, p) for p in range(4)]))      # period labels are pairwise distinct
        obj.fields['names'] = list(_F.NAMES)
        obj.fields['check'] = list(INSTANCE_CHECK)      # the instance's own list (it may have been edited): not the class-level CHECK
        obj.fields['endogenous'] = list(_F.ENDOGENOUS)
        obj.known_vars = tuple(_F.NAMES)
        e = {'env': env, 'engine_calls': [], 'values_set': [], 'scenario': scenario}
        for k, srt in (('min_iter', INT), ('max_iter', INT), ('offset', INT), ('tol', F64), ('failures', STR), ('errors', STR)):
            e[k] = ctx.fresh(k, srt)
        ctx.assume(z3.Or(*[e['failures'] == S(x) for x in ('raise', 'ignore')]))
        ctx.assume(z3.Or(*[e['errors'] == S(x) for x in ('raise', 'skip', 'ignore', 'replace')]))
        e['conv'] = [SBool(ctx.fresh(f'converged{i}', BOOL)) for i in range(2)]
        e['it'] = [SInt(ctx.fresh(f'engine_iteration{i}', INT)) for i in range(2)]
        e['code'] = [SInt(ctx.fresh(f'error_code{i}', INT)) for i in range(2)]
        e['inputs'] = {k: e[k] for k in ('min_iter', 'max_iter', 'offset', 'errors', 'failures')}
        for i in range(2):
            e['inputs'][f'error_code{i}'] = e['code'][i].e
        values_token, out_values = object(), object()
        e['values_token'], e['out_values'] = values_token, out_values

        class Values:
            def astype(self_, dt):
                return values_token

        class Engine:
            class solve:
                @staticmethod
                def vc_call(interp_, args, kwargs, node):
                    ctx.use(A('fortran.ENGINE.solve', 'the compiled solve returns (values, converged[], iteration[], error_code[]) with one entry per requested period, '
                                                      'per the error-code table of the template; exercised by the bounded differential (gfortran + ctypes)'))
                    e['engine_calls'].append(list(args))
                    return (out_values, list(e['conv']), list(e['it']), list(e['code']))
        obj.fields['ENGINE'] = Engine

        def locate(interp_, o, args, kwargs, node):
            lab = V.z3_of(args[0])
            for p in (1, 2):
                if z3.eq(z3.simplify(lab), z3.simplify(z3.Select(env.span.arr, z3.IntVal(p)))) or z3.eq(z3.simplify(lab), z3.simplify(z3.Select(env.span.arr, env.n - 4 + p))):
                    return p
            # the label of position p of the span, however it was spelled
            for p in (1, 2):
                if ctx.decide(lab == z3.Select(env.span.arr, p), f'label-is-span[{p}]'):
                    return p
            raise OutOfSubset('label outside the two-period range of this contract')
        interp.registry.set_calls({'fsic.core.interfaces.ModelInterface.values': lambda i_, o, a, k, n_: Values(),
                                   'fsic.core.containers.VectorContainer._locate_period_in_span': locate,
                                   'fsic.core.containers.VectorContainer.__getattr__': getattr_contract})
        orig_setattr = interp.setattr

        def patched_setattr(o, name, v, node=None):
            if o is obj and name == 'values':
                e['values_set'].append(v)
                return None
            return orig_setattr(o, name, v, node)
        interp.setattr = patched_setattr
        kw = dict(min_iter=SInt(e['min_iter']), max_iter=SInt(e['max_iter']), tol=SFloat(e['tol']), offset=SInt(e['offset']), failures=SStr(e['failures']),
                  errors=SStr(e['errors']))
        if scenario == 'explicit-range':
            kw['start'] = SStr(z3.Select(env.span.arr, 1))
            kw['end'] = SStr(z3.Select(env.span.arr, 2))
        return Call([], kw, self_obj=obj, entry=e)

    def post(self, interp, scenario, call, out):
        ctx = interp.ctx
        e = call.entry
        env = e['env']
        E, Fl = e['errors'], e['failures']
        calls = e['engine_calls']
        bad_minmax = e['min_iter'] > e['max_iter']
        if out.kind == 'raise' and not calls:
            ctx.cover('value-error')
            ctx.prove(z3.And(z3.BoolVal(exc_class(out.exc) is ValueError), bad_minmax), 'ValueError_only_when_min_iter_exceeds_max_iter_before_the_engine_is_called', 'raises')
            ctx.prove(z3.And(env.status.arr == env.status0, env.iterations.arr == env.iter0), 'a_rejected_call_records_nothing', 'frame')
            return
        ctx.prove(z3.Not(bad_minmax), 'min_iter_exceeding_max_iter_is_rejected', 'raises')
        ok1 = len(calls) == 1 and len(calls[0]) == 9 and calls[0][0] is e['values_token']
        ctx.prove(z3.BoolVal(ok1), 'engine_called_once_with_the_model_values_as_float', 'pre-at-call')
        if not ok1:
            return
        a = calls[0]
        ctx.prove(z3.BoolVal(isinstance(a[1], list) and len(a[1]) == 2) if not (isinstance(a[1], list) and len(a[1]) == 2)
                  else z3.And(V.to_int_term(a[1][0]) == 2, V.to_int_term(a[1][1]) == 3), 'periods_passed_one_based_in_span_order', 'pre-at-call', note=str(a[1]))
        ctx.prove(z3.And(V.to_int_term(a[2]) == e['min_iter'], V.to_int_term(a[3]) == e['max_iter'], V.z3_of(a[4]) == e['tol'], V.to_int_term(a[5]) == e['offset']),
                  'iteration_limits_tolerance_and_offset_passed_unchanged', 'pre-at-call')
        rows = a[6]
        ctx.prove(z3.BoolVal(isinstance(rows, list) and rows == [_F.NAMES.index(x) + 1 for x in INSTANCE_CHECK]), 'check_variable_rows_are_one_based_positions_in_the_variable_order', 'pre-at-call',
                  note=str(rows))
        fcode = z3.If(Fl == S('raise'), z3.IntVal(fsic.fortran.FortranEngine._FAILURE_OPTIONS['raise']), z3.IntVal(fsic.fortran.FortranEngine._FAILURE_OPTIONS['ignore']))
        ecode = z3.IntVal(-99)
        for k_, v_ in fsic.fortran.FortranEngine._ERROR_OPTIONS.items():
            ecode = z3.If(E == S(k_), z3.IntVal(v_), ecode)
        ctx.prove(z3.And(V.to_int_term(a[7]) == fcode, V.to_int_term(a[8]) == ecode), 'failures_and_errors_options_passed_as_their_codes', 'pre-at-call')
        ctx.prove(z3.BoolVal(e['values_set'] == [e['out_values']]), 'values_returned_by_the_engine_are_written_back_once', 'ensures')

        conv = [c.e for c in e['conv']]
        it = [i.e for i in e['it']]
        code = [c.e for c in e['code']]
        st = [z3.Select(env.status.arr, p) for p in (1, 2)]
        its = [z3.Select(env.iterations.arr, p) for p in (1, 2)]

        def recorded(i):
            """status / iterations the Python solver would record for the engine's report on period i (None: nothing recorded)."""
            return z3.If(conv[i], S('.'), z3.If(code[i] == 0, S('F'), z3.If(z3.And(code[i] == 21, E == S('raise')), S('E'), z3.If(z3.And(code[i] == 22, E == S('skip')), S('S'), S('?')))))

        def raises(i):
            return z3.And(z3.Not(conv[i]), z3.Or(z3.And(code[i] == 0, Fl == S('raise')), z3.And(code[i] != 0, z3.Not(z3.And(code[i] == 22, E == S('skip'))))))
        q = z3.Int('q!fs')
        others = z3.ForAll([q], z3.Implies(z3.And(q != 1, q != 2), z3.And(z3.Select(env.status.arr, q) == z3.Select(env.status0, q),
                                                                          z3.Select(env.iterations.arr, q) == z3.Select(env.iter0, q))))
        ctx.prove(others, 'periods_outside_the_range_keep_their_bookkeeping', 'frame')

        def period_ok(i):
            rec = recorded(i)
            return z3.If(rec == S('?'), z3.And(st[i] == z3.Select(env.status0, i + 1), its[i] == z3.Select(env.iter0, i + 1)), z3.And(st[i] == rec, its[i] == it[i]))
        if out.kind == 'raise':
            cls = exc_class(out.exc)
            first = ctx.decide(raises(0), 'post:first-period-raises')
            i = 0 if first else 1
            ctx.cover('raised-first' if first else 'raised-second')
            ctx.prove(raises(i), 'an_exception_only_when_the_engine_reports_a_failure_the_policy_raises_for', 'raises')
            ctx.prove(period_ok(i), 'the_failing_period_carries_the_status_its_policy_prescribes', 'raises')
            if first:
                ctx.prove(z3.And(st[1] == z3.Select(env.status0, 2), its[1] == z3.Select(env.iter0, 2)), 'the_period_after_the_failing_one_is_untouched', 'frame')
            else:
                ctx.prove(period_ok(0), 'the_period_before_the_failing_one_keeps_its_outcome', 'ensures')
            want_cls = z3.If(code[i] == 0, z3.BoolVal(cls is NonConvergenceError),
                             z3.If(z3.Or(z3.And(code[i] == 21, E == S('raise')), z3.And(code[i] == 31, E == S('raise'))), z3.BoolVal(cls is SolutionError),
                                   z3.If(z3.Or(code[i] == 41, code[i] == 42), z3.BoolVal(cls is IndexError), z3.BoolVal(cls is FortranEngineError))))
            ctx.prove(want_cls, 'exception_class_follows_the_error_code_table', 'raises', note=getattr(cls, '__name__', str(cls)))
            return
        ctx.cover('returned')
        ctx.prove(z3.And(z3.Not(raises(0)), z3.Not(raises(1))), 'a_reported_failure_that_the_policy_raises_for_is_raised', 'raises')
        ctx.prove(z3.And(period_ok(0), period_ok(1)), 'every_period_carries_the_status_and_iteration_count_reported_for_it', 'ensures')
        r = out.value
        ok = isinstance(r, tuple) and len(r) == 3 and all(isinstance(x, list) and len(x) == 2 for x in r)
        ctx.prove(z3.BoolVal(ok), 'returns_labels_positions_flags_with_one_entry_per_period', 'ensures')
        if ok:
            labels, indexes, solved = r
            ctx.prove(z3.And(V.to_int_term(indexes[0]) == 1, V.to_int_term(indexes[1]) == 2, V.z3_of(labels[0]) == z3.Select(env.span.arr, 1), V.z3_of(labels[1]) == z3.Select(env.span.arr, 2)),
                      'labels_and_positions_are_those_of_the_range', 'ensures')
            for i in range(2):
                sv = solved[i]
                tv = V.truth(sv) if sv is not None else None
                ctx.prove(z3.BoolVal(tv is not None) if tv is None else ((tv if not isinstance(tv, bool) else z3.BoolVal(tv)) == conv[i]), f'solved_flag_{i}_is_true_iff_the_period_converged', 'ensures')


_fs = FortranSolve()
_fs.shards = {'default-range': 6, 'explicit-range': 6}
CONTRACTS.append(_fs)


class FortranInit(FunctionContract):
    """FortranEngine.__init__: whatever the caller passes - span, engine, strict, dtype, default value, initial values - reaches the model
    constructor unchanged (so the two back ends start from the same instance state); a missing compiled module is refused for engine='fortran'."""
    qualname = 'fsic.fortran.FortranEngine.__init__'
    props = ('C07',)

    def scenarios(self):
        return ['engine-fortran', 'engine-python', 'no-compiled-module']

    def setup(self, interp, scenario):
        cls = _F
        if scenario == 'no-compiled-module':
            class cls(fsic.fortran.FortranEngine, _Py):        # noqa: N801
                ENGINE = None
        obj = SObj(cls, {}, label='instance')
        e = {'parent': [], 'span': [1, 2, 3], 'scenario': scenario,
             'given': {'strict': object(), 'dtype': object(), 'default_value': object(), 'Y': object(), 'G': object()},
             'engine': 'python' if scenario == 'engine-python' else 'fortran', 'inputs': {}}

        def parent_init(interp_, o, args, kwargs, node):
            e['parent'].append((list(args), dict(kwargs)))
            return None
        interp.registry.set_calls({'fsic.core.models.BaseModel.__init__': parent_init})
        return Call([e['span']], dict(e['given'], engine=e['engine']), self_obj=obj, entry=e)

    def post(self, interp, scenario, call, out):
        ctx = interp.ctx
        e = call.entry
        from fsic.exceptions import InitialisationError
        if out.kind == 'raise':
            ctx.prove(z3.BoolVal(scenario == 'no-compiled-module' and exc_class(out.exc) is InitialisationError and not e['parent']),
                      'InitialisationError_only_for_engine_fortran_without_a_compiled_module', 'raises')
            return
        ctx.prove(z3.BoolVal(scenario != 'no-compiled-module'), 'engine_fortran_without_a_compiled_module_is_refused', 'raises')
        ok = len(e['parent']) == 1
        ctx.prove(z3.BoolVal(ok), 'model_constructor_called_exactly_once', 'ensures')
        if ok:
            args, kw = e['parent'][0]
            allkw = dict(kw)
            if args:
                allkw['span'] = args[0]
            want = dict(e['given'], span=e['span'], engine=e['engine'])
            good = len(args) <= 1 and set(allkw) == set(want) and all(allkw[k] is want[k] or allkw[k] == want[k] and isinstance(want[k], str) for k in want)
            ctx.prove(z3.BoolVal(bool(good)), 'span_engine_options_and_initial_values_reach_the_model_constructor_unchanged', 'ensures', note=str(sorted(allkw)))


CONTRACTS.append(FortranInit())
