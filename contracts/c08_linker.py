"""C08 - BaseLinker: __init__ (lags/leads/span checks), evaluate_t, solve_t against a joint pass history.

Linker shapes are enumerated (0, 1 or 2 submodels with ids 'A', 'B'; every selection incl. reversed order, empty and
unknown ids); inside a shape everything is symbolic: span length, numbers of check variables, all data, all options.
Ghost: passes; Hf[k][j] = check vector of member k ('_' = the linker itself) after iteration j; event log of hook calls.
"""
from __future__ import annotations

import z3

from fsic.core.linkers import BaseLinker
from fsic.core.models import BaseModel
from fsic.exceptions import NonConvergenceError
from pyvc import roles as R
from pyvc import values as V
from pyvc.contracts import Call, FunctionContract, LoopSpec
from pyvc.ctx import OutOfSubset
from pyvc.interp import PyRaise, exc_class
from pyvc.libspec import A
from pyvc.values import (ANY_EXCEPTION, BOOL, F64, INT, STR, SArr, SBool, SExc, SFloat, SInt, SObj, SStr, VarView,
                         forall_range, norm_index)

from .model_obj import HIST, STORE, getattr_contract, make_model


def S(x):
    return z3.StringVal(x)


SHAPES = {
    'k0/all': ([], None), 'k0/unknown': ([], ['zzz']),
    'k1/all': (['A'], None), 'k1/none': (['A'], []), 'k1/unknown': (['A'], ['A', 'zzz']),
    'k2/all': (['A', 'B'], None), 'k2/reversed': (['A', 'B'], ['B', 'A']), 'k2/onlyB': (['A', 'B'], ['B']),
    'k2/none': (['A', 'B'], []),
    # default selection = insertion order of the submodel dictionary, whatever the ids are (not sorted, need not be comparable)
    'k2/insertion-order': (['B', 'A'], None), 'k2/mixed-ids': (['B', 1], None),
}


class LinkerSolveT(FunctionContract):
    qualname = 'fsic.core.linkers.BaseLinker.solve_t'
    props = ('C08',)
    required_covers = ('solved', 'failed-return', 'failed-raise', 'keyerror')

    def scenarios(self):
        return list(SHAPES)

    def setup(self, interp, scenario):
        ctx = interp.ctx
        ids, selection = SHAPES[scenario]
        lenv = make_model(interp, BaseLinker, label='L')
        members = {'_': lenv}
        subs = {}
        for i in ids:
            env = make_model(interp, BaseModel, label=str(i))
            ctx.assume(env.n == lenv.n)               # spans of submodels equal the linker's (established by __init__)
            members[i] = env
            subs[i] = env.obj
        lenv.obj.fields['submodels'] = subs
        lenv.obj.fields['name'] = '_'
        e = {'members': members, 'ids': ids, 'selection': selection, 'env': lenv}
        n = lenv.n
        t = ctx.fresh('t', INT)
        ctx.assume(z3.And(t >= -n, t < n))
        e['t'], e['nt'] = t, norm_index(t, n)
        e['min_iter'], e['max_iter'] = ctx.fresh('min_iter', INT), ctx.fresh('max_iter', INT)
        ctx.assume(e['max_iter'] >= 0)
        e['tol'] = ctx.fresh('tol', F64)
        e['offset'] = ctx.fresh('offset', INT)
        e['failures'], e['errors'] = ctx.fresh('failures', STR), ctx.fresh('errors', STR)
        e['cfe'] = ctx.fresh('catch_first_error', BOOL)
        e['Hf'] = {k: ctx.fresh(f'Hf.{k}', HIST) for k in members}
        e['selected'] = [i for i in (selection if selection is not None else ids) if i in ids]
        e['judged'] = ['_'] + [i for i in ids if i in e['selected']]       # members whose check variables are compared
        g = ctx.ghost
        g.update(passes=z3.IntVal(0), events=[], before_calls=z3.IntVal(0), after_calls=z3.IntVal(0), after_at=z3.IntVal(-1), wfilter='default')
        e['inputs'] = {'n': n, 't': t, 'min_iter': e['min_iter'], 'max_iter': e['max_iter'], 'offset': e['offset'], 'tol': e['tol'],
                       'failures': e['failures']}
        self._install(interp, e)
        interp.registry.set_loops(self.qualname, {R.body_calls('evaluate_t'): self._loop(e)})
        kw = dict(min_iter=SInt(e['min_iter']), max_iter=SInt(e['max_iter']), tol=SFloat(e['tol']), offset=SInt(e['offset']),
                  failures=SStr(e['failures']), errors=SStr(e['errors']), catch_first_error=SBool(e['cfe']))
        if selection is not None:
            kw['submodels'] = list(selection)
        return Call([SInt(t)], kw, self_obj=lenv.obj, entry=e)

    # ---- history predicates -------------------------------------------------------------------------------------
    @staticmethod
    def conv(e, j):
        return z3.And(*[V.ALL_CLOSE(z3.Select(e['Hf'][k], j), z3.Select(e['Hf'][k], j - 1), e['members'][k].nc, e['tol']) for k in e['judged']])

    @classmethod
    def stop(cls, e, j):
        return z3.And(j >= e['min_iter'], cls.conv(e, j))

    @classmethod
    def no_stop_before(cls, e, k):
        j = z3.Int('j!ns')
        return z3.ForAll([j], z3.Implies(z3.And(1 <= j, j < k), z3.Not(cls.stop(e, j))))

    # ---- call contracts -------------------------------------------------------------------------------------------
    def _install(self, interp, e):
        ctx = interp.ctx
        g = ctx.ghost
        members = e['members']
        by_obj = {id(env.obj): k for k, env in members.items()}

        def havoc_all(tag):
            for k, env in members.items():
                env.store.data = ctx.fresh(f'vars.{k}!{tag}', STORE)

        def opts_ok(kwargs, iteration):
            ok = []
            for k, sym in (('errors', e['errors']), ('catch_first_error', e['cfe'])):
                ok.append(z3.BoolVal(False) if kwargs.get(k) is None else V.z3_of(kwargs[k]) == sym)
            it = kwargs.get('iteration')
            ok.append(z3.BoolVal(False) if it is None else V.to_int_term(it) == iteration)
            return z3.And(*ok)

        def sel_ok(kwargs):
            sel = kwargs.get('submodels')
            want = e['selection'] if e['selection'] is not None else e['ids']
            return z3.BoolVal(isinstance(sel, list) and list(sel) == list(want))

        def linker_hook(name, counts=None):
            def spec(interp_, obj, args, kwargs, node):
                ctx.use(A('hook.interface.linker', 'linker hooks may change any variable of the linker and of its submodels, but not status/iterations'))
                it = g['passes'] if name in ('solve_t_before', 'solve_t_after') else g['passes'] + (1 if name == 'evaluate_t_before' else 0)
                ctx.prove(z3.And(V.to_int_term(args[0]) == e['t'], opts_ok(kwargs, it), sel_ok(kwargs)),
                          f'{name}:period_options_and_selection_forwarded', 'pre-at-call')
                g['events'].append((name, g['passes']))
                if name == 'solve_t_before':
                    g['before_calls'] = g['before_calls'] + 1
                if name == 'solve_t_after':
                    g['after_calls'] = g['after_calls'] + 1
                    g['after_at'] = g['passes']
                if name == 'evaluate_t_before':
                    g['passes'] = g['passes'] + 1
                havoc_all(name)
                return None
            return spec

        def sub_evaluate(interp_, obj, args, kwargs, node):
            k = by_obj.get(id(obj))
            if k is None or k == '_':
                raise OutOfSubset('_evaluate called on an unexpected object')
            ctx.prove(z3.And(V.to_int_term(args[0]) == e['t'], opts_ok(kwargs, g['passes'])), f'_evaluate[{k}]:period_and_options_forwarded', 'pre-at-call')
            ctx.prove(z3.BoolVal(g['wfilter'] == 'always'), f'_evaluate[{k}]:runs_under_the_always_filter', 'pre-at-call')
            g['events'].append(('eval', k, g['passes']))
            members[k].store.data = ctx.fresh(f'vars.{k}!eval', STORE)
            return None

        def get_check_values(interp_, closure, args, kwargs, node):
            # the check vector of iteration j is the one stored at the END of iteration j: after the linker's post-evaluation hook
            ev = g['events']
            if ev and ev[-1][0] not in ('evaluate_t_after',) and any(x[0] in ('evaluate_t_before', 'eval') for x in ev):
                ctx.prove(False, 'check_values_are_read_after_the_post_evaluation_hook_of_the_iteration', 'ensures', note=str(ev[-3:]))
            r = interp_.call(closure, args, kwargs, node)
            if not isinstance(r, dict) or list(r.keys()) != e['judged']:
                ctx.prove(False, 'get_check_values:one_vector_per_judged_member', 'ensures', note=str(list(r.keys()) if isinstance(r, dict) else r))
                return r
            for k in e['judged']:
                if not isinstance(r[k], SArr):
                    raise OutOfSubset('check vector is not an array')
                ctx.assume(z3.Select(e['Hf'][k], g['passes']) == r[k].arr)
                ctx.prove(r[k].length == members[k].nc, f'get_check_values[{k}]:one_value_per_check_variable', 'ensures')
            return r

        def getitem(interp_, obj, args, kwargs, node):
            key = args[0]
            if isinstance(key, (SStr, str)) and obj.varstore is not None:
                ctx.use(A('fsic.VectorContainer.__getitem__', 'contract: obj[name] for a variable name is the array stored under "_" + name'))
                from pyvc.interp import DictProxy
                return interp_.getitem(DictProxy(obj), V.binop('Add', '_', key), node)
            raise OutOfSubset('__getitem__ with a non-name key on a symbolic model')

        interp.registry.set_calls({
            'fsic.core.linkers.BaseLinker.solve_t_before': linker_hook('solve_t_before'),
            'fsic.core.linkers.BaseLinker.solve_t_after': linker_hook('solve_t_after'),
            'fsic.core.linkers.BaseLinker.evaluate_t_before': linker_hook('evaluate_t_before'),
            'fsic.core.linkers.BaseLinker.evaluate_t_after': linker_hook('evaluate_t_after'),
            'fsic.core.models.BaseModel._evaluate': sub_evaluate,
            'fsic.core.linkers.BaseLinker.solve_t.get_check_values': get_check_values,
            'fsic.core.containers.VectorContainer.__getattr__': getattr_contract,
            'fsic.core.containers.VectorContainer.__getitem__': getitem,
        })

    def _loop(self, e):
        members = e['members']

        def inv(interp, fr, k):
            g = interp.ctx.ghost
            it = k + 1
            p = g['passes']
            out = [('passes_is_iteration_minus_1', p == it - 1), ('no_stop_so_far', self.no_stop_before(e, it)),
                   ('hooks_so_far', z3.And(g['before_calls'] == 1, g['after_calls'] == 0)),
                   ('linker_bookkeeping_untouched', z3.And(members['_'].status.arr == members['_'].status0,
                                                           members['_'].iterations.arr == members['_'].iter0))]
            cv = fr.locals.get(R.assigned_from_call(fr.fi.node, 'get_check_values', 'current_values'))
            ok = isinstance(cv, dict) and list(cv.keys()) == e['judged'] and all(isinstance(cv[x], SArr) for x in cv)
            out.append(('current_values_has_one_vector_per_judged_member', z3.BoolVal(ok)))
            if ok:
                for x in e['judged']:
                    out.append((f'current_values[{x}]_is_last_check_vector', z3.And(cv[x].length == members[x].nc, cv[x].arr == z3.Select(e['Hf'][x], p))))
            st = fr.locals.get(R.stored_into_self_series(fr.fi.node, 'status', 'status'))
            out.append(('status_local_unsolved', V.z3_of(st) == S('-') if st is not None else z3.BoolVal(False)))
            nt = e['nt']
            for x in e['ids']:
                env = members[x]
                if x in e['selected']:
                    q = z3.Int('q!i')
                    out.append((f'submodel_{x}_iterations_counts_passes', z3.And(
                        z3.Select(env.iterations.arr, nt) == p,
                        z3.ForAll([q], z3.Implies(q != nt, z3.Select(env.iterations.arr, q) == z3.Select(env.iter0, q))),
                        env.status.arr == env.status0)))
                else:
                    out.append((f'unselected_submodel_{x}_untouched', z3.And(env.iterations.arr == env.iter0, env.status.arr == env.status0)))
            return out

        def havoc(interp, fr):
            ctx = interp.ctx
            g = ctx.ghost
            g['passes'] = ctx.fresh('passes', INT)
            g['before_calls'] = ctx.fresh('before_calls', INT)
            g['after_calls'] = ctx.fresh('after_calls', INT)
            g['events'] = []
            g['wfilter'] = 'default'
            for x, env in members.items():
                env.store.data = ctx.fresh(f'vars.{x}!loop', STORE)
                env.status.arr = ctx.fresh(f'status.{x}!loop', z3.ArraySort(INT, STR))
                env.iterations.arr = ctx.fresh(f'iterations.{x}!loop', z3.ArraySort(INT, INT))

        def check_iteration_events(interp, fr, k):
            pass

        return LoopSpec(invariant=inv, havoc=havoc, props=('C08',))

    regions = {'offset!=0': lambda inputs, ob: inputs['offset'] != 0}

    def post(self, interp, scenario, call, out):
        ctx = interp.ctx
        e = call.entry
        g = ctx.ghost
        members = e['members']
        lenv = members['_']
        nt = e['nt']
        p = g['passes']
        unknown = e['selection'] is not None and any(i not in e['ids'] for i in e['selection'])
        q = z3.Int('q!post')

        # iteration structure: linker pre-hook, one pass of every selected submodel in the order selected, linker post-hook
        ev = [x for x in g['events'] if x[0] in ('evaluate_t_before', 'eval', 'evaluate_t_after')]
        pattern = ['evaluate_t_before'] + [('eval', i) for i in (e['selection'] if e['selection'] is not None else e['ids']) if i in e['ids']] + ['evaluate_t_after']
        flat = [x[0] if x[0] != 'eval' else ('eval', x[1]) for x in ev]
        ok_events = len(flat) % len(pattern) == 0 and all(flat[i] == pattern[i % len(pattern)] for i in range(len(flat)))
        if not unknown:
            ctx.prove(z3.BoolVal(ok_events), 'each_iteration_runs_pre_hook_selected_submodels_in_order_post_hook', 'ensures', note=str(flat[:8]))
        for x in e['ids']:
            if x not in e['selected']:
                env = members[x]
                ctx.prove(z3.And(env.status.arr == env.status0, env.iterations.arr == env.iter0,
                                 z3.BoolVal(not any(v[0] == 'eval' and v[1] == x for v in g['events']))),
                          f'unselected_submodel_{x}_neither_evaluated_nor_restamped', 'frame')
        if out.kind == 'raise':
            cls = exc_class(out.exc)
            if cls is KeyError:
                ctx.cover('keyerror')
                ctx.prove(z3.BoolVal(unknown), 'KeyError_only_for_an_unknown_submodel_id', 'raises')
                ctx.prove(z3.And(p == 0, z3.BoolVal(not any(v[0] == 'eval' for v in g['events']))), 'KeyError:nothing_evaluated', 'raises')
                return
            ctx.prove(z3.BoolVal(not unknown), 'unknown_submodel_id_raises_KeyError', 'raises')
            if cls is NonConvergenceError:
                ctx.cover('failed-raise')
                ctx.prove(e['failures'] == S('raise'), 'NonConvergenceError_only_when_failures_is_raise', 'raises')
                self._failed(ctx, e, g, p)
                return
            ctx.prove(False, f'only_documented_exceptions:{getattr(cls, "__name__", cls)}@{getattr(out.exc, "origin", "")}', 'raises')
            return
        ctx.prove(z3.BoolVal(not unknown), 'unknown_submodel_id_raises_KeyError', 'raises')
        st_nt = z3.Select(lenv.status.arr, nt)
        rt = V.truth(out.value)
        ctx.prove((rt if not isinstance(rt, bool) else z3.BoolVal(rt)) == (st_nt == S('.')), 'result_true_iff_solved', 'ensures')
        ctx.prove(z3.ForAll([q], z3.Implies(q != nt, z3.And(z3.Select(lenv.status.arr, q) == z3.Select(lenv.status0, q),
                                                            z3.Select(lenv.iterations.arr, q) == z3.Select(lenv.iter0, q)))),
                  'linker_bookkeeping_changes_only_at_t', 'frame')
        # a non-zero offset seeds period t from t+offset as it does for a single model (the linker ignores it: recorded finding)
        ctx.prove(e['offset'] == 0, 'offset_seeds_period_t_from_t_plus_offset', 'ensures',
                  note='the linker accepts `offset` and never uses it; with offset == 0 there is nothing to seed')
        if ctx.decide(st_nt == S('.'), 'post:solved'):
            ctx.cover('solved')
            ctx.prove(z3.And(1 <= p, p <= e['max_iter'], p >= e['min_iter']), 'solved:after_at_least_min_iter_and_at_most_max_iter_iterations', 'ensures')
            ctx.prove(self.conv(e, p), 'solved:every_check_variable_of_linker_and_selected_submodels_moved_less_than_tol', 'ensures')
            ctx.prove(self.no_stop_before(e, p), 'solved:first_such_iteration', 'ensures')
            ctx.prove(z3.Select(lenv.iterations.arr, nt) == p, 'solved:linker_iterations_is_number_of_iterations', 'ensures')
            self._stamped(ctx, e, p, '.')
            ctx.prove(z3.And(g['after_calls'] == 1, g['after_at'] == p, g['before_calls'] == 1), 'solved:pre_and_post_solution_hooks_ran_once', 'ensures')
            return
        ctx.cover('failed-return')
        ctx.prove(e['failures'] != S('raise'), 'failed:raises_NonConvergenceError_when_failures_is_raise', 'ensures')
        self._failed(ctx, e, g, p)

    def _stamped(self, ctx, e, p, status):
        nt = e['nt']
        q = z3.Int('q!st')
        for x in e['selected']:
            env = e['members'][x]
            ctx.prove(z3.And(z3.Select(env.status.arr, nt) == S(status), z3.Select(env.iterations.arr, nt) == p),
                      f'selected_submodel_{x}_stamped_with_linker_status_and_iteration_count', 'ensures')
            ctx.prove(z3.ForAll([q], z3.Implies(q != nt, z3.And(z3.Select(env.status.arr, q) == z3.Select(env.status0, q),
                                                                z3.Select(env.iterations.arr, q) == z3.Select(env.iter0, q)))),
                      f'selected_submodel_{x}_bookkeeping_changes_only_at_t', 'frame')

    def _failed(self, ctx, e, g, p):
        lenv = e['members']['_']
        nt = e['nt']
        ctx.prove(z3.And(z3.Select(lenv.status.arr, nt) == S('F'), z3.Select(lenv.iterations.arr, nt) == e['max_iter'], p == e['max_iter']),
                  'failed:status_F_and_iterations_is_max_iter', 'ensures')
        ctx.prove(self.no_stop_before(e, e['max_iter'] + 1), 'failed:no_iteration_met_the_stopping_rule', 'ensures')
        ctx.prove(g['after_calls'] == 0, 'failed:post_solution_hook_not_run', 'ensures')
        self._stamped(ctx, e, p, 'F')


class LinkerInit(FunctionContract):
    """BaseLinker.__init__: lags/leads are the maxima over the submodels (0 for none); differing spans are rejected."""
    qualname = 'fsic.core.linkers.BaseLinker.__init__'
    props = ('C08',)

    def scenarios(self):
        return ['k0', 'k1', 'k2', 'k3']

    def setup(self, interp, scenario):
        from fsic.core.linkers import BaseLinker as BL
        ctx = interp.ctx
        k = int(scenario[1])
        subs = {}
        e = {'lags': [], 'leads': [], 'spans_equal': []}
        base_span = None
        for i in range(k):
            lg, ld = ctx.fresh(f'LAGS{i}', INT), ctx.fresh(f'LEADS{i}', INT)
            cls = type(f'Sub{i}', (), {})
            m = SObj(BaseModel, {'LAGS': SInt(lg), 'LEADS': SInt(ld)}, label=f'sub{i}')
            # span: modelled by an integer identity, equal spans <=> equal identities
            sid = ctx.fresh(f'span{i}', INT)
            m.fields['span'] = SInt(sid)
            e['lags'].append(lg)
            e['leads'].append(ld)
            e['spans_equal'].append(sid)
            subs[f'm{i}'] = m
        e['k'] = k
        e['inputs'] = {f'LAGS{i}': v for i, v in enumerate(e['lags'])}
        obj = SObj(BL, {}, label='linker')
        e['obj'] = obj

        def parent_init(interp_, o, args, kwargs, node):
            e['parent_span'] = kwargs.get('span')
            o.fields.setdefault('_attributes', [])
            return None

        def add_attribute(interp_, o, args, kwargs, node):
            o.fields[args[0]] = args[1]
            return None
        interp.registry.set_calls({'fsic.core.interfaces.SolverMixin.__init__': parent_init,
                                   'fsic.core.containers.VectorContainer.add_attribute': add_attribute})
        return Call([subs if k else None], {}, self_obj=obj, entry=e)

    def post(self, interp, scenario, call, out):
        from fsic.exceptions import InitialisationError
        ctx = interp.ctx
        e = call.entry
        k = e['k']
        same = z3.And(*[e['spans_equal'][i] == e['spans_equal'][0] for i in range(1, k)]) if k > 1 else z3.BoolVal(True)
        if out.kind == 'raise':
            ctx.prove(z3.And(z3.BoolVal(exc_class(out.exc) is InitialisationError), z3.Not(same)), 'InitialisationError_only_for_differing_spans', 'raises')
            return
        ctx.prove(same, 'submodels_with_differing_spans_are_rejected', 'raises')
        f = e['obj'].fields

        def mx(vals):
            m = vals[0]
            for v in vals[1:]:
                m = z3.If(v > m, v, m)
            return m
        want_lags = mx(e['lags']) if k else z3.IntVal(0)
        want_leads = mx(e['leads']) if k else z3.IntVal(0)
        ctx.prove(z3.And(V.to_int_term(f['_LAGS']) == want_lags, V.to_int_term(f['_LEADS']) == want_leads), 'lag_lead_lengths_are_maxima_over_submodels', 'ensures')


CONTRACTS = [LinkerSolveT(), LinkerInit()]
