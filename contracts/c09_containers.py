"""C09 - representation invariant of the container under its mutators.

wf(c):  every name in `index` is bound to an array with ndim == 1 and shape[0] == len(span)  (dtype0[x] = dtype at creation).
Each mutator: requires wf, ensures wf and the whole view (every other binding identical), and on every raising path the
bindings and the index are unchanged.  Because histories compose, this proves the invariant for every history.
Array contents are not modelled here (opaque objects with an ndim/shape/dtype algebra, pyvc.libspec): C10 handles contents.
"""
from __future__ import annotations

import z3

from fsic.core.containers import VectorContainer
from fsic.exceptions import DimensionError, DuplicateNameError
from pyvc import values as V
from pyvc.contracts import Call, FunctionContract
from pyvc.ctx import OutOfSubset
from pyvc.interp import exc_class
from pyvc.libspec import ARROBJ, ND_DTYPE, ND_LEN0, ND_NDIM, ND_OWNED, ND_SIZE, NDStore, SDType, SeqVal, SND, fresh_nd
from pyvc.values import BOOL, F64, INT, STR, SBool, SFloat, SInt, SObj, SSeq, SStr, forall_range

NDMAP = z3.ArraySort(STR, ARROBJ)

VALUE_SHAPES = ('scalar', 'str', 'sequence', 'ndarray')


def make(interp, e, *, strict_symbolic=False):
    ctx = interp.ctx
    ctx.nd_mode = True
    n = ctx.fresh('n', INT)
    ctx.assume(n >= 0)
    m = ctx.fresh('m', INT)
    ctx.assume(m >= 0)
    idx_arr = ctx.fresh('index', z3.ArraySort(INT, STR))
    index = SSeq('list', m, idx_arr, 'str')
    span = SSeq('list', n, ctx.fresh('span', z3.ArraySort(INT, STR)), 'str', prov='borrowed')
    data0 = ctx.fresh('bindings', NDMAP)
    # wf(self)
    i = z3.Int('i!wf')
    ctx.assume(z3.ForAll([i], z3.Implies(z3.And(0 <= i, i < m), z3.And(ND_NDIM(z3.Select(data0, z3.Select(idx_arr, i))) == 1,
                                                                         ND_LEN0(z3.Select(data0, z3.Select(idx_arr, i))) == n,
                                                                         ND_OWNED(z3.Select(data0, z3.Select(idx_arr, i)))))))
    attrs = SSeq('list', ctx.fresh('na', INT), ctx.fresh('attributes', z3.ArraySort(INT, STR)), 'str')
    ctx.assume(attrs.length >= 0)
    strict = SBool(ctx.fresh('strict', BOOL)) if strict_symbolic else False
    obj = SObj(VectorContainer, {'span': span, 'index': index, '_strict': strict, '_attributes': attrs}, label='c')
    obj.ndstore = NDStore(data0)
    e.update(n=n, m=m, idx_arr=idx_arr, index=index, data0=data0, obj=obj, attrs=attrs)
    return obj


def value_of_shape(interp, shape):
    ctx = interp.ctx
    if shape == 'scalar':
        return SFloat(ctx.fresh('value', F64))
    if shape == 'str':
        return SStr(ctx.fresh('value', STR))
    if shape == 'sequence':
        ln = ctx.fresh('len(value)', INT)
        ctx.assume(ln >= 0)
        return SeqVal(ln)
    return fresh_nd(interp, 'value', owned=False)      # the caller's array: nothing is known about who else holds it


def wf_after(e, data, index_arr, m):
    i = z3.Int('i!wf2')
    return z3.ForAll([i], z3.Implies(z3.And(0 <= i, i < m), z3.And(ND_NDIM(z3.Select(data, z3.Select(index_arr, i))) == 1,
                                                                   ND_LEN0(z3.Select(data, z3.Select(index_arr, i))) == e['n'],
                                                                   ND_OWNED(z3.Select(data, z3.Select(index_arr, i))))))


def in_index(e, name):
    return V.exists_range(0, e['m'], lambda i: z3.Select(e['idx_arr'], i) == name, 'ix')


class AddVariable(FunctionContract):
    qualname = 'fsic.core.containers.VectorContainer.add_variable'
    props = ('C09',)
    required_covers = ('added', 'DuplicateNameError', 'DimensionError')

    def scenarios(self):
        return [f'{v}/{d}' for v in VALUE_SHAPES for d in ('nodtype', 'dtype')]

    def setup(self, interp, scenario):
        ctx = interp.ctx
        vs, ds = scenario.split('/')
        e = {'scenario': scenario}
        obj = make(interp, e)
        e['name'] = ctx.fresh('name', STR)
        e['value'] = value_of_shape(interp, vs)
        kw = {}
        if ds == 'dtype':
            e['dtype'] = ctx.fresh('dtype', INT)
            kw['dtype'] = SDType(e['dtype'])
        e['inputs'] = {'n': e['n'], 'm': e['m'], 'name': e['name']}
        return Call([SStr(e['name']), e['value']], kw, self_obj=obj, entry=e)

    def post(self, interp, scenario, call, out):
        ctx = interp.ctx
        e = call.entry
        obj = e['obj']
        data1 = obj.ndstore.data
        index1 = obj.fields['index']
        name = e['name']
        unchanged = z3.And(data1 == e['data0'], index1.length == e['m'], index1.arr == e['idx_arr'])
        if out.kind == 'raise':
            cls = exc_class(out.exc)
            ctx.cover(getattr(cls, '__name__', '?'))
            ctx.prove(unchanged, 'a_creation_that_cannot_fit_leaves_every_series_and_the_index_unchanged', 'frame')
            if cls is DuplicateNameError:
                ctx.prove(in_index(e, name), 'DuplicateNameError_only_for_an_existing_name', 'raises')
            elif cls is DimensionError:
                pass
            else:
                ctx.prove(z3.BoolVal(cls in (ValueError, TypeError)), f'only_documented_exceptions:{getattr(cls, "__name__", cls)}', 'raises')
            return
        ctx.cover('added')
        ctx.prove(z3.Not(in_index(e, name)), 'duplicate_name_is_rejected', 'raises')
        new = z3.Select(data1, name)
        ctx.prove(z3.And(ND_NDIM(new) == 1, ND_LEN0(new) == e['n']), 'new_variable_is_one_dimensional_with_one_element_per_period', 'ensures')
        if 'dtype' in e:
            ctx.prove(ND_DTYPE(new) == e['dtype'], 'new_variable_has_the_requested_dtype', 'ensures')
        ctx.prove(ND_OWNED(new), 'new_series_owns_its_memory_(shares_none_with_the_value_passed_in_or_with_another_series)', 'own', props=('C09', 'C04', 'C11'))
        nm = z3.String('nm!av')
        ctx.prove(z3.ForAll([nm], z3.Implies(nm != name, z3.Select(data1, nm) == z3.Select(e['data0'], nm))), 'every_other_series_is_untouched', 'frame')
        ctx.prove(z3.And(index1.length == e['m'] + 1, z3.Select(index1.arr, e['m']) == name,
                         forall_range(0, e['m'], lambda i: z3.Select(index1.arr, i) == z3.Select(e['idx_arr'], i))), 'name_appended_to_the_declaration_order', 'ensures')
        ctx.prove(wf_after(e, data1, index1.arr, index1.length), 'representation_invariant_preserved', 'ensures')


class SetAttrVariable(FunctionContract):
    """__setattr__ on an existing variable: whole-series replacement keeps length and dtype; anything that cannot fit raises and changes nothing."""
    qualname = 'fsic.core.containers.VectorContainer.__setattr__'
    props = ('C09',)
    required_covers = ('assigned', 'DimensionError')

    def scenarios(self):
        return list(VALUE_SHAPES)

    def setup(self, interp, scenario):
        ctx = interp.ctx
        e = {'scenario': scenario}
        obj = make(interp, e, strict_symbolic=True)
        e['name'] = ctx.fresh('name', STR)
        ctx.assume(in_index(e, e['name']))                      # this contract: name is a variable (the attribute branches store no series)
        ctx.assume(e['name'] != z3.StringVal('strict'))
        e['value'] = value_of_shape(interp, scenario)
        e['inputs'] = {'n': e['n'], 'name': e['name']}
        # `name in index` / `name in _attributes` are decided by the precondition above
        from pyvc.libspec import A

        def add_attribute(interp_, o, args, kwargs, node):
            ctx.prove(False, 'a_variable_name_is_never_turned_into_an_attribute', 'ensures')
            return None
        def closest(interp_, o, args, kwargs, node):
            ctx.use(A('fsic.get_closest_match', 'get_closest_match returns a list of names and changes nothing'))
            return [] if ctx.choose(2, 'closest-match') == 0 else ['near']
        interp.registry.set_calls({'fsic.core.containers.VectorContainer.add_attribute': add_attribute,
                                   'fsic.core.containers.VectorContainer.get_closest_match': closest})
        return Call([SStr(e['name']), e['value']], {}, self_obj=obj, entry=e)

    def post(self, interp, scenario, call, out):
        ctx = interp.ctx
        e = call.entry
        obj = e['obj']
        data1 = obj.ndstore.data
        name = e['name']
        old = z3.Select(e['data0'], name)
        if out.kind == 'raise':
            cls = exc_class(out.exc)
            ctx.cover(getattr(cls, '__name__', '?'))
            ctx.prove(data1 == e['data0'], 'an_assignment_that_cannot_fit_leaves_every_series_unchanged', 'frame')
            ctx.prove(z3.BoolVal(cls in (DimensionError, ValueError, TypeError)), f'only_documented_exceptions:{getattr(cls, "__name__", cls)}@{getattr(out.exc, "origin", "")}', 'raises')
            return
        ctx.cover('assigned')
        new = z3.Select(data1, name)
        ctx.prove(z3.And(ND_NDIM(new) == 1, ND_LEN0(new) == e['n']), 'series_stays_one_dimensional_with_one_element_per_period', 'ensures')
        ctx.prove(ND_DTYPE(new) == ND_DTYPE(old), 'series_keeps_the_dtype_it_was_created_with', 'ensures')
        ctx.prove(ND_OWNED(new), 'series_owns_its_memory_after_the_assignment', 'own', props=('C09', 'C04', 'C11'))
        nm = z3.String('nm!sa')
        ctx.prove(z3.ForAll([nm], z3.Implies(nm != name, z3.Select(data1, nm) == z3.Select(e['data0'], nm))), 'every_other_series_is_untouched', 'frame')
        ctx.prove(z3.And(obj.fields['index'].length == e['m'], obj.fields['index'].arr == e['idx_arr']), 'declaration_order_unchanged', 'frame')
        ctx.prove(wf_after(e, data1, e['idx_arr'], e['m']), 'representation_invariant_preserved', 'ensures')


CONTRACTS = [AddVariable(), SetAttrVariable()]


class ModelAddVariable(FunctionContract):
    """ModelInterface.add_variable: the container is extended first; `names` grows only when that succeeded."""
    qualname = 'fsic.core.interfaces.ModelInterface.add_variable'
    props = ('C09',)
    required_covers = ('added', 'rejected')

    def scenarios(self):
        return ['dtype-none', 'dtype-given']

    def setup(self, interp, scenario):
        from fsic.core.interfaces import ModelInterface
        from pyvc.interp import PyRaise
        from pyvc.values import SExc
        ctx = interp.ctx
        e = {}
        k = ctx.fresh('len(names)', INT)
        ctx.assume(k >= 0)
        names_arr = ctx.fresh('names', z3.ArraySort(INT, STR))
        names = SSeq('list', k, names_arr, 'str')
        default_dtype = SDType(ctx.fresh('model_dtype', INT))
        obj = SObj(ModelInterface, {'names': names, 'dtype': default_dtype}, label='m')
        e.update(k=k, names_arr=names_arr, names=names, obj=obj, default_dtype=default_dtype, parent_calls=[])
        e['name'] = ctx.fresh('name', STR)
        e['value'] = SFloat(ctx.fresh('value', F64))
        kw = {}
        if scenario == 'dtype-given':
            e['dtype'] = SDType(ctx.fresh('dtype', INT))
            kw['dtype'] = e['dtype']

        def parent(interp_, o, args, kwargs, node):
            e['parent_calls'].append((list(args), dict(kwargs), names.length, names.arr))
            if ctx.choose(2, 'container-rejects') == 1:
                exc = SExc(DuplicateNameError if ctx.choose(2, 'which') == 0 else DimensionError, origin='container.add_variable')
                e['parent_exc'] = exc
                raise PyRaise(exc)
            return None
        interp.registry.set_calls({'fsic.core.containers.VectorContainer.add_variable': parent})
        e['inputs'] = {'k': k}
        return Call([SStr(e['name']), e['value']], kw, self_obj=obj, entry=e)

    def post(self, interp, scenario, call, out):
        ctx = interp.ctx
        e = call.entry
        names = e['obj'].fields['names']
        calls = e['parent_calls']
        ctx.prove(z3.BoolVal(len(calls) == 1), 'container_add_variable_called_exactly_once', 'ensures')
        if calls:
            args, kwargs, len_at_call, arr_at_call = calls[0]
            want_dt = e.get('dtype', e['default_dtype'])
            dt = kwargs.get('dtype')
            ctx.prove(z3.And(V.z3_of(args[0]) == e['name'], z3.BoolVal(args[1] is e['value']), dt.e == want_dt.e if isinstance(dt, SDType) else z3.BoolVal(False)),
                      'name_value_forwarded_dtype_defaults_to_the_model_dtype', 'ensures')
            ctx.prove(z3.And(len_at_call == e['k'], arr_at_call == e['names_arr']), 'names_not_extended_before_the_container_accepted_the_variable', 'ensures')
        if out.kind == 'raise':
            ctx.cover('rejected')
            ctx.prove(z3.BoolVal(out.exc is e.get('parent_exc')), 'only_the_container_rejection_propagates', 'raises')
            ctx.prove(z3.And(names.length == e['k'], names.arr == e['names_arr']), 'a_failed_creation_leaves_the_variable_list_unchanged', 'frame')
            return
        ctx.cover('added')
        ctx.prove(z3.And(names.length == e['k'] + 1, z3.Select(names.arr, e['k']) == e['name'],
                         forall_range(0, e['k'], lambda i: z3.Select(names.arr, i) == z3.Select(e['names_arr'], i))), 'name_appended_to_the_variable_list', 'ensures')


CONTRACTS.append(ModelAddVariable())


# ---------------------------------------------------------------------------------------------------------------
# `values` setter (bulk replacement): VectorContainer (order: index) and ModelInterface (order: names)
# ---------------------------------------------------------------------------------------------------------------
class ValuesSetter(FunctionContract):
    """obj.values = array | scalar: an array of another shape is rejected (DimensionError) before anything is assigned; otherwise each
    variable, in declaration order, is assigned exactly once through the checked single-variable assignment (`__setattr__`, whose own
    contract keeps length and dtype) - row i of the array cast to that variable's dtype, or the scalar spread over the variable's shape
    with the variable's dtype; nothing else is assigned."""
    props = ('C09', 'C11')
    required_covers = ('assigned', 'DimensionError')

    def __init__(self, which):
        self.which = which
        self.qualname = {'container': 'fsic.core.containers.VectorContainer.values@setter', 'model': 'fsic.core.interfaces.ModelInterface.values@setter'}[which]

    def scenarios(self):
        return ['array', 'array-wrong-shape', 'array-wrong-shape/row-length', 'scalar', 'no-variables/array', 'no-variables/scalar']

    def setup(self, interp, scenario):
        import numpy as np
        import pyvc.libspec as L
        from fsic.core.interfaces import ModelInterface
        names = [] if scenario.startswith('no-variables') else ['A', 'I', 'T']
        dtypes = {'A': np.dtype(float), 'I': np.dtype(int), 'T': np.dtype('<U2')}
        n = 4
        e = {'scenario': scenario, 'names': names, 'sets': [], 'casts': [], 'fulls': []}

        class Series:
            def __init__(self, name):
                self.name, self.dtype, self.shape = name, dtypes[name], (n,)
        series = {k: Series(k) for k in names}

        class Row:
            def __init__(self, i):
                self.i = i

            def astype(self_, dt, *a, **k):
                r = ('row', self_.i, dt)
                e['casts'].append(r)
                return r

        class NewValues(np.ndarray):          # passes isinstance(_, np.ndarray); only shape and row iteration are used
            pass
        shape = (len(names), n) if scenario.endswith('array') and 'wrong' not in scenario else (len(names), 1) if scenario.endswith('row-length') else (len(names) + 1, n)
        if 'scalar' in scenario:
            new = 1.5
        else:
            new = np.zeros(shape).view(NewValues)
            rows = [Row(i) for i in range(shape[0])]
            e['rows'] = rows
        e['new'] = new

        class Current:
            shape = (len(names), n)
        cls = VectorContainer if self.which == 'container' else type('M', (ModelInterface, VectorContainer), {})
        obj = SObj(cls, {'index': list(names), 'names': list(names), 'span': list(range(n))}, label='c')

        def getattribute(interp_, o, args, kwargs, node):
            key = args[0]
            if isinstance(key, str) and key.startswith('_') and key[1:] in series:
                return series[key[1:]]
            raise OutOfSubset(f'__getattribute__({key!r})')

        def setattr_(interp_, o, args, kwargs, node):
            e['sets'].append((args[0], args[1]))
            return None

        def values_get(interp_, o, args, kwargs, node):
            return Current()

        def full(interp_, args, kwargs, node):
            r = ('full', args[0], args[1], kwargs.get('dtype'))
            e['fulls'].append(r)
            return r
        full.always = True
        L._MODELS[np.full] = full
        if not isinstance(new, float):
            def zip_model(interp_, args, kwargs, node):
                a, b = args
                return list(zip(list(a), rows if b is new else list(b)))
            zip_model.always = True
            L._MODELS[zip] = zip_model
        interp.registry.set_calls({'fsic.core.containers.VectorContainer.__setattr__': setattr_,
                                   'fsic.core.containers.VectorContainer.values': values_get, 'fsic.core.interfaces.ModelInterface.values': values_get,
                                   'builtins.object.__getattribute__': getattribute})
        e['getattribute'] = getattribute
        orig_getattr = interp.getattr

        def patched_getattr(o, name, node=None):
            if o is obj and name == '__getattribute__':
                class G:
                    def vc_call(self_, interp_, args, kwargs, node_):
                        return getattribute(interp_, o, args, kwargs, node_)
                return G()
            if o is obj and name == 'values':
                return Current()
            return orig_getattr(o, name, node)
        interp.getattr = patched_getattr
        e['dtypes'] = dtypes
        e['inputs'] = {}
        return Call([new], {}, self_obj=obj, entry=e)

    def post(self, interp, scenario, call, out):
        ctx = interp.ctx
        e = call.entry
        names = e['names']
        if out.kind == 'raise':
            cls = exc_class(out.exc)
            ctx.cover(getattr(cls, '__name__', '?'))
            ctx.prove(z3.BoolVal(cls is DimensionError and 'wrong-shape' in scenario), 'DimensionError_only_for_an_array_of_another_shape', 'raises')
            ctx.prove(z3.BoolVal(not e['sets']), 'a_rejected_replacement_assigns_nothing', 'frame')
            return
        ctx.cover('assigned')
        ctx.prove(z3.BoolVal('wrong-shape' not in scenario), 'an_array_of_another_shape_is_rejected', 'raises')
        ctx.prove(z3.BoolVal([k for k, _ in e['sets']] == names), 'each_variable_assigned_exactly_once_in_declaration_order_through_the_checked_assignment', 'ensures',
                  note=str([k for k, _ in e['sets']]))
        if [k for k, _ in e['sets']] != names:
            return
        for i, (k, v) in enumerate(e['sets']):
            if 'scalar' in scenario:
                ok = isinstance(v, tuple) and v[0] == 'full' and v[1] == (4,) and v[2] == e['new'] and v[3] == e['dtypes'][k]
                ctx.prove(z3.BoolVal(ok), f'{k}:scalar_spread_over_the_variable_shape_with_the_variable_dtype', 'ensures', note=str(v))
            else:
                ok = isinstance(v, tuple) and v[0] == 'row' and v[1] == i and v[2] == e['dtypes'][k]
                ctx.prove(z3.BoolVal(ok), f'{k}:row_{i}_cast_to_the_variable_dtype', 'ensures', note=str(v))


CONTRACTS += [ValuesSetter('container'), ValuesSetter('model')]


# ---------------------------------------------------------------------------------------------------------------
# __setattr__, attribute branch: what strict=True blocks and what it leaves alone
# ---------------------------------------------------------------------------------------------------------------
class SetAttrAttribute(FunctionContract):
    """obj.<name> = value for a name that is not a variable: with strict=True a name that is neither a registered attribute nor 'strict'
    itself is refused with AttributeError (naming the closest variable when there is one) and nothing is created; the strict switch and every
    registered attribute stay assignable; without strict an unknown name is registered through add_attribute; no series is touched."""
    qualname = 'fsic.core.containers.VectorContainer.__setattr__'
    props = ('C09',)
    required_covers = ('blocked', 'updated', 'created')

    def scenarios(self):
        return ['unknown-name', 'registered-attribute', 'strict-switch', 'values-property']

    def setup(self, interp, scenario):
        from pyvc.libspec import A
        ctx = interp.ctx
        e = {'scenario': scenario, 'added': [], 'closest_calls': 0, 'direct': []}
        obj = make(interp, e, strict_symbolic=True)
        e['strict'] = obj.fields['_strict'].e
        if scenario in ('strict-switch', 'values-property'):
            # the two properties of the class that can be assigned: neither is a "new attribute"
            name = z3.StringVal('strict' if scenario == 'strict-switch' else 'values')
        else:
            name = ctx.fresh('name', STR)
            # "a new attribute": not the name of a property of the class (strict, values, size, ...: those exist)
            import inspect as _inspect
            for pn in sorted(n for n in dir(VectorContainer) if isinstance(_inspect.getattr_static(VectorContainer, n), property)):
                ctx.assume(name != z3.StringVal(pn))
        e['name'] = name
        # the attribute branch does not depend on how many variables there are: two variables and five registered attributes, any name
        variables, registered = ['X', 'Y'], ['_attributes', 'span', 'index', '_strict', 'note']
        obj.fields['index'] = list(variables)
        obj.fields['_attributes'] = list(registered)
        e['index0'], e['attrs0'] = list(variables), list(registered)
        ctx.assume(z3.And(*[name != z3.StringVal(v) for v in variables]))
        is_attr = z3.Or(*[name == z3.StringVal(a) for a in registered])
        if scenario == 'registered-attribute':
            ctx.assume(is_attr)
        elif scenario == 'unknown-name':
            ctx.assume(z3.Not(is_attr))
        e['is_attr'] = is_attr
        e['value'] = object()
        e['inputs'] = {'name': name, 'strict': e['strict']} if scenario not in ('strict-switch', 'values-property') else {'strict': e['strict']}

        def add_attribute(interp_, o, args, kwargs, node):
            e['added'].append((args[0], args[1]))
            return None

        def closest(interp_, o, args, kwargs, node):
            ctx.use(A('fsic.get_closest_match', 'get_closest_match returns a list of names and changes nothing'))
            e['closest_calls'] += 1
            return [] if ctx.choose(2, 'closest-match') == 0 else ['near']

        def object_setattr(interp_, o, args, kwargs, node):
            e['direct'].append((args[0], args[1]))
            return None
        interp.registry.set_calls({'fsic.core.containers.VectorContainer.add_attribute': add_attribute,
                                   'fsic.core.containers.VectorContainer.get_closest_match': closest,
                                   'builtins.object.__setattr__': object_setattr})
        concrete = {'strict-switch': 'strict', 'values-property': 'values'}.get(scenario)
        return Call([concrete if concrete else SStr(name), e['value']], {}, self_obj=obj, entry=e)

    def post(self, interp, scenario, call, out):
        ctx = interp.ctx
        e = call.entry
        obj = e['obj']
        name = e['name']
        strict = e['strict']
        ctx.prove(z3.And(obj.ndstore.data == e['data0'], z3.BoolVal(obj.fields['index'] == e['index0'] and obj.fields['_attributes'] == e['attrs0'])),
                  'no_series_and_no_declaration_is_touched_by_an_attribute_assignment', 'frame')
        if out.kind == 'raise':
            ctx.cover('blocked')
            cls = exc_class(out.exc)
            ctx.prove(z3.And(z3.BoolVal(cls is AttributeError and scenario == 'unknown-name'), strict),
                      'AttributeError_only_for_a_new_name_under_strict_(never_for_the_strict_switch_the_values_property_or_a_registered_attribute)', 'raises')
            ctx.prove(z3.BoolVal(not e['added'] and not e['direct']), 'a_refused_assignment_creates_nothing', 'frame')
            return
        if scenario == 'unknown-name':
            ctx.cover('created')
            ctx.prove(z3.Not(strict), 'with_strict_no_assignment_creates_a_new_attribute', 'raises')
            ok = len(e['added']) == 1 and not e['direct'] and V.is_sym(e['added'][0][0]) and e['added'][0][1] is e['value']
            ctx.prove(z3.BoolVal(ok) if not ok else V.z3_of(e['added'][0][0]) == name, 'a_new_name_is_registered_through_add_attribute_once', 'ensures')
        else:
            ctx.cover('updated')
            # the assignment reaches the object: through the plain attribute protocol (a new entry of the instance under that name), or - for
            # the strict switch on an object that has not registered it yet - through add_attribute
            stored = [(k, v) for k, v in obj.fields.items() if v is e['value']]
            prop_name = {'strict-switch': 'strict', 'values-property': 'values'}.get(scenario)
            via_protocol = len(stored) == 1 and not e['added'] and (stored[0][0] == prop_name if prop_name else
                                                                   (V.is_sym(stored[0][0]) and z3.eq(V.z3_of(stored[0][0]), name)))
            via_add = prop_name is not None and len(e['added']) == 1 and e['added'][0][0] == prop_name and e['added'][0][1] is e['value'] and not stored
            via_direct = not e['added'] and len(e['direct']) == 1 and e['direct'][0][1] is e['value']
            ctx.prove(z3.BoolVal(bool(via_protocol or via_add or via_direct)), 'an_existing_attribute_or_the_strict_switch_is_assigned_whatever_strict_says', 'ensures',
                      note=f"added={len(e['added'])} direct={len(e['direct'])} stored={[str(k) for k, _ in stored]}")


CONTRACTS.append(SetAttrAttribute())


class AddAttribute(FunctionContract):
    """add_attribute(name, value): a name that is already a variable or a registered attribute is refused (DuplicateNameError) and nothing
    changes; otherwise the value is stored under that name and the name is registered exactly once; no series is touched."""
    qualname = 'fsic.core.containers.VectorContainer.add_attribute'
    props = ('C09',)
    required_covers = ('added', 'duplicate')

    def setup(self, interp, scenario):
        ctx = interp.ctx
        e = {'scenario': scenario}
        obj = make(interp, e)
        variables, registered = ['X', 'Y'], ['_attributes', 'span', 'index', '_strict', 'note']
        obj.fields['index'] = list(variables)
        obj.fields['_attributes'] = list(registered)
        e['index0'], e['attrs0'] = list(variables), list(registered)
        e['name'] = ctx.fresh('name', STR)
        e['value'] = object()
        e['inputs'] = {'name': e['name']}
        return Call([SStr(e['name']), e['value']], {}, self_obj=obj, entry=e)

    def post(self, interp, scenario, call, out):
        ctx = interp.ctx
        e = call.entry
        obj = e['obj']
        name = e['name']
        taken = z3.Or(*[name == z3.StringVal(x) for x in e['index0'] + e['attrs0']])
        ctx.prove(z3.And(obj.ndstore.data == e['data0'], z3.BoolVal(obj.fields['index'] == e['index0'])), 'no_series_and_no_declaration_is_touched', 'frame')
        stored = [(k, v) for k, v in obj.fields.items() if v is e['value']]
        attrs = obj.fields['_attributes']
        if out.kind == 'raise':
            ctx.cover('duplicate')
            ctx.prove(z3.And(z3.BoolVal(exc_class(out.exc) is DuplicateNameError), taken), 'DuplicateNameError_only_for_a_name_already_in_use', 'raises')
            ctx.prove(z3.BoolVal(not stored and attrs == e['attrs0']), 'a_refused_attribute_changes_nothing', 'frame')
            return
        ctx.cover('added')
        ctx.prove(z3.Not(taken), 'a_name_already_in_use_is_refused', 'raises')
        ok = len(stored) == 1 and V.is_sym(stored[0][0]) and z3.eq(V.z3_of(stored[0][0]), name)
        ctx.prove(z3.BoolVal(ok), 'the_value_is_stored_under_the_name', 'ensures')
        ok2 = isinstance(attrs, list) and attrs[:len(e['attrs0'])] == e['attrs0'] and len(attrs) == len(e['attrs0']) + 1 and V.is_sym(attrs[-1]) and z3.eq(V.z3_of(attrs[-1]), name)
        ctx.prove(z3.BoolVal(ok2), 'the_name_is_registered_exactly_once_after_the_existing_attributes', 'ensures', note=str(attrs)[:120])


CONTRACTS.append(AddAttribute())


class ReplaceValues(FunctionContract):
    """replace_values(**new_values): every keyword is assigned exactly once, in the order given, through the checked item assignment
    (`__setitem__`, which refuses unknown names); nothing else is assigned."""
    qualname = 'fsic.core.containers.VectorContainer.replace_values'
    props = ('C09',)

    def scenarios(self):
        return ['two-keywords', 'none', 'second-raises']

    def setup(self, interp, scenario):
        e = {'scenario': scenario, 'sets': []}
        obj = make(interp, e)
        kw = {} if scenario == 'none' else {'A': object(), 'nope' if scenario == 'second-raises' else 'B': object()}
        e['kw'] = kw

        def setitem(interp_, o, args, kwargs, node):
            e['sets'].append((args[0], args[1]))
            if args[0] == 'nope':
                from pyvc.interp import PyRaise
                from pyvc.values import SExc
                exc = SExc(KeyError, origin='setitem')
                e['exc'] = exc
                raise PyRaise(exc)
            return None
        interp.registry.set_calls({'fsic.core.containers.VectorContainer.__setitem__': setitem})
        e['inputs'] = {}
        return Call([], dict(kw), self_obj=obj, entry=e)

    def post(self, interp, scenario, call, out):
        ctx = interp.ctx
        e = call.entry
        want = list(e['kw'].items())
        if out.kind == 'raise':
            ctx.prove(z3.BoolVal(scenario == 'second-raises' and out.exc is e.get('exc')), 'only_a_refusal_of_the_item_assignment_propagates', 'raises')
        else:
            ctx.prove(z3.BoolVal(scenario != 'second-raises'), 'a_refused_item_assignment_is_not_swallowed', 'raises')
        got = e['sets']
        ctx.prove(z3.BoolVal(len(got) == len(want) and all(g[0] == w[0] and g[1] is w[1] for g, w in zip(got, want))),
                  'each_keyword_assigned_exactly_once_in_order_through_the_checked_item_assignment', 'ensures', note=str([g[0] for g in got]))
        ctx.prove(e['obj'].ndstore.data == e['data0'], 'nothing_is_assigned_by_replace_values_itself', 'frame')


CONTRACTS.append(ReplaceValues())


class SizeAndValues(FunctionContract):
    """`size` is (number of variables) x (number of periods) for every container; `values` stacks the series in declaration order (index for a
    plain container, names for a model), one row per variable, each series read exactly once."""
    props = ('C09',)

    def __init__(self, which, what):
        self.which, self.what = which, what
        base = {'container': 'fsic.core.containers.VectorContainer', 'model': 'fsic.core.interfaces.ModelInterface'}[which]
        self.qualname = f'{base}.{what}'

    def setup(self, interp, scenario):
        import numpy as np
        import pyvc.libspec as L
        from fsic.core.interfaces import ModelInterface
        ctx = interp.ctx
        e = {'reads': [], 'stacked': []}
        if self.what == 'size':
            obj = make(interp, e)
            if self.which == 'model':
                obj.fields['names'] = obj.fields['index']
            e['inputs'] = {'n': e['n'], 'm': e['m']}
            return Call([], {}, self_obj=obj, entry=e)
        names = ['B', 'A', 'C']
        cls = VectorContainer if self.which == 'container' else type('M', (ModelInterface, VectorContainer), {})
        # the other list is deliberately in another order: a model's `values` follows `names`, a container's follows `index`
        obj = SObj(cls, {'index': list(names) if self.which == 'container' else ['A', 'B', 'C'], 'names': list(names) if self.which == 'model' else ['C', 'B', 'A'],
                         'span': [1, 2]}, label='c')
        e['names'] = names
        series = {k: ('series', k) for k in names}
        orig_getattr = interp.getattr

        def patched_getattr(o, name, node=None):
            if o is obj and name == '__getattribute__':
                class G:
                    def vc_call(self_, interp_, args, kwargs, node_):
                        key = args[0]
                        e['reads'].append(key)
                        return series[key[1:]]
                return G()
            return orig_getattr(o, name, node)
        interp.getattr = patched_getattr

        def array(interp_, args, kwargs, node):
            e['stacked'].append(list(args[0]))
            e['result'] = ('stack', len(e['stacked']))
            return e['result']
        array.always = True
        L._MODELS[np.array] = array
        e['inputs'] = {}
        return Call([], {}, self_obj=obj, entry=e)

    def post(self, interp, scenario, call, out):
        ctx = interp.ctx
        e = call.entry
        if out.kind == 'raise':
            ctx.prove(False, 'does_not_raise', 'raises')
            return
        if self.what == 'size':
            ctx.prove(V.to_int_term(out.value) == e['m'] * e['n'], 'size_is_the_number_of_variables_times_the_number_of_periods', 'ensures')
            return
        ctx.prove(z3.BoolVal(e['reads'] == ['_' + k for k in e['names']]), 'each_series_read_exactly_once_in_declaration_order', 'ensures', note=str(e['reads']))
        ctx.prove(z3.BoolVal(len(e['stacked']) == 1 and e['stacked'][0] == [('series', k) for k in e['names']] and out.value is e.get('result')),
                  'values_is_the_stack_of_the_series_in_declaration_order', 'ensures')


CONTRACTS += [SizeAndValues('container', 'size'), SizeAndValues('model', 'size'), SizeAndValues('container', 'values'), SizeAndValues('model', 'values')]


class InterfaceInit(FunctionContract):
    """ModelInterface.__init__(span, strict, dtype, default_value, **initial_values): the bookkeeping variables come first (status '-',
    iterations -1), then one variable per name of NAMES in that order, each created exactly once with the keyword given for it (the value
    itself) or else the default value, and with the model's dtype; duplicate names in NAMES are refused (DuplicateNameError); under strict a
    keyword that names no variable is refused (InitialisationError) before any model variable is created; without strict it is ignored."""
    qualname = 'fsic.core.interfaces.ModelInterface.__init__'
    props = ('C09', 'C18')
    required_covers = ('constructed', 'duplicate-names', 'unlisted-keyword')

    def scenarios(self):
        return ['defaults', 'keywords', 'unlisted-keyword-strict', 'unlisted-keyword-lenient', 'duplicate-names', 'no-names']

    def setup(self, interp, scenario):
        from fsic.core.interfaces import ModelInterface
        from pyvc.libspec import A
        ctx = interp.ctx
        names = {'duplicate-names': ['Y', 'C', 'Y'], 'no-names': []}.get(scenario, ['Y', 'C', 'G'])

        class M(ModelInterface, VectorContainer):
            NAMES = list(names)
        e = {'scenario': scenario, 'added': [], 'attrs': [], 'parent': [], 'names': names, 'cls': M}
        obj = SObj(M, {}, label='model')
        e['obj'] = obj
        strict = scenario == 'unlisted-keyword-strict'
        kw = {}
        if scenario == 'keywords':
            kw = {'C': object(), 'Y': object()}
        elif scenario.startswith('unlisted-keyword'):
            kw = {'G': object(), 'Gx': object()}
        e['kw'] = kw
        e['dtype'], e['default'] = object(), object()

        def container_init(interp_, o, args, kwargs, node):
            e['parent'].append((list(args), dict(kwargs)))
            o.fields['_strict'] = kwargs.get('strict', False)
            return None

        def add_variable(interp_, o, args, kwargs, node):
            e['added'].append((args[0], args[1], dict(kwargs)))
            return None

        def add_attribute(interp_, o, args, kwargs, node):
            e['attrs'].append((args[0], args[1]))
            o.fields[args[0]] = args[1]
            return None

        def closest(interp_, o, args, kwargs, node):
            ctx.use(A('fsic.get_closest_match', 'get_closest_match returns a list of names and changes nothing'))
            return ['G']
        interp.registry.set_calls({'fsic.core.containers.VectorContainer.__init__': container_init, 'fsic.core.containers.VectorContainer.add_variable': add_variable,
                                   'fsic.core.containers.VectorContainer.add_attribute': add_attribute, 'fsic.core.interfaces.ModelInterface.get_closest_match': closest,
                                   'fsic.core.containers.VectorContainer.get_closest_match': closest})
        e['span'] = [1, 2, 3]
        e['inputs'] = {}
        return Call([e['span']], dict(kw, strict=strict, dtype=e['dtype'], default_value=e['default']), self_obj=obj, entry=e)

    def post(self, interp, scenario, call, out):
        from fsic.exceptions import DuplicateNameError, InitialisationError
        ctx = interp.ctx
        e = call.entry
        names = e['names']
        model_vars = [a for a in e['added'] if a[0] not in ('status', 'iterations')]
        book = [a for a in e['added'] if a[0] in ('status', 'iterations')]
        ctx.prove(z3.BoolVal(len(e['parent']) == 1 and e['parent'][0][0] == [e['span']]), 'container_constructed_once_over_the_span', 'ensures')
        if out.kind == 'raise':
            cls = exc_class(out.exc)
            if cls is DuplicateNameError:
                ctx.cover('duplicate-names')
                ctx.prove(z3.BoolVal(scenario == 'duplicate-names'), 'DuplicateNameError_only_for_a_name_listed_twice', 'raises')
            else:
                ctx.cover('unlisted-keyword')
                ctx.prove(z3.BoolVal(cls is InitialisationError and scenario == 'unlisted-keyword-strict'), 'InitialisationError_only_for_an_unlisted_keyword_under_strict', 'raises')
            ctx.prove(z3.BoolVal(not model_vars), 'a_refused_construction_creates_no_model_variable', 'frame')
            return
        ctx.cover('constructed')
        ctx.prove(z3.BoolVal(scenario not in ('duplicate-names', 'unlisted-keyword-strict')), 'duplicate_names_and_unlisted_keywords_under_strict_are_refused', 'raises')
        ok = [(a[0], a[1]) for a in book] == [('status', '-'), ('iterations', -1)] and e['added'][:2] == book
        ctx.prove(z3.BoolVal(ok), "bookkeeping_variables_come_first_with_status_'-'_and_iterations_-1", 'ensures', note=str([(a[0], a[1]) for a in book]))
        ctx.prove(z3.BoolVal([a[0] for a in model_vars] == names), 'one_variable_per_name_in_the_order_of_NAMES', 'ensures', note=str([a[0] for a in model_vars]))
        if [a[0] for a in model_vars] == names:
            for nm, val, kw in model_vars:
                want = e['kw'].get(nm, e['default'])
                ctx.prove(z3.BoolVal(val is want and kw.get('dtype') is e['dtype']), f'{nm}:created_with_its_keyword_value_else_the_default_and_with_the_model_dtype', 'ensures')
        nm_attr = e['obj'].fields.get('names')
        ctx.prove(z3.BoolVal(nm_attr == names and nm_attr is not e['cls'].NAMES), 'instance_names_is_a_copy_of_the_class_list', 'own')


CONTRACTS.append(InterfaceInit())
