"""C10 - label slices and label items of VectorContainer: _resolve_period_slice, tuple-key paths of __getitem__ / __setitem__.

Labels are modelled as integers (so 0 is a *falsy* label), the span as a sequence of n >= 1 pairwise distinct labels.
The span look-up `_locate_period_in_span` is the assumed contract of DESIGN 10/C05: int position / slice / KeyError.
Steps are concrete (None, 1, 2, 3); everything else is symbolic.
"""
from __future__ import annotations

import z3

from fsic.core.containers import VectorContainer
from pyvc import values as V
from pyvc.contracts import Call, FunctionContract
from pyvc.interp import PyRaise, exc_class
from pyvc.libspec import A
from pyvc.values import ANY_EXCEPTION, F64, INT, STR, SArr, SExc, SFloat, SInt, SObj, SSeq, SStr, VarStore, forall_range

STORE = z3.ArraySort(STR, z3.ArraySort(INT, F64))


def make_container(interp, e):
    ctx = interp.ctx
    n = ctx.fresh('n', INT)
    ctx.assume(n >= 1)
    span_arr = ctx.fresh('span', z3.ArraySort(INT, INT))
    i, j = z3.Int('i!d'), z3.Int('j!d')
    ctx.assume(z3.ForAll([i, j], z3.Implies(z3.And(0 <= i, i < n, 0 <= j, j < n, i != j), z3.Select(span_arr, i) != z3.Select(span_arr, j))))
    span = SSeq('list', n, span_arr, 'int', prov='borrowed')
    data0 = ctx.fresh('vars', STORE)
    store = VarStore(data0, n)
    obj = SObj(VectorContainer, {'span': span, 'index': ['X'], '_strict': False, '_attributes': []}, label='c')
    obj.varstore = store
    obj.known_vars = ('X',)
    e.update(n=n, span=span, span_arr=span_arr, data0=data0, store=store, obj=obj, located=[])
    g = ctx.ghost

    def locate(interp_, o, args, kwargs, node):
        ctx.use(A('fsic.locate.contract', '_locate_period_in_span(label) returns an int pos with 0 <= pos < n and span[pos] == label, or a slice '
                                          'for a label without a single position, or raises KeyError'))
        label = args[0]
        key = V.z3_of(label).sexpr()
        for k, r in e['located']:
            if k == key:
                if isinstance(r, SExc):
                    raise PyRaise(r)
                return r[1] if isinstance(r, tuple) else r
        kind = ctx.choose(3, 'locate')
        if kind == 2:
            ctx.assume(forall_range(0, n, lambda q: z3.Select(span_arr, q) != V.z3_of(label), 'absent'))
            exc = SExc(KeyError, origin='locate')
            e['located'].append((key, exc))
            raise PyRaise(exc)
        if kind == 1:
            ctx.assume(forall_range(0, n, lambda q: z3.Select(span_arr, q) != V.z3_of(label), 'absent'))
            a, b = ctx.fresh('sl.start', INT), ctx.fresh('sl.stop', INT)
            ctx.assume(z3.And(0 <= a, a <= b, b <= n))
            r = slice(SInt(a), SInt(b), None)
            e['located'].append((key, ('slice', r, a, b, V.z3_of(label))))
            return r
        pos = ctx.fresh('pos', INT)
        ctx.assume(z3.And(pos >= 0, pos < n, z3.Select(span_arr, pos) == V.z3_of(label)))
        e['located'].append((key, ('int', SInt(pos), pos, None, V.z3_of(label))))
        return SInt(pos)
    interp.registry.set_calls({'fsic.core.containers.VectorContainer._locate_period_in_span': locate})
    return obj


STEPS = {'none': None, '1': 1, '2': 2, '3': 3}


def expected_bounds(e, a_label, b_label):
    """Positions addressed per the statement: from pos(a) (open: 0) through pos(b) inclusive (open: n - 1); for slice-valued look-ups the
    slice's own start / stop."""
    n = e['n']

    def found(label):
        for k, r in e['located']:
            if isinstance(r, tuple) and z3.eq(r[4], label):
                return r
        return None
    lo = z3.IntVal(0)
    if a_label is not None:
        r = found(a_label)
        lo = r[2]
    hi = n
    if b_label is not None:
        r = found(b_label)
        hi = r[2] + 1 if r[0] == 'int' else r[3]
    return lo, hi


class ResolvePeriodSlice(FunctionContract):
    qualname = 'fsic.core.containers.VectorContainer._resolve_period_slice'
    props = ('C10',)

    def scenarios(self):
        return [f'{a}/{b}/{s}' for a in ('open', 'label') for b in ('open', 'label') for s in STEPS]

    def setup(self, interp, scenario):
        ctx = interp.ctx
        ak, bk, sk = scenario.split('/')
        e = {}
        obj = make_container(interp, e)
        e['a'] = ctx.fresh('a', INT) if ak == 'label' else None
        e['b'] = ctx.fresh('b', INT) if bk == 'label' else None
        e['step'] = STEPS[sk]
        e['inputs'] = {'n': e['n']}
        if e['a'] is not None:
            e['inputs']['a'] = e['a']
        if e['b'] is not None:
            e['inputs']['b'] = e['b']
        sl = slice(SInt(e['a']) if e['a'] is not None else None, SInt(e['b']) if e['b'] is not None else None, e['step'])
        return Call([sl], {}, self_obj=obj, entry=e)

    def post(self, interp, scenario, call, out):
        ctx = interp.ctx
        e = call.entry
        if out.kind == 'raise':
            ctx.prove(z3.BoolVal(exc_class(out.exc) is KeyError and getattr(out.exc, 'origin', '') == 'locate'), 'only_KeyError_of_the_look_up_propagates', 'raises')
            return
        r = out.value
        ok = isinstance(r, tuple) and len(r) == 3
        ctx.prove(z3.BoolVal(ok), 'returns_a_start_stop_step_triple', 'ensures')
        if not ok:
            return
        # open ends mean the ends of the span: they must have been resolved through the first / last label
        n, sp = e['n'], e['span_arr']
        want_lo, want_hi = None, None
        labels = [x for x in e['located'] if isinstance(x[1], tuple)]

        def res_of(label_term):
            for k, rr in e['located']:
                if isinstance(rr, tuple) and z3.eq(rr[4], label_term):
                    return rr
            return None
        a_term = e['a'] if e['a'] is not None else z3.Select(sp, 0)
        b_term = e['b'] if e['b'] is not None else z3.Select(sp, n - 1)
        ra = res_of(z3.simplify(a_term)) or res_of(a_term)
        rb = res_of(z3.simplify(b_term)) or res_of(b_term)
        ctx.prove(z3.BoolVal(ra is not None and rb is not None), 'bounds_are_resolved_through_the_span_look_up(open_end=first/last_label)', 'ensures')
        if ra is None or rb is None:
            return
        want_lo = ra[2]
        want_hi = rb[2] + 1 if rb[0] == 'int' else rb[3]
        ctx.prove(V.to_int_term(r[0]) == want_lo, 'start_is_position_of_first_label', 'ensures')
        ctx.prove(V.to_int_term(r[1]) == want_hi, 'stop_is_one_past_position_of_last_label_(inclusive)', 'ensures')
        ctx.prove(z3.BoolVal((not V.is_sym(r[2])) and r[2] == (e['step'] if e['step'] is not None else 1)), 'step_is_kept_(default_1)', 'ensures')


class LabelItem(FunctionContract):
    """obj[name, label] / obj[name, a:b:s] (get and set) address exactly the labelled positions of the named series."""
    props = ('C10', 'C09')

    def __init__(self, method):
        self.method = method
        self.qualname = f'fsic.core.containers.VectorContainer.{method}'

    def scenarios(self):
        return ['label'] + [f'slice/{a}/{b}/{s}' for a in ('open', 'label') for b in ('open', 'label') for s in ('none', '2')] + ['unknown-name', 'unknown-name-only', 'name-only']

    def setup(self, interp, scenario):
        ctx = interp.ctx
        e = {'scenario': scenario}
        obj = make_container(interp, e)
        e['value'] = ctx.fresh('value', F64)
        e['inputs'] = {'n': e['n']}
        if scenario == 'label':
            e['label'] = ctx.fresh('label', INT)
            key = ('X', SInt(e['label']))
        elif scenario == 'unknown-name':
            key = ('nope', SInt(ctx.fresh('label', INT)))
        elif scenario == 'unknown-name-only':
            key = 'nope'
        elif scenario == 'name-only':
            key = 'X'
        else:
            _, ak, bk, sk = scenario.split('/')
            e['a'] = ctx.fresh('a', INT) if ak == 'label' else None
            e['b'] = ctx.fresh('b', INT) if bk == 'label' else None
            e['step'] = STEPS[sk]
            key = ('X', slice(SInt(e['a']) if e['a'] is not None else None, SInt(e['b']) if e['b'] is not None else None, e['step']))
        args = [key] + ([SFloat(e['value'])] if self.method == '__setitem__' else [])
        return Call(args, {}, self_obj=obj, entry=e)

    def post(self, interp, scenario, call, out):
        ctx = interp.ctx
        e = call.entry
        n = e['n']
        x0 = z3.Select(e['data0'], z3.StringVal('X'))
        x1 = z3.Select(e['store'].data, z3.StringVal('X'))
        q = z3.Int('q!p')
        others_same = z3.ForAll([z3.String('nm!p')], z3.Implies(z3.String('nm!p') != z3.StringVal('X'),
                                                               z3.Select(e['store'].data, z3.String('nm!p')) == z3.Select(e['data0'], z3.String('nm!p'))))
        if out.kind == 'raise':
            cls = exc_class(out.exc)
            ctx.prove(z3.BoolVal(cls is KeyError), 'only_KeyError_for_absent_label_or_unknown_name', 'raises')
            ctx.prove(e['store'].data == e['data0'], 'a_rejected_access_touches_no_series', 'frame')
            if scenario not in ('unknown-name', 'unknown-name-only'):
                ctx.prove(z3.BoolVal(getattr(out.exc, 'origin', '') == 'locate'), 'KeyError_only_from_the_span_look_up', 'raises')
            return
        if scenario in ('unknown-name', 'unknown-name-only'):
            # reading or assigning under a name that is not a variable raises (C09: an assignment to an unknown name raises and changes nothing)
            ctx.prove(False, 'unknown_name_raises_KeyError', 'raises')
            return
        ctx.prove(others_same, 'other_series_untouched', 'frame')
        if scenario == 'name-only':
            return
        if scenario == 'label':
            r = [x for k, x in e['located'] if isinstance(x, tuple)]
            if not r:
                ctx.prove(False, 'label_resolved_through_the_span_look_up', 'ensures')
                return
            pos = r[0][2] if r[0][0] == 'int' else None
            if pos is None:
                return         # slice-valued look-up of a single label (partial-string index): addressed as the code does
            if self.method == '__getitem__':
                ctx.prove(z3.BoolVal(isinstance(out.value, SFloat)) if not isinstance(out.value, SFloat) else out.value.e == z3.Select(x0, pos),
                          'reads_exactly_the_element_at_the_label_position', 'ensures')
                ctx.prove(x1 == x0, 'reading_changes_nothing', 'frame')
            else:
                ctx.prove(z3.ForAll([q], z3.Select(x1, q) == z3.If(q == pos, e['value'], z3.Select(x0, q))), 'writes_exactly_the_element_at_the_label_position', 'ensures')
            return
        lo, hi = expected_bounds(e, e.get('a') if e.get('a') is not None else None, e.get('b') if e.get('b') is not None else None)
        # open ends are resolved through the first / last label: positions 0 and n-1 (labels are distinct)
        st = e['step'] or 1
        if self.method == '__getitem__':
            r = out.value
            ok = isinstance(r, SArr)
            ctx.prove(z3.BoolVal(ok), 'returns_an_array', 'ensures')
            if ok:
                cnt = z3.If(hi > lo, (hi - lo + (st - 1)) / st, z3.IntVal(0))
                ctx.prove(r.length == cnt, 'addresses_pos(a)_through_pos(b)_inclusive_in_steps_of_s_(count)', 'ensures')
                ctx.prove(forall_range(0, cnt, lambda j: z3.Select(r.arr, j) == z3.Select(x0, lo + j * st)), 'addresses_pos(a)_through_pos(b)_inclusive_in_steps_of_s_(elements)', 'ensures')
            ctx.prove(x1 == x0, 'reading_changes_nothing', 'frame')
        else:
            ctx.prove(z3.ForAll([q], z3.Implies(z3.And(0 <= q, q < n), z3.Select(x1, q) == z3.If(z3.And(lo <= q, q < hi, (q - lo) % st == 0), e['value'], z3.Select(x0, q)))),
                      'writes_exactly_pos(a)_through_pos(b)_inclusive_in_steps_of_s', 'ensures')


CONTRACTS = [ResolvePeriodSlice(), LabelItem('__getitem__'), LabelItem('__setitem__')]


class LocateDispatch(FunctionContract):
    """_locate_period_in_span: the first available look-up (get_loc, then index, then the array fall-back) decides; whatever it returns is
    returned unchanged; any exception it raises becomes KeyError(period) chained to it; later methods are never consulted."""
    qualname = 'fsic.core.containers.VectorContainer._locate_period_in_span'
    props = ('C10', 'C05')

    def scenarios(self):
        return ['get_loc', 'index', 'both', 'neither']

    def setup(self, interp, scenario):
        from pyvc.values import SExc, SInt
        ctx = interp.ctx
        e = {'scenario': scenario, 'calls': [], 'inputs': {}}
        period = SInt(ctx.fresh('period', INT))
        e['period'] = period

        def method(tag):
            class M:
                def vc_call(self_, interp_, args, kwargs, node):
                    e['calls'].append((tag, list(args)))
                    k_ = ctx.choose(3, f'{tag}-raises')
                    if k_:
                        # the documented failure of this look-up, or any other exception (TypeError, pandas' InvalidIndexError, ... for
                        # labels the span type cannot even compare): all of them mean "not a label of this span"
                        exc = SExc((ValueError if tag == 'index' else KeyError) if k_ == 1 else ANY_EXCEPTION, origin=tag)
                        e['exc'] = exc
                        raise PyRaise(exc)
                    r = SInt(ctx.fresh(f'{tag}.result', INT))
                    e['result'] = r
                    return r
            return M()

        class Span:
            pass
        span = Span()
        if scenario in ('get_loc', 'both'):
            span.get_loc = method('get_loc')
        if scenario in ('index', 'both'):
            span.index = method('index')
        e['span'] = span
        fb = method('fallback')

        def fallback(interp_, o, args, kwargs, node):
            return fb.vc_call(interp_, args, kwargs, node)
        interp.registry.set_calls({'fsic.core.containers.VectorContainer._locate_period_in_span_fallback': fallback})
        obj = SObj(VectorContainer, {'span': span}, label='c')
        return Call([period], {}, self_obj=obj, entry=e)

    def post(self, interp, scenario, call, out):
        ctx = interp.ctx
        e = call.entry
        first = {'get_loc': 'get_loc', 'index': 'index', 'both': 'get_loc', 'neither': 'fallback'}[scenario]
        calls = e['calls']
        ctx.prove(z3.BoolVal(len(calls) == 1 and calls[0][0] == first), 'only_the_first_available_look_up_is_consulted_(get_loc,_index,_fall_back)', 'ensures', note=str([c[0] for c in calls]))
        if calls:
            args = calls[0][1]
            ctx.prove(z3.BoolVal(args[0] is e['period'] and (first != 'fallback' or (len(args) == 2 and args[1] is e['span']))), 'label_(and_span)_passed_unchanged', 'ensures')
        if out.kind == 'raise':
            ok = exc_class(out.exc) is KeyError and isinstance(out.exc, SExc) and out.exc.cause is e.get('exc') and e.get('exc') is not None
            ctx.prove(z3.BoolVal(ok), 'any_look_up_failure_becomes_KeyError_chained_to_it', 'raises')
            return
        ctx.prove(z3.BoolVal(out.value is e.get('result')), 'returns_the_look_up_result_unchanged', 'ensures')


CONTRACTS.append(LocateDispatch())


class FallbackLocator(FunctionContract):
    """_locate_period_in_span_fallback(period, span) - the look-up for spans without get_loc / index (NumPy arrays): the position of the single
    element equal to the label, as a Python int; a label equal to no element raises KeyError; a label equal to several elements does not
    resolve to a single position and raises (never the first or last match); a tuple label is one label (no element-wise comparison).
    (Spans and labels are enumerated concrete arrays; NumPy runs for real.)"""
    qualname = 'fsic.core.containers.VectorContainer._locate_period_in_span_fallback'
    props = ('C10', 'C05')
    required_covers = ('found', 'absent', 'ambiguous')

    CASES = {
        'int/first': ([2000, 2001, 2002], 2000, 0), 'int/last': ([2000, 2001, 2002], 2002, 2), 'int/numpy-scalar': ([2000, 2001, 2002], 'np.int64(2001)', 1),
        'int/float-equal': ([2000, 2001, 2002], 2001.0, 1), 'int/absent': ([2000, 2001, 2002], 1999, KeyError), 'int/near-miss': ([2000, 2001, 2002], 2000.5, KeyError),
        'int/text-of-label': ([2000, 2001, 2002], '2001', KeyError), 'str/found': (['a', 'b', 'c'], 'b', 1), 'str/prefix': (['ab', 'b', 'c'], 'a', KeyError),
        'str/longer': (['a', 'b', 'c'], 'ab', KeyError), 'tuple-label': (['a', 'b', 'c'], ('x', 'b', 'y'), KeyError), 'one-tuple-label': (['a', 'b', 'c'], ('a',), KeyError),
        'duplicate/int': ([2000, 2001, 2000], 2000, 'ambiguous'), 'duplicate/str': (['a', 'a', 'b'], 'a', 'ambiguous'), 'duplicate/other-found': ([5, 5, 7], 7, 2),
        'empty-span': ([], 1, KeyError), 'object-span-with-tuples': ('object:[(1,2),(3,4),"q"]', (3, 4), 1),
    }

    def scenarios(self):
        return list(self.CASES)

    def setup(self, interp, scenario):
        import numpy as np
        span, label, want = self.CASES[scenario]
        if isinstance(span, str):
            arr = np.empty(3, dtype=object)
            arr[0], arr[1], arr[2] = (1, 2), (3, 4), 'q'
        else:
            arr = np.array(span)
        if isinstance(label, str) and label.startswith('np.int64('):
            label = np.int64(int(label[9:-1]))
        e = {'want': want, 'inputs': {}}
        return Call([label, arr], {}, entry=e)

    def post(self, interp, scenario, call, out):
        ctx = interp.ctx
        want = call.entry['want']
        if out.kind == 'raise':
            cls = exc_class(out.exc)
            if want == 'ambiguous':
                ctx.cover('ambiguous')
                ctx.prove(z3.BoolVal(True), 'a_label_with_several_positions_does_not_resolve', 'raises')
                return
            ctx.cover('absent')
            ctx.prove(z3.BoolVal(want is KeyError and cls is KeyError), 'KeyError_exactly_for_a_label_equal_to_no_element', 'raises', note=f'{getattr(cls, "__name__", cls)}')
            return
        ctx.cover('found')
        ctx.prove(z3.BoolVal(isinstance(want, int) and not isinstance(want, bool)), 'a_label_without_a_single_position_is_not_resolved_to_one', 'raises', note=str(out.value))
        ctx.prove(z3.BoolVal(type(out.value) is int and out.value == want), 'returns_the_position_of_the_single_equal_element_as_a_python_int', 'ensures', note=repr(out.value))


CONTRACTS.append(FallbackLocator())


class LocateOnRange(FunctionContract):
    """_locate_period_in_span on real `range` spans (with strides, counting down, negative origin): the position of the label in the range, KeyError
    for an integer the range does not contain - in particular one that lies between two of its elements.  (Ranges and labels enumerated.)"""
    qualname = 'fsic.core.containers.VectorContainer._locate_period_in_span'
    props = ('C10', 'C05')

    CASES = {
        'unit/first': (range(2000, 2005), 2000, 0), 'unit/last': (range(2000, 2005), 2004, 4), 'unit/stop': (range(2000, 2005), 2005, KeyError), 'unit/before': (range(2000, 2005), 1999, KeyError),
        'stride/second': (range(2000, 2030, 5), 2005, 1), 'stride/last': (range(2000, 2030, 5), 2025, 5), 'stride/between': (range(2000, 2030, 5), 2001, KeyError),
        'stride/just-before-an-element': (range(2000, 2030, 5), 2009, KeyError), 'stride/stop': (range(2000, 2030, 5), 2030, KeyError),
        'down/found': (range(10, 0, -2), 4, 3), 'down/between': (range(10, 0, -2), 5, KeyError), 'down/stop': (range(10, 0, -2), 0, KeyError),
        'negative-origin/found': (range(-4, 5, 2), 0, 2), 'negative-origin/between': (range(-4, 5, 2), -1, KeyError), 'empty': (range(0), 0, KeyError),
        'numpy-scalar': (range(2000, 2030, 5), 'np.int64(2010)', 2), 'float-equal': (range(2000, 2030, 5), 2010.0, 2), 'float-between': (range(2000, 2030, 5), 2010.5, KeyError),
    }

    def scenarios(self):
        return ['range:' + k for k in self.CASES]

    def setup(self, interp, scenario):
        import numpy as np
        span, label, want = self.CASES[scenario[6:]]
        if isinstance(label, str):
            label = np.int64(int(label[9:-1]))
        obj = SObj(VectorContainer, {'span': span}, label='c')
        return Call([label], {}, self_obj=obj, entry={'want': want, 'inputs': {}})

    def post(self, interp, scenario, call, out):
        ctx = interp.ctx
        want = call.entry['want']
        if out.kind == 'raise':
            ctx.prove(z3.BoolVal(want is KeyError and exc_class(out.exc) is KeyError), 'KeyError_exactly_for_an_integer_the_range_does_not_contain', 'raises', note=str(want))
            return
        ctx.prove(z3.BoolVal(want is not KeyError and int(out.value) == want and isinstance(out.value, int)), 'returns_the_position_of_the_label_in_the_range', 'ensures', note=f'{out.value!r} vs {want!r}')


CONTRACTS.append(LocateOnRange())
