"""C11 - ownership of copies: VectorContainer.copy / BaseLinker.copy (also bound as __copy__ and reached by __deepcopy__).

Every value stored in the copy is *fresh* (the result of copy.deepcopy or of the class constructor): no mutable object -
the span, the index list, the attribute list, any series (including the elements of object-dtype series such as traces),
any attribute, any submodel - is shared with the original; the copy is an instance of `self.__class__` and every field
is equal by the deepcopy contract.  With every mutable component owned by exactly one instance, no operation on one side
can be visible on the other.
"""
from __future__ import annotations

import z3

from fsic.core.containers import VectorContainer
from fsic.core.linkers import BaseLinker
from pyvc import values as V
from pyvc.contracts import Call, FunctionContract
from pyvc.interp import exc_class
from pyvc.libspec import OpaqueMutable
from pyvc.values import F64, INT, STR, SArr, SObj, SSeq

SHARED_IMMUTABLE = (int, float, str, bool, type(None))


def container_fields(ctx, label, n):
    tr = SArr(n, ctx.fresh(f'{label}.trace', z3.ArraySort(INT, INT)), 'obj')
    tr.elem_owner = 0
    return {
        'span': SSeq('list', n, ctx.fresh(f'{label}.span', z3.ArraySort(INT, STR)), 'str'),
        'index': ['X', 'trace'],
        '_strict': False,
        '_attributes': ['_attributes', 'span', 'index', '_strict', 'meta'],
        '_X': SArr(n, ctx.fresh(f'{label}.X', z3.ArraySort(INT, F64)), 'float'),
        '_trace': tr,
        'meta': OpaqueMutable(0),
        # an entry that a subclass put straight into the instance dictionary without registering it in `_attributes`
        # (AliasMixin does this with `aliases` and `preferred_names`): part of the object's state all the same
        'aliases': OpaqueMutable(5),
    }


def ownership_obligations(ctx, orig: SObj, copy_: SObj, label=''):
    ctx.prove(z3.BoolVal(isinstance(copy_, SObj) and copy_ is not orig), f'{label}returns_a_new_object', 'own')
    if not isinstance(copy_, SObj):
        return
    ctx.prove(z3.BoolVal(copy_.cls is orig.cls), f'{label}copy_is_an_instance_of_the_same_class', 'ensures')
    ctx.prove(z3.BoolVal(set(copy_.fields) == set(orig.fields)), f'{label}copy_has_the_same_attributes', 'ensures', note=str(sorted(set(copy_.fields) ^ set(orig.fields))))
    for k, v in orig.fields.items():
        if k not in copy_.fields:
            continue
        w = copy_.fields[k]
        if isinstance(v, SHARED_IMMUTABLE):
            ctx.prove(z3.BoolVal(w == v and type(w) is type(v)), f'{label}field_{k}_equal', 'ensures')
            continue
        ctx.prove(z3.BoolVal(w is not v), f'{label}field_{k}_is_not_shared_with_the_original', 'own')
        if isinstance(v, SArr):
            ok = isinstance(w, SArr) and w.dtype == v.dtype
            ctx.prove(z3.BoolVal(ok), f'{label}field_{k}_is_an_array_of_the_same_dtype', 'ensures')
            if ok:
                ctx.prove(z3.And(w.length == v.length, w.arr == v.arr), f'{label}field_{k}_equal', 'ensures')
                if v.dtype == 'obj':
                    ctx.prove(z3.BoolVal(getattr(w, 'elem_owner', None) not in (None, getattr(v, 'elem_owner', 0))),
                              f'{label}elements_of_object_series_{k}_are_not_shared_(deep_copy)', 'own')
        elif isinstance(v, SSeq):
            ok = isinstance(w, SSeq)
            ctx.prove(z3.BoolVal(ok), f'{label}field_{k}_is_a_sequence', 'ensures')
            if ok:
                ctx.prove(z3.And(w.length == v.length, w.arr == v.arr), f'{label}field_{k}_equal', 'ensures')
        elif isinstance(v, list):
            ctx.prove(z3.BoolVal(isinstance(w, list) and w == v), f'{label}field_{k}_equal', 'ensures')
        elif isinstance(v, OpaqueMutable):
            ctx.prove(z3.BoolVal(isinstance(w, OpaqueMutable) and w.token != v.token), f'{label}attribute_{k}_is_deep_copied', 'own')
        elif isinstance(v, dict) and all(isinstance(x, SObj) for x in v.values()):
            ctx.prove(z3.BoolVal(isinstance(w, dict) and list(w) == list(v)), f'{label}submodels_same_ids_in_order', 'ensures')
            if isinstance(w, dict):
                for sid in v:
                    if sid in w:
                        ownership_obligations(ctx, v[sid], w[sid], label=f'{label}submodel[{sid}].')


class ContainerCopy(FunctionContract):
    qualname = 'fsic.core.containers.VectorContainer.copy'
    props = ('C11',)

    def scenarios(self):
        # 'second-copy': the object has been copied before in this process and changed since (nothing is remembered between calls)
        return ['default', 'second-copy']

    def setup(self, interp, scenario):
        ctx = interp.ctx
        n = ctx.fresh('n', INT)
        ctx.assume(n >= 0)

        class Sub(VectorContainer):
            pass
        obj = SObj(Sub, container_fields(ctx, 'c', n), label='orig')
        e = {'obj': obj, 'inputs': {'n': n}}
        if scenario == 'second-copy':
            from pyvc.extract import get_function
            fi = get_function(self.qualname)
            e['first'] = interp.call_function(fi, [obj], {}, self_obj=obj)
            # the original moves on: another series object, another attribute value
            obj.fields['_X'] = SArr(n, ctx.fresh('c.X.later', z3.ArraySort(INT, F64)), 'float')
            obj.fields['meta'] = OpaqueMutable(11)
        return Call([], {}, self_obj=obj, entry=e)

    def post(self, interp, scenario, call, out):
        ctx = interp.ctx
        if out.kind == 'raise':
            ctx.prove(False, f'copy_does_not_raise:{getattr(exc_class(out.exc), "__name__", "?")}@{getattr(out.exc, "origin", "")}', 'raises')
            return
        ownership_obligations(ctx, call.entry['obj'], out.value)
        first = call.entry.get('first')
        if first is not None and isinstance(out.value, SObj):
            shared = [k for k, v in out.value.fields.items() if not isinstance(v, SHARED_IMMUTABLE) and any(v is w for w in first.fields.values())]
            ctx.prove(z3.BoolVal(out.value is not first and not shared), 'a_later_copy_shares_nothing_with_an_earlier_copy', 'own', note=str(shared))


class LinkerCopy(FunctionContract):
    qualname = 'fsic.core.linkers.BaseLinker.copy'
    props = ('C11',)

    def setup(self, interp, scenario):
        from fsic.core.models import BaseModel
        ctx = interp.ctx
        n = ctx.fresh('n', INT)
        ctx.assume(n >= 0)

        class M(BaseModel):
            pass
        subs = {'A': SObj(M, container_fields(ctx, 'A', n), label='A'), 'B': SObj(M, container_fields(ctx, 'B', n), label='B')}
        f = container_fields(ctx, 'L', n)
        # (attributes named like a fragment of 'submodels' are attributes like any other)
        f.update(submodels=subs, name='_', _LAGS=1, _LEADS=0, model=OpaqueMutable(7), sub='text', e=2.5)
        obj = SObj(BaseLinker, f, label='linker')

        def init(interp_, o, args, kwargs, node):
            # the constructor of the copy: stores the (fresh) submodel dictionary it is given; everything else is overwritten by copy()
            sm = kwargs.get('submodels', args[0] if args else None)
            o.fields['submodels'] = sm if sm is not None else {}
            return None
        def model_init(interp_, o, args, kwargs, node):
            # constructor of a submodel copy: creates the attributes of a fresh instance, all of which copy() then overwrites with deep copies
            o.fields['span'] = kwargs.get('span', args[0] if args else None)
            return None
        interp.registry.set_calls({'fsic.core.linkers.BaseLinker.__init__': init, 'fsic.core.models.BaseModel.__init__': model_init})
        return Call([], {}, self_obj=obj, entry={'obj': obj, 'inputs': {'n': n}})

    def post(self, interp, scenario, call, out):
        ctx = interp.ctx
        if out.kind == 'raise':
            ctx.prove(False, f'copy_does_not_raise:{getattr(exc_class(out.exc), "__name__", "?")}@{getattr(out.exc, "origin", "")}', 'raises')
            return
        ownership_obligations(ctx, call.entry['obj'], out.value)


class CopyAliases(FunctionContract):
    """__copy__ is copy, __deepcopy__ calls copy: all three routes are the same function."""
    qualname = 'fsic.core.containers.VectorContainer.__deepcopy__'
    props = ('C11',)

    def setup(self, interp, scenario):
        ctx = interp.ctx
        obj = SObj(VectorContainer, {}, label='o')
        e = {'obj': obj, 'calls': []}

        def cp(interp_, o, args, kwargs, node):
            e['calls'].append(o)
            r = SObj(VectorContainer, {}, label='copy')
            e['result'] = r
            return r
        interp.registry.set_calls({'fsic.core.containers.VectorContainer.copy': cp})
        return Call([{}], {}, self_obj=obj, entry=e)

    def post(self, interp, scenario, call, out):
        ctx = interp.ctx
        e = call.entry
        import fsic.core.linkers as lk
        ctx.prove(z3.BoolVal(out.kind == 'return' and out.value is e.get('result') and e['calls'] == [e['obj']]), 'deepcopy_route_is_copy()', 'ensures')
        ctx.prove(z3.BoolVal(VectorContainer.__dict__['__copy__'] is VectorContainer.__dict__['copy']), 'copy.copy_route_is_copy()', 'ensures')
        ctx.prove(z3.BoolVal(lk.BaseLinker.__dict__['__copy__'] is lk.BaseLinker.__dict__['copy']), 'linker_copy.copy_route_is_copy()', 'ensures')


CONTRACTS = [ContainerCopy(), LinkerCopy(), CopyAliases()]


# ---------------------------------------------------------------------------------------------------------------
# constructor-level ownership: instances never store a class-level mutable object
# ---------------------------------------------------------------------------------------------------------------
class InitOwnership(FunctionContract):
    """BaseModel.__init__ / BaseLinker.__init__ / AliasMixin.__init__: every class-level list or dict an instance stores is a copy
    (equal, not identical), so that siblings and the class never observe each other's mutations."""
    props = ('C11',)

    def __init__(self, which):
        self.which = which
        self.qualname = {'model': 'fsic.core.models.BaseModel.__init__', 'linker': 'fsic.core.linkers.BaseLinker.__init__',
                         'alias': 'fsic.extensions.common.AliasMixin.__init__', 'interface': 'fsic.core.interfaces.ModelInterface.__init__'}[which]

    def scenarios(self):
        # parser-built classes have `CHECK = ENDOGENOUS` (one list object under two names); hand-written ones usually two lists
        return ['separate-class-lists', 'check-is-endogenous', 'empty-check'] if self.which in ('model', 'linker') else ['default']

    def setup(self, interp, scenario):
        import fsic
        from fsic.extensions import AliasMixin
        ctx = interp.ctx
        e = {'stored': {}, 'which': self.which}
        same = scenario == 'check-is-endogenous'
        empty = scenario == 'empty-check'

        class M(fsic.BaseModel):
            ENDOGENOUS = ['Y', 'W']
            EXOGENOUS = ['X']
            NAMES = ENDOGENOUS + EXOGENOUS
            CHECK = ENDOGENOUS if same else [] if empty else ['W', 'X']          # the check list is its own list: another order, other members, or none

        class L(fsic.BaseLinker):
            ENDOGENOUS = ['Z', 'V']
            NAMES = ENDOGENOUS
            CHECK = ENDOGENOUS if same else [] if empty else ['V']

        class Al(AliasMixin, M):
            ALIASES = {'GDP': 'Y', 'out': 'GDP'}
            PREFERRED_NAMES = ['GDP']
        cls = {'model': M, 'linker': L, 'alias': Al, 'interface': M}[self.which]
        e['cls'] = cls
        obj = SObj(cls, {}, label='instance')
        e['obj'] = obj

        def add_attribute(interp_, o, args, kwargs, node):
            e['stored'][args[0]] = args[1]
            o.fields[args[0]] = args[1]
            return None

        def parent_init(interp_, o, args, kwargs, node):
            e['parent_kwargs'] = dict(kwargs)
            return None

        def add_variable(interp_, o, args, kwargs, node):
            return None
        calls = {'fsic.core.containers.VectorContainer.add_attribute': add_attribute, 'fsic.core.containers.VectorContainer.add_variable': add_variable}
        if self.which in ('model', 'linker'):
            calls['fsic.core.interfaces.SolverMixin.__init__'] = parent_init
        elif self.which == 'alias':
            calls['fsic.core.models.BaseModel.__init__'] = parent_init
        else:
            calls['fsic.core.containers.VectorContainer.__init__'] = parent_init
        interp.registry.set_calls(calls)
        if self.which == 'linker':
            # a linker without submodels on an explicit span: span, dtype, default value and initial values of its own core variables
            e['span'] = [1, 2, 3]
            e['given'] = {'dtype': object(), 'default_value': object(), 'Z': object()}
            return Call([], dict(e['given'], span=e['span']), self_obj=obj, entry=e)
        if self.which == 'model':
            # every constructor argument reaches the parent constructor as given
            e['span'] = [1, 2, 3]
            e['given'] = {'strict': object(), 'dtype': object(), 'default_value': object(), 'X': object(), 'Y': object()}
            e['engine'] = object()
            return Call([e['span']], dict(e['given'], engine=e['engine']), self_obj=obj, entry=e)
        return Call([[1, 2, 3]], {}, self_obj=obj, entry=e)

    def post(self, interp, scenario, call, out):
        ctx = interp.ctx
        e = call.entry
        if out.kind == 'raise':
            ctx.prove(False, f'constructor_does_not_raise:{getattr(exc_class(out.exc), "__name__", "?")}@{getattr(out.exc, "origin", "")}', 'raises')
            return
        cls = e['cls']
        f = e['obj'].fields
        pairs = {'model': [('endogenous', 'ENDOGENOUS'), ('check', 'CHECK')], 'linker': [('endogenous', 'ENDOGENOUS'), ('check', 'CHECK')],
                 'alias': [('preferred_names', 'PREFERRED_NAMES')], 'interface': [('names', 'NAMES')]}[e['which']]
        tag = ('C11', 'C18') if e['which'] == 'alias' else ('C11', 'C08') if e['which'] == 'linker' else ('C11', 'C04', 'C02') if e['which'] == 'model' else None
        for attr, cattr in pairs:
            v = f.get(attr)
            c = getattr(cls, cattr)
            ctx.prove(z3.BoolVal(v is not None and v == c), f'instance_{attr}_equals_the_class_{cattr}', 'ensures', **({'props': tag} if tag else {}))
            shared = any(v is getattr(k, n, None) for k in cls.__mro__ for n in ('ENDOGENOUS', 'EXOGENOUS', 'NAMES', 'CHECK', 'PREFERRED_NAMES', 'ALIASES'))
            ctx.prove(z3.BoolVal(not shared), f'instance_{attr}_is_a_copy_not_the_class_level_object', 'own', **({'props': tag} if tag else {}))
        if e['which'] in ('model', 'linker'):
            ctx.prove(z3.BoolVal(f.get('endogenous') is not f.get('check')), 'instance_endogenous_and_check_are_distinct_lists', 'own', props=('C11', 'C04'))
        if e['which'] == 'model':
            pk = e.get('parent_kwargs') or {}
            ok = set(pk) == set(e['given']) | {'span'} and pk.get('span') is e['span'] and all(pk.get(k) is v for k, v in e['given'].items())
            ctx.prove(z3.BoolVal(ok), 'span_options_and_initial_values_reach_the_parent_constructor_unchanged', 'ensures', props=('C11', 'C09', 'C18'), note=str(sorted(pk)))
            ctx.prove(z3.BoolVal(f.get('engine') is e['engine']), 'engine_argument_is_stored', 'ensures', props=('C11', 'C07'))
        if e['which'] == 'linker':
            pk = e.get('parent_kwargs') or {}
            ok = set(pk) == set(e['given']) | {'span'} and pk.get('span') is e['span'] and all(pk.get(k) is v for k, v in e['given'].items())
            ctx.prove(z3.BoolVal(ok), 'span_dtype_default_value_and_initial_values_reach_the_parent_constructor_unchanged', 'ensures', props=('C11', 'C08', 'C09'), note=str(sorted(pk)))
            import fsic.core.linkers as _lk
            init = _lk.BaseLinker.__init__
            defaults = list(init.__defaults__ or ()) + list((init.__kwdefaults__ or {}).values())
            ctx.prove(z3.BoolVal(not any(f.get('submodels') is d for d in defaults if isinstance(d, (dict, list)))),
                      'instance_submodels_is_not_a_shared_default_argument', 'own')
        if e['which'] == 'alias':
            al = f.get('aliases')
            ctx.prove(z3.BoolVal(al == {'GDP': 'Y', 'out': 'Y'}), 'alias_chains_are_resolved_to_the_underlying_variable', 'ensures', note=str(al))
            ctx.prove(z3.BoolVal(al is not cls.ALIASES), 'instance_aliases_is_a_copy_not_the_class_level_object', 'own', props=('C11', 'C18'))
            ctx.prove(z3.BoolVal(dict(cls.ALIASES) == {'GDP': 'Y', 'out': 'GDP'} and list(cls.PREFERRED_NAMES) == ['GDP']), 'class_level_tables_untouched', 'frame')


CONTRACTS += [InitOwnership(w) for w in ('model', 'linker', 'alias', 'interface')]


class TraceInit(FunctionContract):
    """Trace(names): the trace owns its list of names - a fresh list equal to `names`, whatever kind of sequence was passed (the class-level
    TRACE_VARIABLES list, the model's own `names` list, a tuple, a caller's list) - and starts empty."""
    qualname = 'fsic.extensions.model.Trace.__init__'
    props = ('C11', 'C17')

    def scenarios(self):
        return ['list', 'tuple', 'empty-list']

    def setup(self, interp, scenario):
        from fsic.extensions.model import Trace
        names = {'list': ['Y', 'C'], 'tuple': ('Y', 'C'), 'empty-list': []}[scenario]
        obj = SObj(Trace, {}, label='trace')
        e = {'names': names, 'obj': obj, 'inputs': {}}
        return Call([names], {}, self_obj=obj, entry=e)

    def post(self, interp, scenario, call, out):
        ctx = interp.ctx
        e = call.entry
        if out.kind == 'raise':
            ctx.prove(False, 'constructor_does_not_raise', 'raises')
            return
        got = e['obj'].fields.get('names')
        ctx.prove(z3.BoolVal(isinstance(got, list) and got == list(e['names'])), 'names_is_a_list_equal_to_the_names_given', 'ensures', note=str(got))
        ctx.prove(z3.BoolVal(got is not e['names']), 'names_is_not_the_sequence_that_was_passed_in', 'own')
        ctx.prove(z3.BoolVal(e['obj'].fields.get('index') == []), 'starts_without_snapshots', 'ensures')


CONTRACTS.append(TraceInit())
