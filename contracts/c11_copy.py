"""C11 - ownership of copies: VectorContainer.copy / BaseLinker.copy (also bound as __copy__ and reached by __deepcopy__).

Every value stored in the copy is *fresh* (the result of copy.deepcopy or of the class constructor): no mutable object -
the span, the index list, the attribute list, any series (including the elements of object-dtype series such as traces),
any attribute, any submodel - is shared with the original; the copy is an instance of `self.__class__` and every field
is equal by the deepcopy contract.  With every mutable component owned by exactly one instance, no operation on one side
can be visible on the other.
"""
from __future__ import annotations

import z3

from fsic.core.containers import VectorContainer
from fsic.core.linkers import BaseLinker
from pyvc import values as V
from pyvc.contracts import Call, FunctionContract
from pyvc.interp import exc_class
from pyvc.libspec import OpaqueMutable
from pyvc.values import F64, INT, STR, SArr, SObj, SSeq

SHARED_IMMUTABLE = (int, float, str, bool, type(None))


def container_fields(ctx, label, n):
    tr = SArr(n, ctx.fresh(f'{label}.trace', z3.ArraySort(INT, INT)), 'obj')
    tr.elem_owner = 0
    return {
        'span': SSeq('list', n, ctx.fresh(f'{label}.span', z3.ArraySort(INT, STR)), 'str'),
        'index': ['X', 'trace'],
        '_strict': False,
        '_attributes': ['_attributes', 'span', 'index', '_strict', 'meta'],
        '_X': SArr(n, ctx.fresh(f'{label}.X', z3.ArraySort(INT, F64)), 'float'),
        '_trace': tr,
        'meta': OpaqueMutable(0),
    }


def ownership_obligations(ctx, orig: SObj, copy_: SObj, label=''):
    ctx.prove(z3.BoolVal(isinstance(copy_, SObj) and copy_ is not orig), f'{label}returns_a_new_object', 'own')
    if not isinstance(copy_, SObj):
        return
    ctx.prove(z3.BoolVal(copy_.cls is orig.cls), f'{label}copy_is_an_instance_of_the_same_class', 'ensures')
    ctx.prove(z3.BoolVal(set(copy_.fields) == set(orig.fields)), f'{label}copy_has_the_same_attributes', 'ensures', note=str(sorted(set(copy_.fields) ^ set(orig.fields))))
    for k, v in orig.fields.items():
        if k not in copy_.fields:
            continue
        w = copy_.fields[k]
        if isinstance(v, SHARED_IMMUTABLE):
            ctx.prove(z3.BoolVal(w == v and type(w) is type(v)), f'{label}field_{k}_equal', 'ensures')
            continue
        ctx.prove(z3.BoolVal(w is not v), f'{label}field_{k}_is_not_shared_with_the_original', 'own')
        if isinstance(v, SArr):
            ok = isinstance(w, SArr) and w.dtype == v.dtype
            ctx.prove(z3.BoolVal(ok), f'{label}field_{k}_is_an_array_of_the_same_dtype', 'ensures')
            if ok:
                ctx.prove(z3.And(w.length == v.length, w.arr == v.arr), f'{label}field_{k}_equal', 'ensures')
                if v.dtype == 'obj':
                    ctx.prove(z3.BoolVal(getattr(w, 'elem_owner', None) not in (None, getattr(v, 'elem_owner', 0))),
                              f'{label}elements_of_object_series_{k}_are_not_shared_(deep_copy)', 'own')
        elif isinstance(v, SSeq):
            ok = isinstance(w, SSeq)
            ctx.prove(z3.BoolVal(ok), f'{label}field_{k}_is_a_sequence', 'ensures')
            if ok:
                ctx.prove(z3.And(w.length == v.length, w.arr == v.arr), f'{label}field_{k}_equal', 'ensures')
        elif isinstance(v, list):
            ctx.prove(z3.BoolVal(isinstance(w, list) and w == v), f'{label}field_{k}_equal', 'ensures')
        elif isinstance(v, OpaqueMutable):
            ctx.prove(z3.BoolVal(isinstance(w, OpaqueMutable) and w.token != v.token), f'{label}attribute_{k}_is_deep_copied', 'own')
        elif isinstance(v, dict) and all(isinstance(x, SObj) for x in v.values()):
            ctx.prove(z3.BoolVal(isinstance(w, dict) and list(w) == list(v)), f'{label}submodels_same_ids_in_order', 'ensures')
            if isinstance(w, dict):
                for sid in v:
                    if sid in w:
                        ownership_obligations(ctx, v[sid], w[sid], label=f'{label}submodel[{sid}].')


class ContainerCopy(FunctionContract):
    qualname = 'fsic.core.containers.VectorContainer.copy'
    props = ('C11',)

    def setup(self, interp, scenario):
        ctx = interp.ctx
        n = ctx.fresh('n', INT)
        ctx.assume(n >= 0)

        class Sub(VectorContainer):
            pass
        obj = SObj(Sub, container_fields(ctx, 'c', n), label='orig')
        return Call([], {}, self_obj=obj, entry={'obj': obj, 'inputs': {'n': n}})

    def post(self, interp, scenario, call, out):
        ctx = interp.ctx
        if out.kind == 'raise':
            ctx.prove(False, f'copy_does_not_raise:{getattr(exc_class(out.exc), "__name__", "?")}@{getattr(out.exc, "origin", "")}', 'raises')
            return
        ownership_obligations(ctx, call.entry['obj'], out.value)


class LinkerCopy(FunctionContract):
    qualname = 'fsic.core.linkers.BaseLinker.copy'
    props = ('C11',)

    def setup(self, interp, scenario):
        from fsic.core.models import BaseModel
        ctx = interp.ctx
        n = ctx.fresh('n', INT)
        ctx.assume(n >= 0)

        class M(BaseModel):
            pass
        subs = {'A': SObj(M, container_fields(ctx, 'A', n), label='A'), 'B': SObj(M, container_fields(ctx, 'B', n), label='B')}
        f = container_fields(ctx, 'L', n)
        f.update(submodels=subs, name='_', _LAGS=1, _LEADS=0)
        obj = SObj(BaseLinker, f, label='linker')

        def init(interp_, o, args, kwargs, node):
            # the constructor of the copy: stores the (fresh) submodel dictionary it is given; everything else is overwritten by copy()
            sm = kwargs.get('submodels', args[0] if args else None)
            o.fields['submodels'] = sm if sm is not None else {}
            return None
        def model_init(interp_, o, args, kwargs, node):
            # constructor of a submodel copy: creates the attributes of a fresh instance, all of which copy() then overwrites with deep copies
            o.fields['span'] = kwargs.get('span', args[0] if args else None)
            return None
        interp.registry.set_calls({'fsic.core.linkers.BaseLinker.__init__': init, 'fsic.core.models.BaseModel.__init__': model_init})
        return Call([], {}, self_obj=obj, entry={'obj': obj, 'inputs': {'n': n}})

    def post(self, interp, scenario, call, out):
        ctx = interp.ctx
        if out.kind == 'raise':
            ctx.prove(False, f'copy_does_not_raise:{getattr(exc_class(out.exc), "__name__", "?")}@{getattr(out.exc, "origin", "")}', 'raises')
            return
        ownership_obligations(ctx, call.entry['obj'], out.value)


class CopyAliases(FunctionContract):
    """__copy__ is copy, __deepcopy__ calls copy: all three routes are the same function."""
    qualname = 'fsic.core.containers.VectorContainer.__deepcopy__'
    props = ('C11',)

    def setup(self, interp, scenario):
        ctx = interp.ctx
        obj = SObj(VectorContainer, {}, label='o')
        e = {'obj': obj, 'calls': []}

        def cp(interp_, o, args, kwargs, node):
            e['calls'].append(o)
            r = SObj(VectorContainer, {}, label='copy')
            e['result'] = r
            return r
        interp.registry.set_calls({'fsic.core.containers.VectorContainer.copy': cp})
        return Call([{}], {}, self_obj=obj, entry=e)

    def post(self, interp, scenario, call, out):
        ctx = interp.ctx
        e = call.entry
        import fsic.core.linkers as lk
        ctx.prove(z3.BoolVal(out.kind == 'return' and out.value is e.get('result') and e['calls'] == [e['obj']]), 'deepcopy_route_is_copy()', 'ensures')
        ctx.prove(z3.BoolVal(VectorContainer.__dict__['__copy__'] is VectorContainer.__dict__['copy']), 'copy.copy_route_is_copy()', 'ensures')
        ctx.prove(z3.BoolVal(lk.BaseLinker.__dict__['__copy__'] is lk.BaseLinker.__dict__['copy']), 'linker_copy.copy_route_is_copy()', 'ensures')


CONTRACTS = [ContainerCopy(), LinkerCopy(), CopyAliases()]
