"""C12 - VectorContainer.reindex / BaseModel.reindex.

Shapes are enumerated (old span of 2 labels, new span of 0..3 labels, one float and one int variable); inside a shape the
labels (integers, possibly repeated in the new span, 0 allowed), the data and the fill values are symbolic.  `self.copy()`
is replaced by its ownership contract (C11), the span look-up by the assumed look-up contract.
"""
from __future__ import annotations

import numpy as np
import z3

from fsic.core.containers import VectorContainer
from fsic.core.models import BaseModel
from pyvc import values as V
from pyvc.contracts import Call, FunctionContract
from pyvc.interp import PyRaise, exc_class
from pyvc.libspec import A
from pyvc.values import F64, INT, STR, SArr, SExc, SFloat, SInt, SObj, SSeq, SStr

OLD_N = 2


class ContainerReindex(FunctionContract):
    qualname = 'fsic.core.containers.VectorContainer.reindex'
    props = ('C12',)
    required_covers = ('returned',)

    def scenarios(self):
        # '+dup': the two labels of the old span may coincide (a label repeated in the old span addresses its first occurrence, as obj[name, label] does)
        return [f'new{k}/{f}' for k in (0, 1, 2, 3) for f in ('nofill', 'fill_value', 'keyword-A', 'keyword-I', 'unknown-keyword-strict', 'unknown-keyword-lenient', 'attribute-named-keyword-strict')] + \
               [f'new{k}/{f}+dup' for k in (1, 2) for f in ('nofill', 'fill_value')] + ['new1/strict-argument-differs', 'new2/strict-argument-differs']

    def setup(self, interp, scenario):
        ctx = interp.ctx
        ks, fs = scenario.split('/')
        dup = fs.endswith('+dup')
        fs = fs[:-4] if dup else fs
        k = int(ks[3:])
        old_labels = [ctx.fresh(f'old{i}', INT) for i in range(OLD_N)]
        if not dup:
            ctx.assume(old_labels[0] != old_labels[1])
        new_labels = [ctx.fresh(f'new{i}', INT) for i in range(k)]
        a = [ctx.fresh(f'A{i}', F64) for i in range(OLD_N)]
        iv = [ctx.fresh(f'I{i}', INT) for i in range(OLD_N)]

        def arr(vals, kind):
            s = z3.K(INT, z3.FPVal(0.0, F64) if kind == 'float' else z3.IntVal(0))
            for i, v in enumerate(vals):
                s = z3.Store(s, i, v)
            return SArr(len(vals), s, kind)
        A_arr, I_arr = arr(a, 'float'), arr(iv, 'int')
        span = [SInt(x) for x in old_labels]
        strict = fs in ('unknown-keyword-strict', 'attribute-named-keyword-strict')
        obj = SObj(VectorContainer, {'span': span, 'index': ['A', 'I'], '_strict': strict, '_attributes': ['_attributes', 'span', 'index', '_strict'],
                                     '_A': A_arr, '_I': I_arr}, label='c')
        e = dict(old=old_labels, new=new_labels, a=a, iv=iv, obj=obj, A_arr=A_arr, I_arr=I_arr, fs=fs, k=k)
        kw = {}
        if fs == 'fill_value':
            e['fill_value'] = ctx.fresh('fill_value', INT)
            kw['fill_value'] = SInt(e['fill_value'])
        if fs == 'keyword-A':
            e['fill_A'] = ctx.fresh('fill_A', F64)
            kw['A'] = SFloat(e['fill_A'])
        if fs == 'keyword-I':
            e['fill_I'] = ctx.fresh('fill_I', INT)
            kw['I'] = SInt(e['fill_I'])
        if fs.startswith('unknown-keyword'):
            kw['nosuch'] = 1
        if fs == 'strict-argument-differs':
            kw['strict'] = True       # only governs the check of the fill keywords of this call; the object (and the result) stay lenient
        if fs == 'attribute-named-keyword-strict':
            kw['index'] = 1           # the name of an attribute of the object, not of a variable: unknown all the same
        e['inputs'] = {f'old{i}': x for i, x in enumerate(old_labels)}
        e['inputs'].update({f'new{i}': x for i, x in enumerate(new_labels)})

        def locate(interp_, o, args, kwargs, node):
            ctx.use(A('fsic.locate.contract', '_locate_period_in_span(label) returns the position of a label that is in the span'))
            lab = V.to_int_term(args[0])
            pos = ctx.fresh('pos', INT)
            # ... the position of its FIRST occurrence (list.index, Index.get_loc on a unique index, the array fall-back for a single match)
            ctx.assume(z3.Or(*[z3.And(pos == i, lab == x, *[lab != y for y in old_labels[:i]]) for i, x in enumerate(old_labels)]))
            return SInt(pos)

        def copy_(interp_, o, args, kwargs, node):
            ctx.use(A('fsic.copy.contract', 'copy() returns a new instance of the same class whose fields are deep copies (proved in C11)'))
            from pyvc.libspec import deep_copy_value
            r = SObj(o.cls, {k_: deep_copy_value(interp_, v) for k_, v in o.fields.items()}, label='copy')
            e['copy'] = r
            return r
        ctx.force_models = {np.full}
        interp.registry.set_calls({'fsic.core.containers.VectorContainer._locate_period_in_span': locate, 'fsic.core.containers.VectorContainer.copy': copy_})
        return Call([[SInt(x) for x in new_labels]], kw, self_obj=obj, entry=e)

    def post(self, interp, scenario, call, out):
        ctx = interp.ctx
        e = call.entry
        fs = e['fs']
        if out.kind == 'raise':
            ctx.prove(z3.BoolVal(exc_class(out.exc) is KeyError and fs in ('unknown-keyword-strict', 'attribute-named-keyword-strict')), 'KeyError_only_for_unknown_fill_keywords_under_strict', 'raises')
            return
        ctx.cover('returned')
        ctx.prove(z3.BoolVal(fs not in ('unknown-keyword-strict', 'attribute-named-keyword-strict')), 'unknown_fill_keywords_are_rejected_under_strict', 'raises')
        r = out.value
        ok = isinstance(r, SObj) and r is not e['obj'] and r.cls is e['obj'].cls
        ctx.prove(z3.BoolVal(ok), 'returns_a_new_object_of_the_same_class', 'ensures')
        if not ok:
            return
        sp = r.fields.get('span')
        ctx.prove(z3.BoolVal(isinstance(sp, list) and len(sp) == e['k']) if not (isinstance(sp, list) and len(sp) == e['k'])
                  else z3.And(*[V.to_int_term(x) == y for x, y in zip(sp, e['new'])]) if e['k'] else z3.BoolVal(True), 'span_is_the_new_span', 'ensures')
        ctx.prove(z3.BoolVal(r.fields.get('index') == ['A', 'I'] and r.fields['index'] is not e['obj'].fields['index']), 'variable_order_carried_over_on_a_fresh_list', 'ensures')
        ctx.prove(z3.BoolVal(r.fields.get('_strict') is e['obj'].fields.get('_strict') or r.fields.get('_strict') == e['obj'].fields.get('_strict')),
                  'strict_setting_of_the_result_is_that_of_the_original', 'ensures', note=str(r.fields.get('_strict')))
        for name, kind, old_vals, default in (('A', 'float', e['a'], z3.fpNaN(F64)), ('I', 'int', e['iv'], z3.IntVal(0))):
            new_arr = r.fields.get('_' + name)
            okk = isinstance(new_arr, SArr) and new_arr.dtype == kind and new_arr is not e['obj'].fields['_' + name]
            ctx.prove(z3.BoolVal(okk), f'{name}:fresh_array_of_the_same_dtype', 'ensures')
            if not okk:
                continue
            ctx.prove(new_arr.length == e['k'], f'{name}:one_element_per_new_period', 'ensures')
            if name == 'A':
                fill = e.get('fill_A', V.to_float_term(SInt(e['fill_value'])) if 'fill_value' in e else default)
            else:
                fill = e.get('fill_I', e.get('fill_value', default))
            for i, lab in enumerate(e['new']):
                want = fill
                for p in reversed(range(OLD_N)):
                    want = z3.If(lab == e['old'][p], old_vals[p], want)
                ctx.prove(z3.Select(new_arr.arr, i) == want, f'{name}[{i}]:old_value_if_the_period_is_in_both_spans_else_the_fill_value', 'ensures')
        # the original is unchanged
        ctx.prove(z3.And(*[z3.Select(e['obj'].fields['_A'].arr, i) == e['a'][i] for i in range(OLD_N)] +
                         [z3.Select(e['obj'].fields['_I'].arr, i) == e['iv'][i] for i in range(OLD_N)] +
                         [z3.BoolVal(e['obj'].fields['_A'] is e['A_arr'] and e['obj'].fields['_I'] is e['I_arr'] and len(e['obj'].fields['span']) == OLD_N)]),
                  'original_object_unchanged', 'frame')


class ModelReindex(FunctionContract):
    """BaseModel.reindex forwards to the container with status '-' / iterations -1 as per-variable defaults unless given (also when given falsy)."""
    qualname = 'fsic.core.models.BaseModel.reindex'
    props = ('C12',)

    def scenarios(self):
        return ['defaults', 'status-given', 'iterations-given', 'both-given']

    def setup(self, interp, scenario):
        ctx = interp.ctx
        obj = SObj(BaseModel, {}, label='m')
        e = {'calls': [], 'scenario': scenario}
        kw = {}
        if scenario in ('status-given', 'both-given'):
            e['status'] = ctx.fresh('status_fill', STR)
            kw['status'] = SStr(e['status'])
        if scenario in ('iterations-given', 'both-given'):
            e['iterations'] = ctx.fresh('iterations_fill', INT)
            kw['iterations'] = SInt(e['iterations'])
        e['fill_value'] = SInt(ctx.fresh('fill_value', INT))
        kw['fill_value'] = e['fill_value']
        e['X'] = SInt(ctx.fresh('X_fill', INT))
        kw['X'] = e['X']
        e['span'] = [1, 2]

        def parent(interp_, o, args, kwargs, node):
            e['calls'].append((list(args), dict(kwargs)))
            r = SObj(BaseModel, {}, label='result')
            e['result'] = r
            return r
        interp.registry.set_calls({'fsic.core.containers.VectorContainer.reindex': parent})
        e['inputs'] = {k: v for k, v in (('iterations', e.get('iterations')), ('status', e.get('status'))) if v is not None}
        return Call([e['span']], kw, self_obj=obj, entry=e)

    def post(self, interp, scenario, call, out):
        ctx = interp.ctx
        e = call.entry
        if out.kind == 'raise':
            ctx.prove(False, 'does_not_raise_by_itself', 'raises')
            return
        ctx.prove(z3.BoolVal(len(e['calls']) == 1 and out.value is e.get('result')), 'forwards_once_and_returns_the_result', 'ensures')
        if len(e['calls']) != 1:
            return
        args, kw = e['calls'][0]
        ctx.prove(z3.BoolVal(args and args[0] is e['span'] and kw.get('fill_value') is e['fill_value'] and kw.get('X') is e['X'] and kw.get('strict', None) is None),
                  'span_fill_value_strict_and_other_keywords_forwarded_unchanged', 'ensures')
        st, it = kw.get('status'), kw.get('iterations')
        want_st = e['status'] if 'status' in e else z3.StringVal('-')
        want_it = e['iterations'] if 'iterations' in e else z3.IntVal(-1)
        ctx.prove(z3.BoolVal(st is not None) if st is None else V.z3_of(st) == want_st, "status_fill_is_the_keyword_if_given_else_'-'", 'ensures')
        ctx.prove(z3.BoolVal(it is not None) if it is None else V.to_int_term(it) == want_it, 'iterations_fill_is_the_keyword_if_given_else_-1', 'ensures')


CONTRACTS = [ContainerReindex(), ModelReindex()]


# ---------------------------------------------------------------------------------------------------------------
# PandasIndexFeaturesMixin.reindex with its default arguments: what is handed to the parent class and to pandas.Series.reindex
# ---------------------------------------------------------------------------------------------------------------
from fsic.extensions.model import PandasIndexFeaturesMixin      # noqa: E402
from pyvc import libspec as _libspec                              # noqa: E402


class _PandasModel(PandasIndexFeaturesMixin, BaseModel):
    pass


class _Ghost:
    def __init__(self, fn):
        self.fn = fn

    def vc_call(self, interp, args, kwargs, node):
        return self.fn(interp, args, kwargs, node)


class GhostSeries:
    """Assumed contract of pandas.Series as used here: Series(data, index=labels).reindex(index=new, method=None, fill_value=f, ...).values is,
    per new label, the datum at that label's position in `labels` if present, else f - the bounded layer exercises exactly this on real pandas."""

    def __init__(self, log, args, kwargs):
        self.made = (list(args), dict(kwargs))
        self.reindexed = None
        log.append(self)

        def reindex(interp, a, kw, node):
            interp.ctx.use(A('pandas.Series.reindex', 'Series(data, index=old).reindex(index=new, method=None, fill_value=f).values holds, per new label, the old '
                                                      'datum if the label is in `old`, else f (bounded layer: real pandas)'))
            self.reindexed = (list(a), dict(kw))
            r = GhostSeries.__new__(GhostSeries)
            r.made, r.reindexed, r.source = None, None, self
            r.values = ('values-of', self)
            return r
        self.reindex = _Ghost(reindex)


def _install_series_model():
    try:
        import pandas as pd
    except ImportError:      # pragma: no cover
        return None

    def model_series(interp, args, kwargs, node):
        log = getattr(interp.ctx, 'series_log', None)
        if log is None:
            raise _libspec.OutOfSubset('pandas.Series outside a contract that supplies its ghost')
        return GhostSeries(log, args, kwargs)
    _libspec._MODELS[pd.Series] = model_series
    return pd


_pd = _install_series_model()


class PandasMixinReindex(FunctionContract):
    """Default arguments (no fill method): the parent's reindex is asked once for the new span, then every variable of the result - in its
    order, each exactly once - is assigned Series(self[name], index=self.span).reindex(index=span, method=None, fill_value=<the keyword of
    that variable if given, else fill_value>, limit=None, tolerance=None).values, and that result object is returned; unknown variables
    among the keywords raise KeyError exactly under strict (argument, else the object's setting) and before anything is built."""
    qualname = 'fsic.extensions.model.PandasIndexFeaturesMixin.reindex'
    props = ('C12',)

    def scenarios(self):
        return ['defaults', 'fill_value', 'keyword-X', 'keyword-X+fill_value', 'keyword-falsy', 'unknown-strict-arg', 'unknown-strict-object', 'unknown-lenient',
                'unknown-lenient-arg-overrides-object']

    def setup(self, interp, scenario):
        ctx = interp.ctx
        strict_obj = scenario in ('unknown-strict-object', 'unknown-lenient-arg-overrides-object')
        old_span = ['a', 'b']
        obj = SObj(_PandasModel, {'names': ['X', 'Y'], 'span': old_span, '_strict': strict_obj}, label='m')
        e = {'parent': [], 'sets': [], 'series': [], 'scenario': scenario, 'obj': obj, 'old_span': old_span, 'data': {}}
        ctx.series_log = e['series']
        kw = {}
        if 'fill_value' in scenario:
            e['fill_value'] = SInt(ctx.fresh('fill_value', INT))
            kw['fill_value'] = e['fill_value']
        if 'keyword-X' in scenario:
            e['X'] = SInt(ctx.fresh('X_fill', INT))
            kw['X'] = e['X']
        if scenario == 'keyword-falsy':
            e['X'] = 0
            kw['X'] = 0
            e['fill_value'] = SInt(ctx.fresh('fill_value', INT))
            kw['fill_value'] = e['fill_value']
        if scenario.startswith('unknown'):
            kw['Q'] = 1.0
        if scenario == 'unknown-strict-arg':
            kw['strict'] = True
        if scenario == 'unknown-lenient-arg-overrides-object':
            kw['strict'] = False
        e['span'] = ['b', 'c', 'd']
        e['kw'] = dict(kw)

        def parent(interp_, o, args, kwargs, node):
            e['parent'].append((o, list(args), dict(kwargs)))
            # the result lists its variables in an order of its own: the loop must follow the result's list
            r = SObj(_PandasModel, {'names': ['Y', 'X'], 'span': list(e['span']), '_strict': strict_obj}, label='result')
            e['result'] = r
            return r

        def getitem(interp_, o, args, kwargs, node):
            key = args[0]
            if o is not e['obj']:
                interp_.raise_(AssertionError, 'reads a variable of another object')
            return e['data'].setdefault(key, ('data-of', key))

        def setitem(interp_, o, args, kwargs, node):
            e['sets'].append((o, args[0], args[1]))
        interp.registry.set_calls({'fsic.core.models.BaseModel.reindex': parent,
                                   'fsic.core.containers.VectorContainer.__getitem__': getitem,
                                   'fsic.core.containers.VectorContainer.__setitem__': setitem})
        if _pd is not None:
            ctx.force_models = {_pd.Series}
        e['inputs'] = {k: v.e for k, v in (('fill_value', e.get('fill_value')), ('X_fill', e.get('X'))) if isinstance(v, SInt)}
        return Call([e['span']], kw, self_obj=obj, entry=e)

    def post(self, interp, scenario, call, out):
        ctx = interp.ctx
        e = call.entry
        must_raise = scenario in ('unknown-strict-arg', 'unknown-strict-object')
        if out.kind == 'raise':
            cls = exc_class(out.exc)
            ctx.prove(z3.BoolVal(must_raise and cls is KeyError), 'raises_only_KeyError_and_only_for_unknown_variables_under_strict', 'raises',
                      note=getattr(cls, '__name__', '?'))
            ctx.prove(z3.BoolVal(not e['parent'] and not e['sets'] and not e['series']), 'nothing_is_built_or_assigned_before_the_rejection', 'frame')
            ctx.cover('rejected')
            return
        ctx.prove(z3.BoolVal(not must_raise), 'unknown_variables_among_the_fill_keywords_are_rejected_under_strict', 'ensures')
        if must_raise:
            return
        ok = len(e['parent']) == 1 and out.value is e.get('result')
        ctx.prove(z3.BoolVal(ok), 'asks_the_parent_class_once_and_returns_that_fresh_object', 'ensures')
        if not ok:
            return
        o, args, kw = e['parent'][0]
        sp = kw.get('span', args[0] if args else None)
        ctx.prove(z3.BoolVal(o is e['obj'] and sp is e['span']), 'parent_reindex_is_given_this_object_and_the_new_span', 'ensures')
        names = e['result'].fields['names']
        ctx.prove(z3.BoolVal([n for _, n, _ in e['sets']] == list(names) and all(t is e['result'] for t, _, _ in e['sets'])),
                  'every_variable_of_the_result_is_assigned_exactly_once_in_the_result_and_nothing_else_is', 'ensures', note=str([n for _, n, _ in e['sets']]))
        for tgt, name, val in e['sets']:
            src = val[1] if isinstance(val, tuple) and len(val) == 2 and val[0] == 'values-of' else None
            okv = isinstance(src, GhostSeries) and src.made is not None and src.reindexed is not None
            ctx.prove(z3.BoolVal(okv), f'{name}:assigned_the_values_of_a_reindexed_Series', 'ensures')
            if not okv:
                continue
            margs, mkw = src.made
            data = margs[0] if margs else mkw.get('data')
            idx = mkw.get('index', margs[1] if len(margs) > 1 else None)
            ctx.prove(z3.BoolVal(data == ('data-of', name) and idx is e['old_span']), f'{name}:the_Series_holds_this_variable_of_the_original_indexed_by_the_old_span', 'ensures')
            rargs, rkw = src.reindexed
            new = rkw.get('index', rargs[0] if rargs else None)
            ctx.prove(z3.BoolVal(new is e['span'] or (isinstance(new, list) and new == e['span'])), f'{name}:reindexed_to_the_new_span', 'ensures')
            ctx.prove(z3.BoolVal(rkw.get('method') is None and rkw.get('limit') is None and rkw.get('tolerance') is None),
                      f'{name}:no_fill_method_limit_or_tolerance_on_default_arguments', 'ensures')
            fv = rkw.get('fill_value')
            want = e['kw'][name] if name in e['kw'] else e['kw'].get('fill_value')
            ctx.prove(z3.BoolVal(fv is want), f'{name}:fill_is_the_keyword_of_that_variable_if_given_(also_a_falsy_one)_else_fill_value', 'ensures', note=f'{fv!r} vs {want!r}')
        ctx.prove(z3.BoolVal(e['obj'].fields['names'] == ['X', 'Y'] and e['obj'].fields['span'] is e['old_span'] and e['old_span'] == ['a', 'b']),
                  'original_object_unchanged', 'frame')
        ctx.cover('returned')


CONTRACTS.append(PandasMixinReindex())
