"""C13 - effect contract of parse_model / build_model, decided on the ast of the real functions (no execution).

"Parsing and building never execute the model's statements": an `exec` / `eval` whose argument derives from statement
text is an opaque effectful external that may do anything and raise anything; the only handlers around it are the ones
visible in the source.  build_model's exec of the *class definition* defines the class (its `_evaluate` body is not run).
"""
from __future__ import annotations

import ast
import time

import z3

from pyvc.contracts import FunctionReport
from pyvc.ctx import Ctx
from pyvc.extract import get_function


class ParserEffects:
    qualname = 'fsic.parser.parse_model+build_model/effects'
    props = ('C13',)
    regions = {'always': lambda inputs, ob: z3.BoolVal(True)}

    def scenarios(self):
        return ['lemma']

    def custom_generate(self, scen):
        rep = FunctionReport(qualname=self.qualname)
        t0 = time.time()
        ctx = Ctx(scenario=scen)
        ctx.current_fn = self.qualname
        ctx.default_props = self.props
        ctx.inputs = {}
        pm = get_function('fsic.parser.parse_model')
        bm = get_function('fsic.parser.build_model')
        import hashlib
        rep.sha256 = hashlib.sha256((pm.sha256() + bm.sha256()).encode()).hexdigest()

        def calls(node, names):
            return [n for n in ast.walk(node) if isinstance(n, ast.Call) and isinstance(n.func, ast.Name) and n.func.id in names]
        # parse_model: exec of a translated statement
        ex = calls(pm.node, ('exec', 'eval'))
        statement_exec = []
        for c in ex:
            arg = c.args[0] if c.args else None
            # the argument is statement code when it is (derived from) Symbol.code of the parsed statement
            statement_exec.append(ast.unparse(c))
        ctx.prove(z3.BoolVal(not statement_exec), 'parse_model_does_not_execute_statement_text', 'effects', assume_after=False,
                  note='; '.join(statement_exec))
        # whatever that exec does, name bindings of the executed text must not land in a live namespace: inside a function, exec(text) alone
        # binds into a throw-away snapshot of the locals; an explicit globals()/module dictionary/live mapping would make them permanent
        def throwaway(a):
            return (isinstance(a, ast.Dict) and not a.keys) or (isinstance(a, ast.Call) and isinstance(a.func, ast.Name) and a.func.id == 'dict' and not a.args and not a.keywords)
        live = [ast.unparse(c) for c in ex if c.keywords or not all(throwaway(a) for a in c.args[1:])]
        ctx.prove(z3.BoolVal(not live), 'name_bindings_of_executed_statement_text_cannot_reach_a_live_namespace', 'effects', assume_after=False, note='; '.join(live))
        decorated = [ast.unparse(d) for f in (pm, bm) for d in getattr(f.node, 'decorator_list', [])]
        ctx.prove(z3.BoolVal(not decorated), 'parse_model_and_build_model_are_plain_functions_(no_memoising_decorator_between_caller_and_result)', 'effects', assume_after=False,
                  note='; '.join(decorated))
        # handlers around that exec: which exception classes can escape
        escaping = True
        for n in ast.walk(pm.node):
            if isinstance(n, ast.Try) and any(c in ast.walk(n) for c in ex):
                caught = set()
                for h in n.handlers:
                    if h.type is None:
                        caught.add('BaseException')
                    else:
                        for t in ([h.type] if not isinstance(h.type, ast.Tuple) else h.type.elts):
                            caught.add(ast.unparse(t))
                escaping = not ({'Exception', 'BaseException'} & caught)
        ctx.prove(z3.BoolVal(not (statement_exec and escaping)), 'no_exception_of_executed_statement_text_can_escape_parse_model', 'raises', assume_after=False,
                  note='handlers around exec catch only a few classes')
        # build_model: exec only of the class definition text produced by build_model_definition; SyntaxError becomes BuildError
        bex = calls(bm.node, ('exec', 'eval'))
        ok = all(isinstance(c.args[0], (ast.Name, ast.Call)) for c in bex)
        ctx.prove(z3.BoolVal(ok and len(bex) >= 1), 'build_model_executes_only_class_definition_text', 'effects', assume_after=False, note='; '.join(ast.unparse(c) for c in bex))
        has_build_error = any(isinstance(n, ast.Raise) and 'BuildError' in ast.unparse(n) for n in ast.walk(bm.node))
        ctx.prove(z3.BoolVal(has_build_error), 'syntax_errors_of_the_class_text_become_BuildError', 'raises', assume_after=False)
        rep.obligations = list(ctx.obligations)
        rep.paths = 1
        rep.scenarios[scen] = {'paths': 1}
        rep.seconds = time.time() - t0
        return rep


CONTRACTS = [ParserEffects()]
