"""C15 - fsic.parser.build_model: the class it returns is the class defined by build_model_definition's text for the *same* options.

build_model_definition is replaced by a recording contract (its own contract is proved in c03_symbols / c15); exec is an opaque external
that defines `Model` in the mapping it is given (or raises SyntaxError).  Obligations: every option is forwarded unchanged, exactly one
definition text is produced for the class that is returned, that text is what is executed, and it is stored as the class's CODE.
"""
from __future__ import annotations

import builtins as _b

import z3

from pyvc.contracts import Call, FunctionContract
from pyvc.interp import PyRaise, exc_class
from pyvc.values import BOOL, INT, SBool, SInt, SObj


class BuildModel(FunctionContract):
    qualname = 'fsic.parser.build_model'
    props = ('C15',)
    required_covers = ('returned',)

    def scenarios(self):
        return ['all-options', 'defaults', 'syntax-error']

    def setup(self, interp, scenario):
        import pyvc.libspec as L
        ctx = interp.ctx
        e = {'scenario': scenario, 'definition_calls': [], 'exec_calls': []}

        class Sym_:                      # a symbol: only its identity and `equation` matter here
            def __init__(self, equation):
                self.equation = equation
        e['symbols'] = [Sym_('Y = X'), Sym_(None)]
        e['converter'] = object()
        e['opts'] = {}
        if scenario != 'defaults':
            e['opts'] = {'lags': SInt(ctx.fresh('lags', INT)), 'leads': SInt(ctx.fresh('leads', INT)), 'min_lags': SInt(ctx.fresh('min_lags', INT)),
                         'min_leads': SInt(ctx.fresh('min_leads', INT)), 'converter': e['converter'], 'with_type_hints': SBool(ctx.fresh('with_type_hints', BOOL))}
        e['inputs'] = {k: v.e for k, v in e['opts'].items() if hasattr(v, 'e')}

        class Model:                    # what executing the text defines
            CODE = None
        e['Model'] = Model
        texts = []

        def definition(interp_, o, args, kwargs, node):
            t = f'<definition text #{len(texts)}>'
            texts.append(t)
            e['definition_calls'].append((list(args), dict(kwargs), t))
            return t

        def exec_model(interp_, args, kwargs, node):
            e['exec_calls'].append(list(args))
            if scenario == 'syntax-error':
                raise PyRaise(SyntaxError('invalid syntax'))
            if len(args) >= 3 and isinstance(args[2], dict):
                args[2]['Model'] = Model
            elif len(args) == 2 and isinstance(args[1], dict):
                args[1]['Model'] = Model
            return None
        exec_model.always = True
        L._MODELS[_b.exec] = exec_model
        interp.registry.set_calls({'fsic.parser.build_model_definition': definition})
        import fsic.parser as _fp
        e['module_names'] = set(vars(_fp))
        return Call([e['symbols']], dict(e['opts']), entry=e)

    def post(self, interp, scenario, call, out):
        ctx = interp.ctx
        e = call.entry
        dc, ec = e['definition_calls'], e['exec_calls']
        import fsic.parser as _fp
        new_names = sorted(set(vars(_fp)) - e['module_names'])
        for nm in new_names:
            delattr(_fp, nm)            # (the module is the real one: undo, so that the next path starts clean)
        ctx.prove(z3.BoolVal(not new_names), 'building_a_class_binds_nothing_in_the_parser_module', 'frame', props=('C15', 'C13'), note=str(new_names))
        ctx.prove(z3.BoolVal(len(dc) >= 1), 'definition_text_is_built_by_build_model_definition', 'ensures')
        if not dc:
            return
        args, kw, text = dc[0]
        ctx.prove(z3.BoolVal(len(args) == 1 and args[0] is e['symbols']), 'symbols_forwarded_unchanged', 'pre-at-call')
        defaults = {'lags': None, 'leads': None, 'min_lags': 0, 'min_leads': 0, 'converter': None, 'with_type_hints': True}
        for k, dv in defaults.items():
            given = e['opts'].get(k, dv)
            got = kw.get(k, '<not passed>')
            if hasattr(given, 'e'):
                ok = z3.BoolVal(False) if not hasattr(got, 'e') else got.e == given.e
            else:
                ok = z3.BoolVal(got is given or (got == '<not passed>' and given is dv and k != 'with_type_hints') or (k == 'with_type_hints' and got == '<not passed>' and given is True))
            ctx.prove(ok, f'option_{k}_forwarded_unchanged', 'pre-at-call', note=str(got)[:60])
        ctx.prove(z3.BoolVal(set(kw) <= set(defaults)), 'no_other_option_is_invented', 'pre-at-call', note=str(sorted(set(kw) - set(defaults))))
        ctx.prove(z3.BoolVal(len(ec) >= 1 and ec[0][0] == text), 'the_text_executed_is_the_definition_text', 'ensures')
        if out.kind == 'raise':
            from fsic.exceptions import BuildError
            ctx.prove(z3.BoolVal(scenario == 'syntax-error' and exc_class(out.exc) in (BuildError, SyntaxError)), 'only_a_syntax_error_of_the_text_makes_build_model_raise', 'raises')
            return
        ctx.cover('returned')
        ctx.prove(z3.BoolVal(out.value is e['Model']), 'returns_the_class_defined_by_the_text', 'ensures')
        ctx.prove(z3.BoolVal(e['Model'].CODE == text), 'CODE_is_the_definition_text_of_the_returned_class', 'ensures', note=str(e['Model'].CODE))


CONTRACTS = [BuildModel()]
