"""C15 syntactic lemma: MODEL_TEMPLATE_TYPED and MODEL_TEMPLATE_UNTYPED (read from the source on every run) are the same
program after annotation erasure, with the {equations} slot and every other field in the same position.

Consequence (all programs): for every equations block and every field values, the typed and untyped class texts denote
the same class body, so "variants with and without type hints are behaviourally identical" needs no enumeration.
"""
from __future__ import annotations

import ast
import time

import z3

from pyvc.contracts import FunctionReport
from pyvc.ctx import Ctx


class TemplateLemma:
    qualname = 'fsic.parser.MODEL_TEMPLATE_TYPED~MODEL_TEMPLATE_UNTYPED'
    props = ('C15', 'C03')

    def scenarios(self):
        return ['lemma']

    @staticmethod
    def _erased(template: str):
        fields = dict(endogenous="['__E__']", exogenous="['__X__']", parameters="['__P__']", errors="['__R__']",
                      lags='__LAGS__', leads='__LEADS__', equations='        __EQUATIONS__')
        text = template.format(**fields)
        tree = ast.parse(text)
        for n in ast.walk(tree):
            if isinstance(n, ast.FunctionDef):
                n.returns = None
                for a in n.args.args + n.args.kwonlyargs + ([n.args.kwarg] if n.args.kwarg else []) + ([n.args.vararg] if n.args.vararg else []):
                    a.annotation = None
        # annotated assignments become plain assignments
        class T(ast.NodeTransformer):
            def visit_AnnAssign(self, n):
                return ast.copy_location(ast.Assign(targets=[n.target], value=n.value), n)
        tree = ast.fix_missing_locations(T().visit(tree))
        return ast.dump(tree, include_attributes=False), text

    def custom_generate(self, scen):
        import fsic.parser as fp
        rep = FunctionReport(qualname=self.qualname)
        t0 = time.time()
        ctx = Ctx(scenario=scen)
        ctx.current_fn = self.qualname
        ctx.default_props = self.props
        import hashlib
        rep.sha256 = hashlib.sha256((fp.MODEL_TEMPLATE_TYPED + fp.MODEL_TEMPLATE_UNTYPED).encode()).hexdigest()
        try:
            a, ta = self._erased(fp.MODEL_TEMPLATE_TYPED)
            b, tb = self._erased(fp.MODEL_TEMPLATE_UNTYPED)
            ctx.prove(z3.BoolVal(a == b), 'templates_equal_after_annotation_erasure', 'lemma', assume_after=False,
                      note='every {field} (names lists, lags, leads, equations) sits in the same syntactic position of the same class body')
            for f in ('{endogenous}', '{exogenous}', '{parameters}', '{errors}', '{lags}', '{leads}', '{equations}'):
                ctx.prove(z3.BoolVal(fp.MODEL_TEMPLATE_TYPED.count(f) == 1 and fp.MODEL_TEMPLATE_UNTYPED.count(f) == 1),
                          f'field_{f}_occurs_exactly_once_in_both_templates', 'lemma', assume_after=False)
            # each class attribute is filled from the field of its own name (LAGS from {lags}, LEADS from {leads}, the four name lists likewise)
            for label, text in (('typed', ta), ('untyped', tb)):
                tree = ast.parse(text)
                cls = next((n for n in tree.body if isinstance(n, ast.ClassDef)), None)
                got = {}
                for st in (cls.body if cls else []):
                    tgt = st.target if isinstance(st, ast.AnnAssign) else (st.targets[0] if isinstance(st, ast.Assign) and len(st.targets) == 1 else None)
                    if isinstance(tgt, ast.Name) and st.value is not None:
                        got[tgt.id] = ast.unparse(st.value)
                want = {'ENDOGENOUS': "['__E__']", 'EXOGENOUS': "['__X__']", 'PARAMETERS': "['__P__']", 'ERRORS': "['__R__']", 'LAGS': '__LAGS__', 'LEADS': '__LEADS__'}
                for k_, v_ in want.items():
                    ctx.prove(z3.BoolVal(got.get(k_) == v_), f'{label}_template:class_attribute_{k_}_is_filled_from_its_own_field', 'lemma', assume_after=False, note=str(got.get(k_)))
                ctx.prove(z3.BoolVal(got.get('NAMES') == 'ENDOGENOUS + EXOGENOUS + PARAMETERS + ERRORS' and got.get('CHECK') == 'ENDOGENOUS'),
                          f'{label}_template:NAMES_is_the_four_classes_in_order_and_CHECK_is_ENDOGENOUS', 'lemma', assume_after=False, note=f"{got.get('NAMES')} / {got.get('CHECK')}")
            ctx.prove(z3.BoolVal(fp.MODEL_TEMPLATE_TYPED.rstrip().endswith('{equations}\\'.rstrip('\\')) or fp.MODEL_TEMPLATE_TYPED.endswith('{equations}')),
                      'equations_slot_is_last_in_typed_template', 'lemma', assume_after=False)
            ctx.prove(z3.BoolVal(fp.MODEL_TEMPLATE_UNTYPED.endswith('{equations}')), 'equations_slot_is_last_in_untyped_template', 'lemma', assume_after=False)
        except SyntaxError as ex:
            ctx.prove(z3.BoolVal(False), f'templates_are_python_syntax:{ex}', 'lemma', assume_after=False)
        rep.obligations = list(ctx.obligations)
        rep.paths = 1
        rep.scenarios[scen] = {'paths': 1}
        rep.seconds = time.time() - t0
        return rep


CONTRACTS = [TemplateLemma()]
