"""C16 - time-series helpers in fsic/functions.py: shift, lag, lead, diff against their definitions."""
from __future__ import annotations

import z3

from pyvc import values as V
from pyvc.contracts import Call, FunctionContract, Outcome
from pyvc.interp import exc_class
from pyvc.values import F64, INT, SArr, SFloat, SInt, SObj, forall_range


def _inputs(interp, with_p='p'):
    ctx = interp.ctx
    n = ctx.fresh('n', INT)
    ctx.assume(n >= 0)
    xdata = ctx.fresh('x', z3.ArraySort(INT, F64))
    x = SArr(n, xdata, 'float', prov='borrowed')
    p = ctx.fresh(with_p, INT)
    fill = ctx.fresh('fill_value', F64)
    return n, xdata, x, p, fill


def shift_spec(xdata, n, p, fill, i):
    """lag(x, p)[i] = x[i - p] where i - p lies inside the array and fill_value elsewhere."""
    return z3.If(z3.And(0 <= i - p, i - p < n), z3.Select(xdata, i - p), fill)


class ShiftContract(FunctionContract):
    qualname = 'fsic.functions.shift'
    props = ('C16',)

    def scenarios(self):
        return ['1d']

    def setup(self, interp, scenario):
        n, xdata, x, p, fill = _inputs(interp)
        return Call([x, SInt(p)], {'fill_value': SFloat(fill)}, entry=dict(n=n, xdata=xdata, x=x, p=p, fill=fill,
                                                                        inputs={'n': n, 'p': p}))

    def post(self, interp, scenario, call, out):
        ctx = interp.ctx
        e = call.entry
        n, xdata, x, p, fill = e['n'], e['xdata'], e['x'], e['p'], e['fill']
        ctx.prove(out.kind == 'return', 'no_exception_for_1d_input', 'raises')
        if out.kind != 'return':
            return
        r = out.value
        ctx.prove(isinstance(r, SArr), 'returns_array', 'ensures')
        ctx.prove(r.length == n, 'result_has_input_length', 'ensures')
        ctx.prove(forall_range(0, n, lambda i: z3.Select(r.arr, i) == shift_spec(xdata, n, p, fill, i)),
                  'result_is_shift_of_input', 'ensures')
        ctx.prove(forall_range(0, n, lambda i: z3.Select(x.arr, i) == z3.Select(xdata, i)),
                  'input_not_modified', 'frame')
        ctx.cover('shift:p>0' if ctx._feasible(p > 0) else 'shift:other')


class LagContract(ShiftContract):
    qualname = 'fsic.functions.lag'


class LeadContract(FunctionContract):
    qualname = 'fsic.functions.lead'
    props = ('C16',)

    def setup(self, interp, scenario):
        n, xdata, x, p, fill = _inputs(interp)
        return Call([x, SInt(p)], {'fill_value': SFloat(fill)}, entry=dict(n=n, xdata=xdata, x=x, p=p, fill=fill,
                                                                        inputs={'n': n, 'p': p}))

    def post(self, interp, scenario, call, out):
        ctx = interp.ctx
        e = call.entry
        n, xdata, x, p, fill = e['n'], e['xdata'], e['x'], e['p'], e['fill']
        ctx.prove(out.kind == 'return', 'no_exception_for_1d_input', 'raises')
        if out.kind != 'return':
            return
        r = out.value
        ctx.prove(r.length == n, 'result_has_input_length', 'ensures')
        ctx.prove(forall_range(0, n, lambda i: z3.Select(r.arr, i) == shift_spec(xdata, n, -p, fill, i)),
                  'lead_is_lag_of_minus_p', 'ensures')
        ctx.prove(forall_range(0, n, lambda i: z3.Select(x.arr, i) == z3.Select(xdata, i)), 'input_not_modified', 'frame')


class DiffContract(FunctionContract):
    qualname = 'fsic.functions.diff'
    props = ('C16',)

    def setup(self, interp, scenario):
        n, xdata, x, d, fill = _inputs(interp, 'd')
        ctx = interp.ctx
        e = dict(n=n, xdata=xdata, x=x, d=d, fill=fill, inputs={'n': n, 'd': d}, lag_calls=[])

        def lag_contract(interp_, o, args, kwargs, node):
            # the caller is checked against lag's contract (proved above), not its body: a fresh array with lag(x, p)[i] = x[i - p] inside,
            # the fill value it was given (NaN by default) elsewhere
            arr = args[0]
            p_ = V.to_int_term(args[1]) if len(args) > 1 else V.to_int_term(kwargs.get('p', 1))
            fv = kwargs.get('fill_value', float('nan'))
            e['lag_calls'].append((arr, p_, fv))
            fterm = V.to_float_term(fv)
            rdata = ctx.fresh('lagged', z3.ArraySort(INT, F64))
            src = arr.arr
            i = z3.Int('i!lag')
            ctx.assume(z3.ForAll([i], z3.Implies(z3.And(0 <= i, i < arr.length), z3.Select(rdata, i) == shift_spec(src, arr.length, p_, fterm, i))))
            return SArr(arr.length, rdata, 'float', prov='owned')
        interp.registry.set_calls({'fsic.functions.lag': lag_contract})
        return Call([x, SInt(d)], {'fill_value': SFloat(fill)}, entry=e)

    def post(self, interp, scenario, call, out):
        ctx = interp.ctx
        e = call.entry
        n, xdata, x, d, fill = e['n'], e['xdata'], e['x'], e['d'], e['fill']
        from pyvc.interp import exc_class
        if out.kind == 'raise':
            ctx.prove(z3.And(d < 0, exc_class(out.exc) is NotImplementedError), 'only_negative_d_raises_NotImplementedError', 'raises')
            return
        ctx.prove(d >= 0, 'negative_d_is_rejected', 'raises')
        r = out.value
        # whatever helper computes the lagged series is handed the caller's fill value (an integer series cannot hold the default NaN)
        for arr_, p_, fv_ in e['lag_calls']:
            same = V.is_sym(fv_) and z3.eq(V.z3_of(fv_), fill)
            ctx.prove(z3.BoolVal(bool(same)), 'fill_value_is_passed_on_to_lag', 'pre-at-call')
        ctx.prove(r.length == n, 'result_has_input_length', 'ensures')
        spec = lambda i: z3.If(i >= d, z3.fpSub(V.RNE, z3.Select(xdata, i), z3.Select(xdata, i - d)), fill)  # noqa: E731
        # d == 0: x - x[i-0] is not what the code returns (it returns x itself); the property's formula is for i >= d >= 0 with
        # x[i] - x[i-0] = 0 only for finite x; the statement "diff(x,d)[i] = x[i] - x[i-d] for i >= d >= 0" at d = 0 would give
        # x - x.  The code's `d == 0 -> x` is documented ("No differencing"); the clause is stated for d >= 1 and d == 0 separately.
        ctx.prove(z3.Implies(d >= 1, forall_range(0, n, lambda i: z3.Select(r.arr, i) == spec(i))),
                  'result_is_difference_for_d>=1', 'ensures')
        ctx.prove(z3.Implies(d == 0, forall_range(0, n, lambda i: z3.Select(r.arr, i) == z3.Select(xdata, i))),
                  'd==0_returns_input_values', 'ensures')
        ctx.prove(forall_range(0, n, lambda i: z3.Select(x.arr, i) == z3.Select(xdata, i)), 'input_not_modified', 'frame')


CONTRACTS = [ShiftContract(), LagContract(), LeadContract(), DiffContract()]


# ---------------------------------------------------------------------------------------------------------------
# VectorContainer.eval: assembly of the evaluation namespace (precedence, no mutation of the package table)
# ---------------------------------------------------------------------------------------------------------------
class EvalNamespace(FunctionContract):
    """eval() hands Python's eval an expression and a locals mapping in which caller-supplied locals override variables, which override the
    built-in helpers; the package-level helper table is deep-copied, never written; NameError becomes AttributeError naming the name."""
    qualname = 'fsic.core.containers.VectorContainer.eval'
    props = ('C16',)

    def scenarios(self):
        return ['plain', 'with-locals', 'custom-builtins', 'name-error', 'name-error-no-suggestion', 'name-error-two-suggestions', 'backtick']

    def setup(self, interp, scenario):
        import builtins as _b
        import fsic.functions as F
        from fsic.core.containers import VectorContainer
        from pyvc.interp import PyRaise
        from pyvc.values import SExc, SObj, SStr
        ctx = interp.ctx
        e = {'scenario': scenario, 'eval_calls': [], 'resolve_calls': []}
        # a variable named like a helper ('lag') and one named like nothing else
        series = {'X': object(), 'lag': object(), '_s': object()}
        e['series'] = series
        obj = SObj(VectorContainer, {'index': ['X', 'lag', '_s'], 'span': [1, 2]}, label='c')
        e['table_before'] = dict(F.builtins)
        e['table_id'] = id(F.builtins)

        def getitem(interp_, o, args, kwargs, node):
            return series[args[0]]

        def resolve(interp_, o, args, kwargs, node):
            e['resolve_calls'].append(args[0])
            return 'RESOLVED'

        def closest(interp_, o, args, kwargs, node):
            e['closest_arg'] = args[0]
            return ['X'] if scenario == 'name-error' else ['x', 'X'] if scenario == 'name-error-two-suggestions' else []      # one, several or no close names

        class EvalSpec:
            def vc_call(self_, interp_, args, kwargs, node):
                e['eval_calls'].append(list(args))
                if scenario.startswith('name-error'):
                    exc = NameError("name 'Q' is not defined", name='Q')
                    raise PyRaise(exc)
                return 'RESULT'
        interp.registry.set_calls({'fsic.core.containers.VectorContainer.__getitem__': getitem,
                                   'fsic.core.containers.VectorContainer._resolve_expression_indexes': resolve,
                                   'fsic.core.containers.VectorContainer.get_closest_match': closest})
        # the builtin eval is replaced by a recording contract (opaque effectful external)
        import pyvc.libspec as L
        L._MODELS[_b.eval] = lambda interp_, a, k, n: EvalSpec().vc_call(interp_, a, k, n)
        L._MODELS[_b.eval].always = True
        e['locals'] = {'X': object(), 'k': 2} if scenario == 'with-locals' else None
        e['builtins'] = {'lag': object(), 'mine': object()} if scenario == 'custom-builtins' else None
        kw = {}
        if e['locals'] is not None:
            kw['locals'] = e['locals']
        if e['builtins'] is not None:
            kw['builtins'] = e['builtins']
        e['expr'] = 'X[`1`] + lag + _s' if scenario == 'backtick' else 'X + lag + _s'
        return Call([e['expr']], kw, self_obj=obj, entry=e)

    def post(self, interp, scenario, call, out):
        import fsic.functions as F
        from pyvc.interp import exc_class
        ctx = interp.ctx
        e = call.entry
        ctx.prove(z3.BoolVal(id(F.builtins) == e['table_id'] and dict(F.builtins) == e['table_before']), 'package_level_helper_table_is_not_altered', 'frame', props=('C16', 'C11'))
        ctx.prove(z3.BoolVal(len(e['eval_calls']) == 1), 'expression_evaluated_exactly_once', 'ensures')
        if not e['eval_calls']:
            return
        args = e['eval_calls'][0]
        expr, ns = args[0], args[2] if len(args) > 2 else None
        if scenario == 'backtick':
            ctx.prove(z3.BoolVal(e['resolve_calls'] == [e['expr']] and expr == 'RESOLVED'), 'backticked_expression_is_rewritten_before_evaluation', 'ensures')
        else:
            ctx.prove(z3.BoolVal(expr == e['expr'] and not e['resolve_calls']), 'expression_without_backticks_is_evaluated_unchanged', 'ensures')
        ok = isinstance(ns, dict)
        ctx.prove(z3.BoolVal(ok), 'evaluation_namespace_is_a_mapping', 'ensures')
        if ok:
            ctx.prove(z3.BoolVal(ns is not F.builtins), 'namespace_is_not_the_package_level_table_itself', 'own', props=('C16', 'C11'))
            want = dict(e['builtins']) if e['builtins'] is not None else dict(F.builtins)
            want.update(e['series'])
            if e['locals'] is not None:
                want.update(e['locals'])
            same = set(ns) == set(want) and all(ns[k] is want[k] or (k in F.builtins and e['builtins'] is None and k not in e['series'] and (e['locals'] is None or k not in e['locals']))
                                                for k in want)
            ctx.prove(z3.BoolVal(same), 'caller_locals_override_variables_which_override_the_helpers', 'ensures',
                      note=str({k: ('series' if ns.get(k) is e['series'].get(k) else 'other') for k in ('X', 'lag') if k in ns}))
        if out.kind == 'raise':
            ctx.prove(z3.BoolVal(scenario.startswith('name-error') and exc_class(out.exc) is AttributeError and e.get('closest_arg') == 'Q'),
                      'undefined_name_is_reported_as_AttributeError_naming_it', 'raises')
        else:
            ctx.prove(z3.BoolVal(not scenario.startswith('name-error') and out.value == 'RESULT'), 'returns_what_eval_computes', 'ensures')


CONTRACTS.append(EvalNamespace())


# ---------------------------------------------------------------------------------------------------------------
# VectorContainer._resolve_expression_indexes: backticked labels -> positions, everything positional left as it is
# ---------------------------------------------------------------------------------------------------------------
class ResolveIndexes(FunctionContract):
    """_resolve_expression_indexes(expression) rewrites every bracketed index: a backticked label becomes the position that label indexing
    selects (looked up through the span look-up), a label slice is closed on the right (stop label's position + 1), purely positional parts
    (plain integers, including 0 and negative ones, omitted bounds, the step) keep their text and therefore their ordinary Python meaning;
    the container itself is not altered (nothing is stored on it).  Expressions are enumerated; the span look-up is the assumed contract."""
    qualname = 'fsic.core.containers.VectorContainer._resolve_expression_indexes'
    props = ('C16',)

    SPAN = [2000, 2001, 2002, 2003, 2004]
    # expression -> the same expression with positions (as the statement prescribes), or an exception class
    CASES = {
        'X[`2001`]': 'X[1]', 'X[`2000`] + Y[`2004`]': 'X[0] + Y[4]', 'X[`2001`:`2003`]': 'X[1:4:]', 'X[`2001`:`2003`:2]': 'X[1:4:2]', 'X[:`2002`]': 'X[:3:]',
        'X[`2003`:]': 'X[3::]', 'X[`2000`:`2000`]': 'X[0:1:]', 'X[1] + Y[`2002`]': 'X[1] + Y[2]', 'X[-1] + Y[`2002`]': 'X[-1] + Y[2]',
        'X[1:3] + Y[`2002`]': 'X[1:3:] + Y[2]', 'X[:0] + Y[`2002`]': 'X[:0:] + Y[2]', 'X[4:0:-1] + Y[`2002`]': 'X[4:0:-1] + Y[2]', 'X[0:2] + Y[`2002`]': 'X[0:2:] + Y[2]',
        'X[::2] + Y[`2002`]': 'X[::2] + Y[2]', 'X[-3:-1] + Y[`2002`]': 'X[-3:-1:] + Y[2]', 'X[`2001`:3]': 'X[1:3:]', 'X[1:`2003`]': 'X[1:4:]',
        'X[ `2001` ]': 'X[1]', '(X + Y)[`2001`]': '(X + Y)[1]', 'lag(X)[`2001`:`2003`]': 'lag(X)[1:4:]', 'lag(X, 2)[`2000`] + (Y)[:`2001`]': 'lag(X, 2)[0] + (Y)[:2:]', 'X[`1999`]': KeyError, 'X[`abc`]': KeyError, 'X[`2001`:`2002`:1:2]': ValueError, 'X + Y': 'X + Y',
    }

    def scenarios(self):
        return [f'expr{i}' for i in range(len(self.CASES))] + ['twice-then-other-span']

    def setup(self, interp, scenario):
        from fsic.core.containers import VectorContainer
        e = {'scenario': scenario, 'located': []}
        span = list(self.SPAN)
        obj = SObj(VectorContainer, {'span': span, 'index': ['X', 'Y']}, label='c')
        e['obj'] = obj

        def locate(interp_, o, args, kwargs, node):
            lab = args[0]
            e['located'].append(lab)
            if lab in o.fields['span']:
                return o.fields['span'].index(lab)
            from pyvc.interp import PyRaise
            from pyvc.values import SExc
            raise PyRaise(SExc(KeyError, origin='locate'))
        interp.registry.set_calls({'fsic.core.containers.VectorContainer._locate_period_in_span': locate})
        if scenario == 'twice-then-other-span':
            expr = 'X[`2001`:`2003`]'
        else:
            expr = list(self.CASES)[int(scenario[4:])]
        e['expr'] = expr
        e['fields_before'] = {k: (list(v) if isinstance(v, list) else v) for k, v in obj.fields.items()}
        if scenario == 'twice-then-other-span':
            # history: the same expression on the same object after its span has changed (as after a reindex that copies the object's state)
            from pyvc.extract import get_function
            fi = get_function(self.qualname)
            e['first'] = interp.call_function(fi, [obj, expr], {}, self_obj=obj)
            obj.fields['span'] = [2001, 2002, 2003, 2004, 2005]
            e['fields_before'] = {k: (list(v) if isinstance(v, list) else v) for k, v in obj.fields.items()}
        e['inputs'] = {}
        return Call([expr], {}, self_obj=obj, entry=e)

    def post(self, interp, scenario, call, out):
        ctx = interp.ctx
        e = call.entry
        fields_now = {k: (list(v) if isinstance(v, list) else v) for k, v in e['obj'].fields.items()}
        ctx.prove(z3.BoolVal(fields_now == e['fields_before']), 'the_container_is_not_altered_(nothing_is_stored_on_it)', 'frame', note=str(sorted(set(fields_now) ^ set(e['fields_before']))))
        if scenario == 'twice-then-other-span':
            ctx.prove(z3.BoolVal(e['first'] == 'X[1:4:]' and out.kind == 'return' and out.value == 'X[0:3:]'), 'positions_follow_the_current_span_on_every_call', 'ensures',
                      note=f"{e['first']} then {getattr(out, 'value', None)}")
            return
        want = self.CASES[e['expr']]
        if out.kind == 'raise':
            ctx.prove(z3.BoolVal(isinstance(want, type) and exc_class(out.exc) is want), 'only_an_unknown_label_or_a_malformed_slice_raises', 'raises', note=getattr(exc_class(out.exc), '__name__', '?'))
            return
        got = out.value
        same = isinstance(want, str) and isinstance(got, str) and _same_indexing(got, want)
        ctx.prove(z3.BoolVal(same), 'labels_become_their_positions_(closed_label_slices)_and_positional_parts_keep_their_python_meaning', 'ensures', note=f'{got!r} vs {want!r}')


def _same_indexing(got: str, want: str) -> bool:
    """Two index expressions select the same elements when every bracket denotes the same index / slice object (blanks and an omitted or empty
    step are spelling)."""
    import re as _re

    def norm(text):
        out = []
        for m in _re.finditer(r'\[([^\]]*)\]', text):
            parts = [p.strip() for p in m.group(1).split(':')]
            if len(parts) == 1:
                out.append(('i', int(parts[0])))
            else:
                parts += [''] * (3 - len(parts))
                out.append(('s',) + tuple(None if p == '' else int(p) for p in parts[:3]))
        return _re.sub(r'\[[^\]]*\]', '[]', text).replace(' ', ''), out
    try:
        return norm(got) == norm(want)
    except ValueError:
        return False


CONTRACTS.append(ResolveIndexes())
