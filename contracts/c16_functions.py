"""C16 - time-series helpers in fsic/functions.py: shift, lag, lead, diff against their definitions."""
from __future__ import annotations

import z3

from pyvc import values as V
from pyvc.contracts import Call, FunctionContract, Outcome
from pyvc.values import F64, INT, SArr, SFloat, SInt, forall_range


def _inputs(interp, with_p='p'):
    ctx = interp.ctx
    n = ctx.fresh('n', INT)
    ctx.assume(n >= 0)
    xdata = ctx.fresh('x', z3.ArraySort(INT, F64))
    x = SArr(n, xdata, 'float', prov='borrowed')
    p = ctx.fresh(with_p, INT)
    fill = ctx.fresh('fill_value', F64)
    return n, xdata, x, p, fill


def shift_spec(xdata, n, p, fill, i):
    """lag(x, p)[i] = x[i - p] where i - p lies inside the array and fill_value elsewhere."""
    return z3.If(z3.And(0 <= i - p, i - p < n), z3.Select(xdata, i - p), fill)


class ShiftContract(FunctionContract):
    qualname = 'fsic.functions.shift'
    props = ('C16',)

    def scenarios(self):
        return ['1d']

    def setup(self, interp, scenario):
        n, xdata, x, p, fill = _inputs(interp)
        return Call([x, SInt(p)], {'fill_value': SFloat(fill)}, entry=dict(n=n, xdata=xdata, x=x, p=p, fill=fill,
                                                                        inputs={'n': n, 'p': p}))

    def post(self, interp, scenario, call, out):
        ctx = interp.ctx
        e = call.entry
        n, xdata, x, p, fill = e['n'], e['xdata'], e['x'], e['p'], e['fill']
        ctx.prove(out.kind == 'return', 'no_exception_for_1d_input', 'raises')
        if out.kind != 'return':
            return
        r = out.value
        ctx.prove(isinstance(r, SArr), 'returns_array', 'ensures')
        ctx.prove(r.length == n, 'result_has_input_length', 'ensures')
        ctx.prove(forall_range(0, n, lambda i: z3.Select(r.arr, i) == shift_spec(xdata, n, p, fill, i)),
                  'result_is_shift_of_input', 'ensures')
        ctx.prove(forall_range(0, n, lambda i: z3.Select(x.arr, i) == z3.Select(xdata, i)),
                  'input_not_modified', 'frame')
        ctx.cover('shift:p>0' if ctx._feasible(p > 0) else 'shift:other')


class LagContract(ShiftContract):
    qualname = 'fsic.functions.lag'


class LeadContract(FunctionContract):
    qualname = 'fsic.functions.lead'
    props = ('C16',)

    def setup(self, interp, scenario):
        n, xdata, x, p, fill = _inputs(interp)
        return Call([x, SInt(p)], {'fill_value': SFloat(fill)}, entry=dict(n=n, xdata=xdata, x=x, p=p, fill=fill,
                                                                        inputs={'n': n, 'p': p}))

    def post(self, interp, scenario, call, out):
        ctx = interp.ctx
        e = call.entry
        n, xdata, x, p, fill = e['n'], e['xdata'], e['x'], e['p'], e['fill']
        ctx.prove(out.kind == 'return', 'no_exception_for_1d_input', 'raises')
        if out.kind != 'return':
            return
        r = out.value
        ctx.prove(r.length == n, 'result_has_input_length', 'ensures')
        ctx.prove(forall_range(0, n, lambda i: z3.Select(r.arr, i) == shift_spec(xdata, n, -p, fill, i)),
                  'lead_is_lag_of_minus_p', 'ensures')
        ctx.prove(forall_range(0, n, lambda i: z3.Select(x.arr, i) == z3.Select(xdata, i)), 'input_not_modified', 'frame')


class DiffContract(FunctionContract):
    qualname = 'fsic.functions.diff'
    props = ('C16',)

    def setup(self, interp, scenario):
        n, xdata, x, d, fill = _inputs(interp, 'd')
        return Call([x, SInt(d)], {'fill_value': SFloat(fill)}, entry=dict(n=n, xdata=xdata, x=x, d=d, fill=fill,
                                                                        inputs={'n': n, 'd': d}))

    def post(self, interp, scenario, call, out):
        ctx = interp.ctx
        e = call.entry
        n, xdata, x, d, fill = e['n'], e['xdata'], e['x'], e['d'], e['fill']
        from pyvc.interp import exc_class
        if out.kind == 'raise':
            ctx.prove(z3.And(d < 0, exc_class(out.exc) is NotImplementedError), 'only_negative_d_raises_NotImplementedError', 'raises')
            return
        ctx.prove(d >= 0, 'negative_d_is_rejected', 'raises')
        r = out.value
        ctx.prove(r.length == n, 'result_has_input_length', 'ensures')
        spec = lambda i: z3.If(i >= d, z3.fpSub(V.RNE, z3.Select(xdata, i), z3.Select(xdata, i - d)), fill)  # noqa: E731
        # d == 0: x - x[i-0] is not what the code returns (it returns x itself); the property's formula is for i >= d >= 0 with
        # x[i] - x[i-0] = 0 only for finite x; the statement "diff(x,d)[i] = x[i] - x[i-d] for i >= d >= 0" at d = 0 would give
        # x - x.  The code's `d == 0 -> x` is documented ("No differencing"); the clause is stated for d >= 1 and d == 0 separately.
        ctx.prove(z3.Implies(d >= 1, forall_range(0, n, lambda i: z3.Select(r.arr, i) == spec(i))),
                  'result_is_difference_for_d>=1', 'ensures')
        ctx.prove(z3.Implies(d == 0, forall_range(0, n, lambda i: z3.Select(r.arr, i) == z3.Select(xdata, i))),
                  'd==0_returns_input_values', 'ensures')
        ctx.prove(forall_range(0, n, lambda i: z3.Select(x.arr, i) == z3.Select(xdata, i)), 'input_not_modified', 'frame')


CONTRACTS = [ShiftContract(), LagContract(), LeadContract(), DiffContract()]
