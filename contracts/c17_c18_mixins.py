"""C17 TracerMixin wrappers and C18 AliasMixin forwarders: each is "do the extra thing only as specified, then call the
parent with unchanged arguments".  The parent method is replaced by a recording contract (returns / raises freely);
the extra thing (trace_t / alias resolution) is checked against the statement.
"""
from __future__ import annotations

import z3

import fsic
from fsic.extensions import AliasMixin
from fsic.extensions.model import TracerMixin
from pyvc import values as V
from pyvc.contracts import Call, FunctionContract
from pyvc.ctx import OutOfSubset
from pyvc.interp import PyRaise, exc_class
from pyvc.libspec import A
from pyvc.values import ANY_EXCEPTION, BOOL, INT, STR, SBool, SExc, SInt, SObj, SStr


class _Base(fsic.BaseModel):
    ENDOGENOUS = ['Y']
    NAMES = ENDOGENOUS


class Traced(TracerMixin, _Base):
    pass


TRACE_ARGS = {'none': None, 'false': False, 'true': True, 'name': 'Y', 'list': ['Y'], 'empty-list': []}


class TracerWrapper(FunctionContract):
    """One contract per wrapped method: trace_t is called only when `trace` is truthy, with the documented label, on the
    documented side of the parent call; the parent is called exactly once with the same arguments; its result/exception
    is passed through."""
    props = ('C17',)

    SPEC = {
        'solve_t': dict(parent='fsic.core.models.BaseModel.solve_t', before=['start'], after=[], returns=True),
        'solve_t_before': dict(parent='fsic.core.models.BaseModel.solve_t_before', before=['before'], after=[0], returns=False),
        'solve_t_after': dict(parent='fsic.core.models.BaseModel.solve_t_after', before=[], after=['end'], returns=False),
        '_evaluate': dict(parent='fsic.core.models.BaseModel._evaluate', before=[], after=['<iteration>'], returns=False),
    }

    def __init__(self, method):
        self.method = method
        self.qualname = f'fsic.extensions.model.TracerMixin.{method}'

    def scenarios(self):
        return [f'{k}/{r}' for k in TRACE_ARGS for r in ('reset', 'noreset')]

    def setup(self, interp, scenario):
        ctx = interp.ctx
        tk, rk = scenario.split('/')
        trace = TRACE_ARGS[tk]
        reset = rk == 'reset'
        obj = SObj(Traced, {}, label='traced')
        t = ctx.fresh('t', INT)
        it = ctx.fresh('iteration', INT)
        extra = ctx.fresh('min_iter', INT)
        e = {'t': t, 'iteration': it, 'trace': trace, 'reset': reset, 'events': [], 'extra': extra, 'inputs': {'t': t, 'iteration': it}}
        spec = self.SPEC[self.method]

        def parent(interp_, o, args, kwargs, node):
            e['events'].append(('parent', list(args), dict(kwargs)))
            if ctx.choose(2, 'parent-raises') == 1:
                exc = SExc(ANY_EXCEPTION, origin='parent')
                e['parent_exc'] = exc
                raise PyRaise(exc)
            if spec['returns']:
                r = SBool(ctx.fresh('parent_result', BOOL))
                e['parent_result'] = r
                return r
            return None

        def trace_t(interp_, o, args, kwargs, node):
            e['events'].append(('trace_t', list(args), dict(kwargs)))
            if ctx.choose(2, 'trace_t-raises') == 1:
                exc = SExc(ANY_EXCEPTION, origin='trace_t')
                e['trace_exc'] = exc
                raise PyRaise(exc)
            return None
        interp.registry.set_calls({spec['parent']: parent, 'fsic.extensions.model.TracerMixin.trace_t': trace_t})
        kw = {'trace': trace, 'reset': reset}
        if self.method != 'solve_t':
            kw['iteration'] = SInt(it)
        kw['min_iter'] = SInt(extra) if self.method == 'solve_t' else kw.pop('min_iter', None) or SInt(extra)
        if self.method != 'solve_t':
            kw.pop('min_iter')
            kw['errors'] = 'raise'
        e['kw'] = dict(kw)
        return Call([SInt(t)], kw, self_obj=obj, entry=e)

    def post(self, interp, scenario, call, out):
        ctx = interp.ctx
        e = call.entry
        spec = self.SPEC[self.method]
        ev = e['events']
        truthy = bool(e['trace'])

        def same_t(a):
            return V.to_int_term(a[0]) == e['t'] if a else z3.BoolVal(False)
        parents = [x for x in ev if x[0] == 'parent']
        traces = [x for x in ev if x[0] == 'trace_t']
        trace_failed = 'trace_exc' in e
        # labels expected so far, given where an exception stopped the method
        want_before = spec['before'] if truthy else []
        want_after = spec['after'] if truthy else []
        labels = [x[1][1] if len(x[1]) > 1 else None for x in traces]

        def label_ok(got, want):
            if want == '<iteration>':
                return V.to_int_term(got) == e['iteration'] if V.kind_of(got) == 'int' else z3.BoolVal(False)
            return z3.BoolVal((not V.is_sym(got)) and got == want and type(got) is type(want))
        if not truthy:
            ctx.prove(z3.BoolVal(not traces), 'with_tracing_off_no_trace_is_written', 'ensures')
        # order: [before labels] parent [after labels]
        order = [x[0] for x in ev]
        ideal = ['trace_t'] * len(want_before) + ['parent'] + ['trace_t'] * len(want_after)
        ctx.prove(z3.BoolVal(order == ideal[:len(order)]), 'snapshots_taken_on_the_documented_side_of_the_parent_call', 'ensures', note=str(order))
        for i, x in enumerate(traces):
            want = (want_before + want_after)[i] if i < len(want_before + want_after) else None
            ctx.prove(z3.And(same_t(x[1]), label_ok(x[1][1], want) if len(x[1]) > 1 and want is not None else z3.BoolVal(False)),
                      f'snapshot_{i}_has_the_documented_label_and_period', 'ensures')
            kw = x[2]
            ctx.prove(z3.BoolVal(kw.get('trace') is e['trace'] or kw.get('trace') == e['trace']) if True else True, f'snapshot_{i}_uses_the_requested_variables', 'ensures')
            ctx.prove(z3.BoolVal(kw.get('reset') is e['reset']), f'snapshot_{i}_forwards_reset', 'ensures')
        if parents:
            p = parents[0]
            okk = []
            okk.append(same_t(p[1]))
            pk = p[2]
            for k, v in e['kw'].items():
                if k not in pk:
                    okk.append(z3.BoolVal(False))
                elif V.is_sym(v):
                    okk.append(V.z3_of(pk[k]) == V.z3_of(v) if V.is_sym(pk[k]) or isinstance(pk[k], (int, str, bool)) else z3.BoolVal(False))
                else:
                    okk.append(z3.BoolVal(pk[k] is v or (pk[k] == v and type(pk[k]) is type(v))))
            okk.append(z3.BoolVal(set(pk) == set(e['kw'])))
            ctx.prove(z3.And(*okk), 'parent_called_with_the_same_arguments', 'ensures')
            ctx.prove(z3.BoolVal(len(parents) == 1), 'parent_called_exactly_once', 'ensures')
        if out.kind == 'raise':
            ctx.prove(z3.BoolVal(out.exc is e.get('parent_exc') or out.exc is e.get('trace_exc')), 'only_exceptions_of_parent_or_snapshot_propagate', 'raises')
            if not truthy:
                ctx.prove(z3.BoolVal(out.exc is e.get('parent_exc')), 'with_tracing_off_only_the_parent_can_raise', 'raises')
            return
        ctx.prove(z3.BoolVal(len(parents) == 1 and len(traces) == len(want_before) + len(want_after)), 'all_snapshots_and_the_parent_call_happen', 'ensures')
        if spec['returns']:
            ctx.prove(z3.BoolVal(out.value is e.get('parent_result')), 'returns_the_parent_result_unchanged', 'ensures')


# ---------------------------------------------------------------------------------------------------------------
class _Aliased(AliasMixin, _Base):
    ALIASES = {'GDP': 'Y', 'out': 'Y', 'inc': 'GDP'}


class AliasForwarder(FunctionContract):
    """__getattr__/__setattr__/__getitem__/__setitem__ of AliasMixin forward with the resolved name and unchanged rest."""
    props = ('C18',)
    PARENTS = {'__getattr__': 'fsic.core.containers.VectorContainer.__getattr__', '__setattr__': 'fsic.core.containers.VectorContainer.__setattr__',
               '__getitem__': 'fsic.core.containers.VectorContainer.__getitem__', '__setitem__': 'fsic.core.containers.VectorContainer.__setitem__'}

    def __init__(self, method):
        self.method = method
        self.qualname = f'fsic.extensions.common.AliasMixin.{method}'

    def scenarios(self):
        if self.method in ('__getitem__', '__setitem__'):
            return ['name', 'name+label', 'name+slice']
        return ['name']

    def setup(self, interp, scenario):
        ctx = interp.ctx
        # instance-level aliases after chain resolution: alias -> variable (no alias is a value)
        aliases = {'GDP': 'Y', 'out': 'Y', 'inc': 'Y', 'cons': 'C'}
        obj = SObj(_Aliased, {'aliases': aliases}, label='aliased')
        name = ctx.fresh('name', STR)
        e = {'name': name, 'aliases': aliases, 'calls': [], 'inputs': {'name': name}}
        e['value'] = SInt(ctx.fresh('value', INT))
        e['label'] = SInt(ctx.fresh('label', INT))

        def parent(interp_, o, args, kwargs, node):
            e['calls'].append((list(args), dict(kwargs)))
            r = SInt(ctx.fresh('parent_result', INT))
            e['result'] = r
            return r
        interp.registry.set_calls({self.PARENTS[self.method]: parent})
        if scenario == 'name':
            key = SStr(name)
        elif scenario == 'name+label':
            key = (SStr(name), e['label'])
        else:
            key = (SStr(name), slice(e['label'], None, 2))
        e['key'] = key
        args = [key] + ([e['value']] if self.method in ('__setattr__', '__setitem__') else [])
        return Call(args, {}, self_obj=obj, entry=e)

    def post(self, interp, scenario, call, out):
        ctx = interp.ctx
        e = call.entry
        if out.kind == 'raise':
            ctx.prove(False, f'no_exception_of_its_own:{getattr(exc_class(out.exc), "__name__", "?")}', 'raises')
            return
        ctx.prove(z3.BoolVal(len(e['calls']) == 1), 'parent_called_exactly_once', 'ensures')
        if len(e['calls']) != 1:
            return
        args, kwargs = e['calls'][0]
        want = e['name']
        for a, v in e['aliases'].items():
            want = z3.If(e['name'] == z3.StringVal(a), z3.StringVal(v), want)
        got_key = args[0] if args else None
        if scenario == 'name':
            ok = V.z3_of(got_key) == want if isinstance(got_key, (SStr, str)) else z3.BoolVal(False)
        else:
            ok = z3.BoolVal(False)
            if isinstance(got_key, tuple) and len(got_key) == 2 and isinstance(got_key[0], (SStr, str)):
                rest_same = got_key[1] is e['key'][1] or (isinstance(got_key[1], slice) and got_key[1] == e['key'][1])
                ok = z3.And(V.z3_of(got_key[0]) == want, z3.BoolVal(bool(rest_same)))
        ctx.prove(ok, 'forwards_the_resolved_name_and_the_unchanged_rest_of_the_key', 'ensures')
        if self.method in ('__setattr__', '__setitem__'):
            ctx.prove(z3.BoolVal(len(args) == 2 and args[1] is e['value']), 'forwards_the_value_unchanged', 'ensures')
        if self.method in ('__getattr__', '__getitem__'):
            ctx.prove(z3.BoolVal(out.value is e.get('result')), 'returns_the_parent_result', 'ensures')


TRACER_CONTRACTS = [TracerWrapper(m) for m in TracerWrapper.SPEC]
ALIAS_CONTRACTS = [AliasForwarder(m) for m in AliasForwarder.PARENTS]
