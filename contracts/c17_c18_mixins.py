"""C17 TracerMixin wrappers and C18 AliasMixin forwarders: each is "do the extra thing only as specified, then call the
parent with unchanged arguments".  The parent method is replaced by a recording contract (returns / raises freely);
the extra thing (trace_t / alias resolution) is checked against the statement.
"""
from __future__ import annotations

import z3

import fsic
from fsic.extensions import AliasMixin
from fsic.extensions.model import TracerMixin
from pyvc import values as V
from pyvc.contracts import Call, FunctionContract
from pyvc.ctx import OutOfSubset
from pyvc.interp import PyRaise, exc_class
from pyvc.libspec import A
from pyvc.values import ANY_EXCEPTION, BOOL, INT, STR, SBool, SExc, SInt, SObj, SStr


class _Base(fsic.BaseModel):
    ENDOGENOUS = ['Y']
    NAMES = ENDOGENOUS


class Traced(TracerMixin, _Base):
    pass


TRACE_ARGS = {'none': None, 'false': False, 'true': True, 'name': 'Y', 'list': ['Y'], 'empty-list': []}


class TracerWrapper(FunctionContract):
    """One contract per wrapped method: trace_t is called only when `trace` is truthy, with the documented label, on the
    documented side of the parent call; the parent is called exactly once with the same arguments; its result/exception
    is passed through."""
    props = ('C17',)

    SPEC = {
        'solve_t': dict(parent='fsic.core.models.BaseModel.solve_t', before=['start'], after=[], returns=True),
        'solve_t_before': dict(parent='fsic.core.models.BaseModel.solve_t_before', before=['before'], after=[0], returns=False),
        'solve_t_after': dict(parent='fsic.core.models.BaseModel.solve_t_after', before=[], after=['end'], returns=False),
        '_evaluate': dict(parent='fsic.core.models.BaseModel._evaluate', before=[], after=['<iteration>'], returns=False),
    }

    def __init__(self, method):
        self.method = method
        self.qualname = f'fsic.extensions.model.TracerMixin.{method}'

    def scenarios(self):
        return [f'{k}/{r}' for k in TRACE_ARGS for r in ('reset', 'noreset')]

    def setup(self, interp, scenario):
        ctx = interp.ctx
        tk, rk = scenario.split('/')
        trace = TRACE_ARGS[tk]
        reset = rk == 'reset'
        obj = SObj(Traced, {}, label='traced')
        t = ctx.fresh('t', INT)
        it = ctx.fresh('iteration', INT)
        extra = ctx.fresh('min_iter', INT)
        e = {'t': t, 'iteration': it, 'trace': trace, 'reset': reset, 'events': [], 'extra': extra, 'inputs': {'t': t, 'iteration': it}}
        spec = self.SPEC[self.method]

        def parent(interp_, o, args, kwargs, node):
            e['events'].append(('parent', list(args), dict(kwargs)))
            if ctx.choose(2, 'parent-raises') == 1:
                exc = SExc(ANY_EXCEPTION, origin='parent')
                e['parent_exc'] = exc
                raise PyRaise(exc)
            if spec['returns']:
                r = SBool(ctx.fresh('parent_result', BOOL))
                e['parent_result'] = r
                return r
            return None

        def trace_t(interp_, o, args, kwargs, node):
            e['events'].append(('trace_t', list(args), dict(kwargs)))
            if ctx.choose(2, 'trace_t-raises') == 1:
                exc = SExc(ANY_EXCEPTION, origin='trace_t')
                e['trace_exc'] = exc
                raise PyRaise(exc)
            return None
        interp.registry.set_calls({spec['parent']: parent, 'fsic.extensions.model.TracerMixin.trace_t': trace_t})
        kw = {'trace': trace, 'reset': reset}
        if self.method != 'solve_t':
            kw['iteration'] = SInt(it)
        kw['min_iter'] = SInt(extra) if self.method == 'solve_t' else kw.pop('min_iter', None) or SInt(extra)
        if self.method != 'solve_t':
            kw.pop('min_iter')
            kw['errors'] = 'raise'
        e['kw'] = dict(kw)
        return Call([SInt(t)], kw, self_obj=obj, entry=e)

    def post(self, interp, scenario, call, out):
        ctx = interp.ctx
        e = call.entry
        spec = self.SPEC[self.method]
        ev = e['events']
        truthy = bool(e['trace'])

        def same_t(a):
            return V.to_int_term(a[0]) == e['t'] if a else z3.BoolVal(False)
        parents = [x for x in ev if x[0] == 'parent']
        traces = [x for x in ev if x[0] == 'trace_t']
        trace_failed = 'trace_exc' in e
        # labels expected so far, given where an exception stopped the method
        want_before = spec['before'] if truthy else []
        want_after = spec['after'] if truthy else []
        labels = [x[1][1] if len(x[1]) > 1 else None for x in traces]

        def label_ok(got, want):
            if want == '<iteration>':
                return V.to_int_term(got) == e['iteration'] if V.kind_of(got) == 'int' else z3.BoolVal(False)
            return z3.BoolVal((not V.is_sym(got)) and got == want and type(got) is type(want))
        if not truthy:
            ctx.prove(z3.BoolVal(not traces), 'with_tracing_off_no_trace_is_written', 'ensures')
        # order: [before labels] parent [after labels]
        order = [x[0] for x in ev]
        ideal = ['trace_t'] * len(want_before) + ['parent'] + ['trace_t'] * len(want_after)
        ctx.prove(z3.BoolVal(order == ideal[:len(order)]), 'snapshots_taken_on_the_documented_side_of_the_parent_call', 'ensures', note=str(order))
        for i, x in enumerate(traces):
            want = (want_before + want_after)[i] if i < len(want_before + want_after) else None
            ctx.prove(z3.And(same_t(x[1]), label_ok(x[1][1], want) if len(x[1]) > 1 and want is not None else z3.BoolVal(False)),
                      f'snapshot_{i}_has_the_documented_label_and_period', 'ensures')
            kw = x[2]
            ctx.prove(z3.BoolVal(kw.get('trace') is e['trace'] or kw.get('trace') == e['trace']) if True else True, f'snapshot_{i}_uses_the_requested_variables', 'ensures')
            ctx.prove(z3.BoolVal(kw.get('reset') is e['reset']), f'snapshot_{i}_forwards_reset', 'ensures')
        if parents:
            p = parents[0]
            okk = []
            okk.append(same_t(p[1]))
            pk = p[2]
            for k, v in e['kw'].items():
                if k not in pk:
                    okk.append(z3.BoolVal(False))
                elif V.is_sym(v):
                    okk.append(V.z3_of(pk[k]) == V.z3_of(v) if V.is_sym(pk[k]) or isinstance(pk[k], (int, str, bool)) else z3.BoolVal(False))
                else:
                    okk.append(z3.BoolVal(pk[k] is v or (pk[k] == v and type(pk[k]) is type(v))))
            okk.append(z3.BoolVal(set(pk) == set(e['kw'])))
            ctx.prove(z3.And(*okk), 'parent_called_with_the_same_arguments', 'ensures')
            ctx.prove(z3.BoolVal(len(parents) == 1), 'parent_called_exactly_once', 'ensures')
        if out.kind == 'raise':
            ctx.prove(z3.BoolVal(out.exc is e.get('parent_exc') or out.exc is e.get('trace_exc')), 'only_exceptions_of_parent_or_snapshot_propagate', 'raises')
            if not truthy:
                ctx.prove(z3.BoolVal(out.exc is e.get('parent_exc')), 'with_tracing_off_only_the_parent_can_raise', 'raises')
            return
        ctx.prove(z3.BoolVal(len(parents) == 1 and len(traces) == len(want_before) + len(want_after)), 'all_snapshots_and_the_parent_call_happen', 'ensures')
        if spec['returns']:
            ctx.prove(z3.BoolVal(out.value is e.get('parent_result')), 'returns_the_parent_result_unchanged', 'ensures')


# ---------------------------------------------------------------------------------------------------------------
class _Aliased(AliasMixin, _Base):
    ALIASES = {'GDP': 'Y', 'out': 'Y', 'inc': 'GDP'}


class AliasForwarder(FunctionContract):
    """__getattr__/__setattr__/__getitem__/__setitem__ of AliasMixin forward with the resolved name and unchanged rest."""
    props = ('C18',)
    PARENTS = {'__getattr__': 'fsic.core.containers.VectorContainer.__getattr__', '__setattr__': 'fsic.core.containers.VectorContainer.__setattr__',
               '__getitem__': 'fsic.core.containers.VectorContainer.__getitem__', '__setitem__': 'fsic.core.containers.VectorContainer.__setitem__'}

    def __init__(self, method):
        self.method = method
        self.qualname = f'fsic.extensions.common.AliasMixin.{method}'

    def scenarios(self):
        if self.method in ('__getitem__', '__setitem__'):
            return ['name', 'name+label', 'name+slice', 'name+label-spelt-like-an-alias']
        return ['name']

    def setup(self, interp, scenario):
        ctx = interp.ctx
        # instance-level aliases after chain resolution: alias -> variable (no alias is a value)
        aliases = {'GDP': 'Y', 'out': 'Y', 'inc': 'Y', 'cons': 'C', '_gdp': 'Y'}     # (an alias may be spelt like a private name)
        obj = SObj(_Aliased, {'aliases': aliases}, label='aliased')
        name = ctx.fresh('name', STR)
        e = {'name': name, 'aliases': aliases, 'calls': [], 'inputs': {'name': name}}
        e['value'] = SInt(ctx.fresh('value', INT))
        e['label'] = SInt(ctx.fresh('label', INT))

        def parent(interp_, o, args, kwargs, node):
            e['calls'].append((list(args), dict(kwargs)))
            r = SInt(ctx.fresh('parent_result', INT))
            e['result'] = r
            return r
        interp.registry.set_calls({self.PARENTS[self.method]: parent})
        if scenario == 'name':
            key = SStr(name)
        elif scenario == 'name+label-spelt-like-an-alias':
            e['label'] = 'GDP'                 # a period label (string span) that happens to be an alias name: it stays the label it is
            key = (SStr(name), e['label'])
        elif scenario == 'name+label':
            key = (SStr(name), e['label'])
        else:
            key = (SStr(name), slice(e['label'], None, 2))
        e['key'] = key
        args = [key] + ([e['value']] if self.method in ('__setattr__', '__setitem__') else [])
        return Call(args, {}, self_obj=obj, entry=e)

    def post(self, interp, scenario, call, out):
        ctx = interp.ctx
        e = call.entry
        if out.kind == 'raise':
            ctx.prove(False, f'no_exception_of_its_own:{getattr(exc_class(out.exc), "__name__", "?")}', 'raises')
            return
        ctx.prove(z3.BoolVal(len(e['calls']) == 1), 'parent_called_exactly_once', 'ensures')
        if len(e['calls']) != 1:
            return
        args, kwargs = e['calls'][0]
        want = e['name']
        for a, v in e['aliases'].items():
            want = z3.If(e['name'] == z3.StringVal(a), z3.StringVal(v), want)
        got_key = args[0] if args else None
        if scenario == 'name':
            ok = V.z3_of(got_key) == want if isinstance(got_key, (SStr, str)) else z3.BoolVal(False)
        else:
            ok = z3.BoolVal(False)
            if isinstance(got_key, tuple) and len(got_key) == 2 and isinstance(got_key[0], (SStr, str)):
                rest_same = got_key[1] is e['key'][1] or (isinstance(got_key[1], slice) and got_key[1] == e['key'][1])
                ok = z3.And(V.z3_of(got_key[0]) == want, z3.BoolVal(bool(rest_same)))
        ctx.prove(ok, 'forwards_the_resolved_name_and_the_unchanged_rest_of_the_key', 'ensures')
        if self.method in ('__setattr__', '__setitem__'):
            ctx.prove(z3.BoolVal(len(args) == 2 and args[1] is e['value']), 'forwards_the_value_unchanged', 'ensures')
        if self.method in ('__getattr__', '__getitem__'):
            ctx.prove(z3.BoolVal(out.value is e.get('result')), 'returns_the_parent_result', 'ensures')


TRACER_CONTRACTS = [TracerWrapper(m) for m in TracerWrapper.SPEC]
ALIAS_CONTRACTS = [AliasForwarder(m) for m in AliasForwarder.PARENTS]


# ---------------------------------------------------------------------------------------------------------------
# C17: TracerMixin.trace_t itself (what one snapshot is)
# ---------------------------------------------------------------------------------------------------------------
class TraceSnapshot(FunctionContract):
    """trace_t(t, label, trace=...): the traced names are [name] for one name given as a string, the given sequence (list or tuple) of names,
    or TRACE_VARIABLES (all variables when None) for trace=True; the snapshot is the column of exactly those variables' values at t, in that
    order; a fresh Trace over those names replaces the stored one only when that one is empty or reset is asked for; the snapshot is appended
    exactly once, under the label given, to the Trace stored at t."""
    qualname = 'fsic.extensions.model.TracerMixin.trace_t'
    props = ('C17',)
    required_covers = ('kept', 'replaced')

    TRACES = {'true/all': (True, None), 'true/class-list': (True, ['C', 'Long']), 'true/class-tuple': (True, ('C', 'Long')),
              'one-name': ('Long', None), 'list': (['Y', 'Long'], None), 'tuple': (('Y', 'Long'), None), 'one-name-tuple': (('Long',), ['C'])}

    def scenarios(self):
        return [f'{k}|{ex}|{r}' for k in self.TRACES for ex in ('empty', 'nonempty', 'nonempty-same-names') for r in ('noreset', 'reset')]

    def setup(self, interp, scenario):
        import numpy as np
        import pyvc.libspec as L
        from fsic.extensions.model import Trace
        tk, ex, rk = scenario.split('|')
        trace, class_vars = self.TRACES[tk]
        e = {'scenario': scenario, 'reads': [], 'stores': [], 'constructed': [], 'appends': []}
        all_names = ['Y', 'C', 'Long', 'G']
        values = {'Y': 1.5, 'C': 2.5, 'Long': 3.5, 'G': 4.5}
        want = [trace] if isinstance(trace, str) else (list(trace) if trace is not True else (list(class_vars) if class_vars is not None else all_names))
        e['want'] = want
        e['label'] = object()
        e['t'] = 2

        class TraceStub:
            def __init__(self, names, empty, tag):
                self.names, self.empty, self.tag = names, empty, tag

            def is_empty(self):
                return self.empty

            def append(self, label, vals):
                e['appends'].append((self, label, vals))
        existing = TraceStub(list(want) if ex == 'nonempty-same-names' else ['Y'], ex == 'empty', 'existing')
        e['existing'] = existing

        class TraceArray:
            def __init__(self):
                self.at = {2: existing}

            def __getitem__(self, k):
                return self.at[k]

            def __setitem__(self, k, v):
                e['stores'].append((k, v))
                self.at[k] = v
        arr = TraceArray()
        e['arr'] = arr

        class Series:
            def __init__(self, name):
                self.name = name

            def __getitem__(self, k):
                e['reads'].append((self.name, k))
                return values[self.name]

        class Cls(Traced):
            TRACE_VARIABLES = class_vars
        obj = SObj(Cls, {'names': list(all_names)}, label='traced')

        def getitem(interp_, o, args, kwargs, node):
            key = args[0]
            if key == Cls.TRACE_NAME:
                return arr
            if key not in values:
                interp_.raise_(KeyError, 'unknown-name')
            return Series(key)

        def new_trace(interp_, args, kwargs, node):
            tr = TraceStub(args[0] if args else kwargs.get('names'), True, 'new')
            e['constructed'].append(tr)
            return tr
        new_trace.always = True
        L._MODELS[Trace] = new_trace
        interp.registry.set_calls({'fsic.core.containers.VectorContainer.__getitem__': getitem})
        e['inputs'] = {}
        return Call([e['t'], e['label']], {'trace': trace, 'reset': rk == 'reset', 'errors': 'raise'}, self_obj=obj, entry=e)

    def post(self, interp, scenario, call, out):
        import numpy as np
        ctx = interp.ctx
        e = call.entry
        tk, ex, rk = scenario.split('|')
        if out.kind == 'raise':
            ctx.prove(False, f'a_snapshot_of_existing_variables_does_not_raise:{getattr(exc_class(out.exc), "__name__", "?")}@{getattr(out.exc, "origin", "")}', 'raises')
            return
        want = e['want']
        ctx.prove(z3.BoolVal(e['reads'] == [(nm, e['t']) for nm in want]), 'reads_exactly_the_traced_variables_at_t_in_order_(one_name_given_as_a_string_is_one_name)', 'ensures',
                  note=str(e['reads']))
        replace = ex == 'empty' or rk == 'reset'
        ctx.cover('replaced' if replace else 'kept')
        if replace:
            ok = len(e['stores']) == 1 and e['stores'][0][0] == e['t'] and len(e['constructed']) == 1 and e['stores'][0][1] is e['constructed'][0] \
                and list(e['constructed'][0].names) == want
            ctx.prove(z3.BoolVal(ok), 'an_empty_or_reset_trace_is_replaced_by_a_fresh_one_over_the_traced_names', 'ensures', note=str([(k, getattr(v, 'names', None)) for k, v in e['stores']]))
        else:
            ctx.prove(z3.BoolVal(not e['stores'] and e['arr'].at[e['t']] is e['existing']), 'a_trace_that_already_holds_snapshots_is_kept_(default_reset_False)', 'ensures',
                      note=str(len(e['stores'])))
        ap = e['appends']
        target = e['arr'].at[e['t']]
        ok = len(ap) == 1 and ap[0][0] is target and ap[0][1] is e['label']
        ctx.prove(z3.BoolVal(ok), 'snapshot_appended_exactly_once_under_the_given_label_to_the_trace_stored_at_t', 'ensures')
        if len(ap) == 1:
            vals = ap[0][2]
            vv = {'Y': 1.5, 'C': 2.5, 'Long': 3.5, 'G': 4.5}
            ok = isinstance(vals, np.ndarray) and vals.shape == (len(want), 1) and vals[:, 0].tolist() == [vv[n] for n in want]
            ctx.prove(z3.BoolVal(ok), 'snapshot_is_the_column_of_the_traced_values_in_order', 'ensures', note=str(getattr(vals, 'shape', None)))


CONTRACTS_TRACE = [TraceSnapshot()]


# ---------------------------------------------------------------------------------------------------------------
# C18: AliasMixin.to_dataframe (use_aliases only renames columns)
# ---------------------------------------------------------------------------------------------------------------
class AliasExport(FunctionContract):
    """to_dataframe(use_aliases=..., **options): the table is the parent's table for exactly the options given; without use_aliases it is
    returned as it is; with use_aliases the only operation applied to it is one rename of columns, each to one of that variable's own
    aliases - the preferred one where exactly one is declared, none where the variable's own name is preferred - and two preferred names for
    one variable are rejected with ValueError."""
    qualname = 'fsic.extensions.common.AliasMixin.to_dataframe'
    props = ('C18',)
    required_covers = ('returned', 'ambiguous')

    MAPS = {
        'off': (False, {'GDP': 'Y', 'cons': 'C'}, []),
        'no-preferences': (True, {'GDP': 'Y', 'cons': 'C'}, []),
        'single-alias-preferred': (True, {'GDP': 'Y', 'cons': 'C'}, ['GDP']),
        'own-name-preferred': (True, {'GDP': 'Y'}, ['Y']),
        'one-of-many-preferred': (True, {'GDP': 'Y', 'out': 'Y', 'cons': 'C'}, ['out']),
        'many-none-preferred': (True, {'GDP': 'Y', 'out': 'Y'}, ['C']),
        'ambiguous': (True, {'GDP': 'Y', 'out': 'Y'}, ['GDP', 'out']),
        'ambiguous-with-own-name': (True, {'GDP': 'Y', 'out': 'Y'}, ['GDP', 'Y']),
        'no-aliases': (True, {}, []),
    }

    def scenarios(self):
        return list(self.MAPS)

    def setup(self, interp, scenario):
        ctx = interp.ctx
        use, aliases, pref = self.MAPS[scenario]
        e = {'scenario': scenario, 'calls': [], 'renames': []}

        class Table:
            def rename(self_, *a, **k):
                e['renames'].append((a, k))
                t2 = Table()
                e['renamed'] = t2
                return t2
        e['table'] = Table()
        e['flags'] = {'status': SBool(ctx.fresh('status', BOOL)), 'iterations': SBool(ctx.fresh('iterations', BOOL)), 'include_internal': SBool(ctx.fresh('include_internal', BOOL))}
        e['inputs'] = {k: v.e for k, v in e['flags'].items()}

        def parent(interp_, o, args, kwargs, node):
            e['calls'].append((list(args), dict(kwargs)))
            return e['table']
        obj = SObj(_Aliased, {'aliases': dict(aliases), 'preferred_names': list(pref)}, label='aliased')
        interp.registry.set_calls({'fsic.core.interfaces.ModelInterface.to_dataframe': parent, 'fsic.core.containers.VectorContainer.to_dataframe': parent,
                                   'fsic.core.models.BaseModel.to_dataframe': parent})
        return Call([], dict(e['flags'], use_aliases=use), self_obj=obj, entry=e)

    def post(self, interp, scenario, call, out):
        ctx = interp.ctx
        e = call.entry
        use, aliases, pref = self.MAPS[scenario]
        ctx.prove(z3.BoolVal(len(e['calls']) == 1), 'parent_export_called_exactly_once', 'ensures')
        if len(e['calls']) == 1:
            a, k = e['calls'][0]
            ok = not a and set(k) == set(e['flags']) and all(k[f] is e['flags'][f] for f in e['flags'])
            ctx.prove(z3.BoolVal(ok), 'export_options_forwarded_unchanged_whether_or_not_aliases_are_used', 'pre-at-call', note=str(sorted(k)))
        groups = {}
        for al, tgt in aliases.items():
            groups.setdefault(tgt, []).append(al)
        ambiguous = use and pref and any(len(set(g + [t]) & set(pref)) > 1 for t, g in groups.items() if len(g) > 1)
        if out.kind == 'raise':
            ctx.cover('ambiguous')
            ctx.prove(z3.BoolVal(bool(ambiguous) and exc_class(out.exc) is ValueError), 'ValueError_only_for_two_preferred_names_of_one_variable', 'raises')
            return
        ctx.cover('returned')
        ctx.prove(z3.BoolVal(not ambiguous), 'ambiguous_preferences_are_rejected', 'raises')
        if not use:
            ctx.prove(z3.BoolVal(out.value is e['table'] and not e['renames']), 'without_use_aliases_the_parent_table_is_returned_untouched', 'ensures')
            return
        ok = len(e['renames']) == 1 and out.value is e.get('renamed') and not e['renames'][0][0] and set(e['renames'][0][1]) == {'columns'}
        ctx.prove(z3.BoolVal(ok), 'the_only_operation_on_the_table_is_one_rename_of_columns', 'ensures')
        if not ok:
            return
        mapping = e['renames'][0][1]['columns']
        want = {}
        for tgt, g in groups.items():
            if not pref:
                want[tgt] = None            # any one of its aliases (the code takes the last one listed)
            elif len(g) == 1:
                if tgt not in pref:
                    want[tgt] = g[0]
            else:
                inter = set(g + [tgt]) & set(pref)
                if len(inter) == 1:
                    want[tgt] = next(iter(inter))
        good = isinstance(mapping, dict) and set(mapping) == set(want) and all((mapping[t] in groups[t]) if want[t] is None else mapping[t] == want[t] for t in want)
        ctx.prove(z3.BoolVal(good), 'each_column_is_renamed_to_one_of_its_own_aliases_(the_preferred_one_where_declared)', 'ensures', note=str(mapping))


ALIAS_EXPORT = [AliasExport()]


# ---------------------------------------------------------------------------------------------------------------
# C18: AliasMixin.__init__ - chains of aliases resolve to the underlying variable; constructor keywords go through aliases
# ---------------------------------------------------------------------------------------------------------------
def _alias_maps():
    """Every alias map with at most three aliases a1..a3, each pointing to another alias, to itself, or to a variable."""
    import itertools
    keys = ['a1', 'a2', 'a3']
    vals = ['a1', 'a2', 'a3', 'Y', 'C']
    out = [{}]
    for r in (1, 2, 3):
        for vs in itertools.product(vals, repeat=r):
            out.append(dict(zip(keys[:r], vs)))
    # self-maps of the variables themselves (a variable listed under its own name is no alias and hides nothing)
    out += [{'Y': 'Y'}, {'a1': 'Y', 'Y': 'Y'}, {'C': 'C', 'a1': 'C', 'a2': 'a1'}, {'Y': 'Y', 'C': 'C', 'a1': 'a1'}]
    return out


def _resolve_spec(amap):
    """Statement's reading: self-maps are no aliases; following the chain from an alias ends at the underlying name; a chain that never
    ends (a cycle of length >= 2) cannot be resolved."""
    clean = {k: v for k, v in amap.items() if k != v}
    res = {}
    for a in clean:
        seen, x = {a}, clean[a]
        while x in clean:
            if x in seen:
                return None
            seen.add(x)
            x = clean[x]
        if x != a:
            res[a] = x
    return res


class AliasInit(FunctionContract):
    qualname = 'fsic.extensions.common.AliasMixin.__init__'
    props = ('C18',)
    required_covers = ('resolved', 'cycle')
    MAPS = _alias_maps()

    def scenarios(self):
        return [f'map{i}' for i in range(len(self.MAPS))] + ['subclass-extends-the-aliases-of-an-instantiated-class']

    def setup(self, interp, scenario):
        sub = scenario.startswith('subclass')
        amap = {'a1': 'a2', 'a2': 'Y', 'a3': 'C'} if sub else self.MAPS[int(scenario[3:])]
        e = {'amap': amap, 'parent': []}

        if sub:
            class Base_(AliasMixin, _Base):
                ALIASES = {'a2': 'Y'}
                PREFERRED_NAMES = []

            class Al(Base_):
                ALIASES = dict(amap)
        else:
            class Al(AliasMixin, _Base):
                ALIASES = dict(amap)
                PREFERRED_NAMES = []
        e['cls'] = Al
        obj = SObj(Al, {}, label='instance')
        e['obj'] = obj

        def parent_init(interp_, o, args, kwargs, node):
            e['parent'].append((list(args), dict(kwargs)))
            return None
        interp.registry.set_calls({'fsic.core.models.BaseModel.__init__': parent_init})
        e['span'] = [1, 2, 3]
        if sub:
            # history: an instance of the parent class is constructed first (whatever the constructor remembers must not reach the subclass)
            from pyvc.extract import get_function
            pobj = SObj(Base_, {}, label='parent-instance')
            interp.call_function(get_function(self.qualname), [pobj, [1, 2, 3]], {}, self_obj=pobj)
            e['parent'].clear()
        e['class_attrs'] = {k: set(vars(k)) for k in Al.__mro__ if k is not object}
        # constructor keywords: one through each alias, one through a variable name
        e['kw'] = {k: object() for k in list(amap)[:2] + ['C']}
        e['inputs'] = {}
        return Call([e['span']], dict(e['kw']), self_obj=obj, entry=e)

    def post(self, interp, scenario, call, out):
        ctx = interp.ctx
        e = call.entry
        want = _resolve_spec(e['amap'])
        grown = {k.__name__: sorted(set(vars(k)) - before) for k, before in e['class_attrs'].items() if set(vars(k)) - before}
        ctx.prove(z3.BoolVal(not grown), 'constructing_an_instance_stores_nothing_on_the_class', 'frame', note=str(grown))
        if out.kind == 'raise':
            ctx.cover('cycle')
            ctx.prove(z3.BoolVal(want is None and exc_class(out.exc) is ValueError), 'ValueError_only_for_a_cycle_of_aliases', 'raises', note=str(e['amap']))
            ctx.prove(z3.BoolVal(not e['parent']), 'nothing_is_constructed_for_an_unresolvable_map', 'raises')
            return
        ctx.cover('resolved')
        ctx.prove(z3.BoolVal(want is not None), 'a_cycle_of_aliases_is_rejected', 'raises', note=str(e['amap']))
        if want is None:
            return
        al = e['obj'].fields.get('aliases')
        ctx.prove(z3.BoolVal(al == want), 'every_alias_resolves_to_the_variable_at_the_end_of_its_chain_(self_maps_dropped)', 'ensures', note=f'{e["amap"]} -> {al}, expected {want}')
        ctx.prove(z3.BoolVal(dict(e['cls'].ALIASES) == e['amap'] and al is not e['cls'].ALIASES), 'class_level_table_untouched_and_not_shared', 'frame')
        pn = e['obj'].fields.get('preferred_names')
        ctx.prove(z3.BoolVal(pn == list(e['cls'].PREFERRED_NAMES) and pn is not e['cls'].PREFERRED_NAMES), 'instance_preferences_are_a_copy_of_the_class_level_list', 'own')
        ok = len(e['parent']) == 1
        ctx.prove(z3.BoolVal(ok), 'parent_constructor_called_exactly_once', 'ensures')
        if ok:
            args, kw = e['parent'][0]
            exp = {}
            collide = False
            for k, v in e['kw'].items():
                tgt = want.get(k, k)
                collide = collide or tgt in exp
                exp[tgt] = v
            good = args == [e['span']] and (collide or (set(kw) == set(exp) and all(kw[k] is exp[k] for k in exp)))
            ctx.prove(z3.BoolVal(good), 'constructor_keywords_given_through_aliases_reach_the_underlying_variables', 'ensures', note=str(sorted(kw)))


ALIAS_EXPORT.append(AliasInit())


class TraceAppend(FunctionContract):
    """Trace.append(label, values): the label is added at the end of the index and the values become one more column (as a column vector,
    whatever vector-like shape they came in) to the right of the existing snapshots, which are unchanged; arrays that are not vector-like
    are refused (DimensionError) before anything is stored.  (Shapes are enumerated; contents are concrete distinct numbers.)"""
    qualname = 'fsic.extensions.model.Trace.append'
    props = ('C17',)
    required_covers = ('appended', 'refused')

    def scenarios(self):
        return [f'{ex}|{sh}' for ex in ('empty', 'one-column', 'three-columns') for sh in ('column', 'row', 'flat', 'matrix', 'cube', 'single')] + \
               ['three-columns|column|label-already-in-the-index', 'one-column|flat|label-already-in-the-index']

    def setup(self, interp, scenario):
        import numpy as np
        from fsic.extensions.model import Trace
        ex, sh = scenario.split('|')[:2]
        k = 1 if sh == 'single' else 2
        cols = {'empty': 0, 'one-column': 1, 'three-columns': 3}[ex]
        existing = np.array([]) if cols == 0 else (np.arange(k * cols, dtype=float).reshape(k, cols) + 100.0)
        index = [f'l{i}' for i in range(cols)]
        new = np.array([7.5, 8.5][:k])
        values = {'column': lambda: new.reshape(-1, 1), 'row': lambda: new.reshape(1, -1), 'flat': lambda: new, 'single': lambda: new.reshape(1, 1),
                  'matrix': lambda: np.ones((2, 2)), 'cube': lambda: np.ones((2, 1, 1))}[sh]()
        obj = SObj(Trace, {'names': ['Y', 'C'][:k], 'index': list(index), 'values': existing.copy()}, label='trace')
        e = {'obj': obj, 'existing': existing, 'index': index, 'new': new, 'values_arg': values, 'label': object(), 'k': k, 'cols': cols, 'inputs': {}}
        if scenario.endswith('label-already-in-the-index'):
            # a period solved again with tracing and reset=False: its labels come round again; every snapshot is kept, in order
            e['label'] = index[0]
        return Call([e['label'], values], {}, self_obj=obj, entry=e)

    def post(self, interp, scenario, call, out):
        import numpy as np
        from fsic.exceptions import DimensionError
        ctx = interp.ctx
        e = call.entry
        ex, sh = scenario.split('|')[:2]
        f = e['obj'].fields
        if out.kind == 'raise':
            ctx.cover('refused')
            ctx.prove(z3.BoolVal(exc_class(out.exc) is DimensionError and sh in ('matrix', 'cube')), 'DimensionError_only_for_values_that_are_not_vector_like', 'raises')
            ctx.prove(z3.BoolVal(f['index'] == e['index'] and np.array_equal(f['values'], e['existing'])), 'a_refused_snapshot_stores_nothing', 'frame')
            return
        ctx.cover('appended')
        ctx.prove(z3.BoolVal(sh not in ('matrix', 'cube')), 'values_that_are_not_vector_like_are_refused', 'raises')
        ctx.prove(z3.BoolVal(f['index'][:-1] == e['index'] and len(f['index']) == e['cols'] + 1 and f['index'][-1] is e['label']), 'label_added_at_the_end_of_the_index', 'ensures')
        v = f['values']
        ok = isinstance(v, np.ndarray) and v.shape == (e['k'], e['cols'] + 1)
        ctx.prove(z3.BoolVal(ok), 'values_gain_exactly_one_column', 'ensures', note=str(getattr(v, 'shape', None)))
        if ok:
            ctx.prove(z3.BoolVal(v[:, -1].tolist() == e['new'].tolist()), 'the_new_column_holds_the_values_in_order', 'ensures')
            ctx.prove(z3.BoolVal(e['cols'] == 0 or np.array_equal(v[:, :-1], e['existing'])), 'earlier_snapshots_are_unchanged', 'frame')
        ctx.prove(z3.BoolVal(f['names'] == ['Y', 'C'][:e['k']]), 'names_unchanged', 'frame')


CONTRACTS_TRACE.append(TraceAppend())


class TracerInit(FunctionContract):
    """TracerMixin.__init__: after the model's own constructor, one variable named TRACE_NAME is appended to the declaration order; it holds one
    *separate*, empty Trace per period (so that a snapshot of one period never shows up in another); a model that already has a variable of
    that name is refused (DuplicateNameError)."""
    qualname = 'fsic.extensions.model.TracerMixin.__init__'
    props = ('C17', 'C11')
    required_covers = ('constructed', 'duplicate')

    def scenarios(self):
        return ['fresh', 'name-taken', 'renamed']

    def setup(self, interp, scenario):
        import numpy as np
        import pyvc.libspec as L
        from fsic.extensions.model import Trace
        e = {'scenario': scenario, 'traces': [], 'parent': [], 'arrays': []}

        class Cls(Traced):
            TRACE_NAME = 'history' if scenario == 'renamed' else 'trace'
        index = ['Y', 'trace'] if scenario == 'name-taken' else ['Y']
        obj = SObj(Cls, {}, label='traced')
        e['obj'], e['cls'], e['index0'] = obj, Cls, list(index)

        def parent_init(interp_, o, args, kwargs, node):
            e['parent'].append((list(args), dict(kwargs)))
            o.fields['index'] = list(index)
            o.fields['span'] = [2000, 2001, 2002]
            return None

        def new_trace(interp_, args, kwargs, node):
            tr = ('Trace', len(e['traces']), list(args[0]) if args else None)
            e['traces'].append(tr)
            return tr
        new_trace.always = True
        L._MODELS[Trace] = new_trace

        def array(interp_, args, kwargs, node):
            a = list(args[0])
            e['arrays'].append(a)
            return ('array', len(e['arrays']) - 1)
        array.always = True
        L._MODELS[np.array] = array
        interp.registry.set_calls({'fsic.core.models.BaseModel.__init__': parent_init})
        e['span_arg'], e['kw'] = [2000, 2001, 2002], {'Y': object()}
        e['inputs'] = {}
        return Call([e['span_arg']], dict(e['kw']), self_obj=obj, entry=e)

    def post(self, interp, scenario, call, out):
        from fsic.exceptions import DuplicateNameError
        ctx = interp.ctx
        e = call.entry
        f = e['obj'].fields
        ok = len(e['parent']) == 1 and e['parent'][0][0] == [e['span_arg']] and set(e['parent'][0][1]) == set(e['kw']) and all(e['parent'][0][1][k] is v for k, v in e['kw'].items())
        ctx.prove(z3.BoolVal(ok), 'the_model_constructor_runs_first_exactly_once_with_the_same_arguments', 'ensures')
        name = e['cls'].TRACE_NAME
        if out.kind == 'raise':
            ctx.cover('duplicate')
            ctx.prove(z3.BoolVal(exc_class(out.exc) is DuplicateNameError and scenario == 'name-taken'), 'DuplicateNameError_only_when_the_trace_name_is_already_a_variable', 'raises')
            ctx.prove(z3.BoolVal(f.get('index') == e['index0'] and ('_' + name) not in f), 'a_refused_construction_adds_no_trace_variable', 'frame')
            return
        ctx.cover('constructed')
        ctx.prove(z3.BoolVal(scenario != 'name-taken'), 'an_existing_variable_of_that_name_is_refused', 'raises')
        ctx.prove(z3.BoolVal(f.get('index') == e['index0'] + [name]), 'trace_variable_appended_once_to_the_declaration_order', 'ensures', note=str(f.get('index')))
        arr = f.get('_' + name)
        ok = isinstance(arr, tuple) and arr[0] == 'array' and len(e['arrays'][arr[1]]) == 3
        ctx.prove(z3.BoolVal(ok), 'one_trace_per_period', 'ensures')
        if ok:
            items = e['arrays'][arr[1]]
            ctx.prove(z3.BoolVal(len({id(x) for x in items}) == 3 and all(isinstance(x, tuple) and x[0] == 'Trace' and x[2] == [] for x in items)),
                      'each_period_has_its_own_separate_empty_trace', 'own', note=str(items))


CONTRACTS_TRACE.append(TracerInit())
