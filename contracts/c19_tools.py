"""C19 - what fsic hands to pandas: model_to_dataframe and linker_to_dataframes (column selection, order, flags, forwarding)."""
from __future__ import annotations

import z3

import fsic.tools
from fsic.core.linkers import BaseLinker
from fsic.core.models import BaseModel
from pyvc import values as V
from pyvc.contracts import Call, FunctionContract
from pyvc.interp import exc_class
from pyvc.libspec import SDataFrame
from pyvc.values import BOOL, INT, STR, SBool, SObj, SSeq, SStr


class Series:
    def __init__(self, tag):
        self.tag = tag


class ModelToDataFrame(FunctionContract):
    qualname = 'fsic.tools.model_to_dataframe'
    props = ('C19',)

    def scenarios(self):
        return [f'names{k}/{s}{i}{n}' for k in (0, 1, 2, 3) for s in 'SN' for i in 'IN' for n in 'XN']

    def setup(self, interp, scenario):
        ctx = interp.ctx
        ks, fl = scenario.split('/')
        k = int(ks[5:])
        names = [ctx.fresh(f'name{i}', STR) for i in range(k)]
        for i in range(k):
            for j in range(i):
                ctx.assume(names[i] != names[j])
            ctx.assume(z3.And(names[i] != z3.StringVal('status'), names[i] != z3.StringVal('iterations')))
        e = {'names': names, 'flags': (fl[0] == 'S', fl[1] == 'I', fl[2] == 'X'), 'series': {}}
        span = object()
        st, it = Series('status'), Series('iterations')
        obj = SObj(BaseModel, {'names': [SStr(x) for x in names], 'span': span, 'index': []}, label='model')
        e.update(span=span, status=st, iterations=it, obj=obj)

        def getitem(interp_, o, args, kwargs, node):
            key = args[0]
            tag = V.z3_of(key).sexpr()
            return e['series'].setdefault(tag, Series(tag))

        def getattr_(interp_, o, args, kwargs, node):
            nm = args[0]
            if nm == 'status':
                return st
            if nm == 'iterations':
                return it
            interp_.raise_(AttributeError, str(nm))
        interp.registry.set_calls({'fsic.core.containers.VectorContainer.__getitem__': getitem, 'fsic.core.containers.VectorContainer.__getattr__': getattr_})
        import pandas as pd
        ctx.force_models = {pd.DataFrame}
        e['inputs'] = {f'name{i}': x for i, x in enumerate(names)}
        return Call([obj], dict(status=e['flags'][0], iterations=e['flags'][1], include_internal=e['flags'][2]), entry=e)

    def post(self, interp, scenario, call, out):
        ctx = interp.ctx
        e = call.entry
        if out.kind == 'raise':
            ctx.prove(False, f'does_not_raise:{getattr(exc_class(out.exc), "__name__", "?")}@{getattr(out.exc, "origin", "")}', 'raises')
            return
        df = out.value
        ok = isinstance(df, SDataFrame)
        ctx.prove(z3.BoolVal(ok), 'returns_a_table_built_by_pandas.DataFrame', 'ensures')
        if not ok:
            return
        st, it, internal = e['flags']
        ctx.prove(z3.BoolVal(getattr(df, 'owns_data', False)), 'table_owns_its_data_(a_snapshot_not_views_of_the_model_series)', 'own')
        ctx.prove(z3.BoolVal(df.index is e['span']), 'one_row_per_period_indexed_by_the_span', 'ensures')
        now = e['obj'].fields['names']
        ctx.prove(z3.BoolVal(len(now) == len(e['names']) and all(isinstance(a, SStr) and z3.eq(a.e, b) for a, b in zip(now, e['names']))),
                  'exporting_does_not_alter_the_variable_list_of_the_model', 'frame')
        cols = df.columns
        # expected: names in model order, underscore-prefixed ones only when requested (the path condition has decided each prefix test)
        pos = 0
        kept_terms = []
        for nm in e['names']:
            internal_name = z3.PrefixOf(z3.StringVal('_'), nm)
            keep = ctx._feasible(z3.Not(internal_name)) or internal
            if internal:
                keep = True
            else:
                # decided on this path?
                if not ctx._feasible(internal_name):
                    keep = True
                elif not ctx._feasible(z3.Not(internal_name)):
                    keep = False
                else:
                    ctx.prove(False, 'prefix_test_not_decided_on_this_path', 'ensures')
                    return
            if keep:
                kept_terms.append(nm)
        want = len(kept_terms) + (1 if st else 0) + (1 if it else 0)
        ctx.prove(z3.BoolVal(len(cols) == want), 'one_column_per_variable_plus_requested_status_iterations_(underscore_names_only_on_request)', 'ensures',
                  note=f'{len(cols)} columns, expected {want}')
        if len(cols) != want:
            return
        for i, nm in enumerate(kept_terms):
            k, v = cols[i]
            ctx.prove(V.z3_of(k) == nm, f'column_{i}_is_the_{i}th_kept_variable_(model_order)', 'ensures')
            ctx.prove(z3.BoolVal(isinstance(v, Series) and v.tag == nm.sexpr()), f'column_{i}_holds_exactly_that_series', 'ensures')
        i = len(kept_terms)
        if st:
            ctx.prove(z3.BoolVal(cols[i][0] == 'status' and cols[i][1] is e['status']), 'status_column_follows_the_variables', 'ensures')
            i += 1
        if it:
            ctx.prove(z3.BoolVal(cols[i][0] == 'iterations' and cols[i][1] is e['iterations']), 'iterations_column_is_last', 'ensures')


class LinkerToDataFrames(FunctionContract):
    qualname = 'fsic.tools.linker_to_dataframes'
    props = ('C19',)

    def scenarios(self):
        return ['k0', 'k1', 'k2', 'k3-hashable-ids']

    def setup(self, interp, scenario):
        ctx = interp.ctx
        k = int(scenario[1])
        flags = {f: SBool(ctx.fresh(f, BOOL)) for f in ('status', 'iterations', 'include_internal')}
        e = {'flags': flags, 'calls': [], 'tables': {}}
        # submodel identifiers (and the linker's own name) are arbitrary hashables: strings, integers, tuples
        ids = [f's{i}' for i in range(k)] if 'hashable' not in scenario else [1, ('uk', 'households'), 's2']
        subs = {sid: SObj(BaseModel, {}, label=f's{i}') for i, sid in enumerate(ids)}
        lk = SObj(BaseLinker, {'name': 'top' if 'hashable' not in scenario else 0, 'submodels': subs}, label='linker')
        e.update(subs=subs, linker=lk)

        def to_df(interp_, o, args, kwargs, node):
            e['calls'].append((o, list(args), dict(kwargs)))
            t = object()
            e['tables'][id(o)] = t
            return t
        interp.registry.set_calls({'fsic.core.models.BaseModel.to_dataframe': to_df, 'fsic.core.linkers.BaseLinker.to_dataframe': to_df})
        return Call([lk], dict(flags), entry=e)

    def post(self, interp, scenario, call, out):
        ctx = interp.ctx
        e = call.entry
        if out.kind == 'raise':
            ctx.prove(False, 'does_not_raise', 'raises')
            return
        r = out.value
        want_keys = [e['linker'].fields['name']] + list(e['subs'])
        ctx.prove(z3.BoolVal(isinstance(r, dict) and list(r.keys()) == want_keys), 'one_table_for_the_linker_and_one_per_submodel', 'ensures')
        objs = [e['linker']] + list(e['subs'].values())
        ctx.prove(z3.BoolVal([c[0] for c in e['calls']] == objs), 'each_member_exported_exactly_once', 'ensures')
        for o, args, kw in e['calls']:
            ok = not args and set(kw) == set(e['flags']) and all(kw[f] is e['flags'][f] for f in e['flags'])
            ctx.prove(z3.BoolVal(ok), f'same_flags_forwarded_to_{o.label}', 'ensures')
        if isinstance(r, dict):
            for key, o in zip(want_keys, objs):
                ctx.prove(z3.BoolVal(r.get(key) is e['tables'].get(id(o))), f'table_of_{o.label}_stored_under_its_id', 'ensures')


CONTRACTS = [ModelToDataFrame(), LinkerToDataFrames()]


class FromDataFrame(FunctionContract):
    """BaseModel.from_dataframe(data, *args, **kwargs): the class is instantiated exactly once with the table's index as span (as a list, except
    for pandas time indexes which are passed as they are), each column's values under the column's name - the values array itself, nothing
    filled in, converted or dropped - and the further arguments unchanged; what the constructor returns is returned."""
    qualname = 'fsic.core.models.BaseModel.from_dataframe'
    props = ('C19',)

    def scenarios(self):
        return ['plain-index', 'period-index', 'datetime-index', 'no-columns']

    def setup(self, interp, scenario):
        import pandas as pd
        e = {'scenario': scenario, 'calls': []}
        if scenario == 'period-index':
            index = pd.period_range('2000', periods=3, freq='Y')
        elif scenario == 'datetime-index':
            index = pd.date_range('2000-01-31', periods=3, freq='ME')
        else:
            index = pd.Index(['a', 'b', 'c'])
        e['index'] = index
        cols = [] if scenario == 'no-columns' else ['Y', 'X', 'status']

        class Column:
            def __init__(self, name):
                self.name = name
                self.values = ('values-of', name)
        e['columns'] = {k: Column(k) for k in cols}

        class Table:
            def __init__(self_):
                self_.index = index

            def items(self_):
                return list(e['columns'].items())

            def __getattr__(self_, name):           # any other use of the table (fillna, dropna, astype, ...) is not part of the contract
                raise AssertionError(f'table.{name} used')
        e['table'] = Table()
        e['result'] = object()

        class Cls:
            @staticmethod
            def vc_call(interp_, args, kwargs, node):
                e['calls'].append((list(args), dict(kwargs)))
                return e['result']
        e['extra_arg'], e['extra_kw'] = object(), object()
        e['inputs'] = {}
        return Call([Cls, e['table'], e['extra_arg']], {'engine': e['extra_kw']}, entry=e)

    def post(self, interp, scenario, call, out):
        ctx = interp.ctx
        e = call.entry
        if out.kind == 'raise':
            ctx.prove(False, f'does_not_raise:{getattr(exc_class(out.exc), "__name__", "?")}', 'raises')
            return
        ok = len(e['calls']) == 1 and out.value is e['result']
        ctx.prove(z3.BoolVal(ok), 'the_class_is_instantiated_exactly_once_and_its_instance_returned', 'ensures')
        if len(e['calls']) != 1:
            return
        args, kw = e['calls'][0]
        span = args[0] if args else None
        if scenario in ('period-index', 'datetime-index'):
            ctx.prove(z3.BoolVal(span is e['index']), 'a_pandas_time_index_is_passed_as_the_span_unchanged', 'ensures')
        else:
            ctx.prove(z3.BoolVal(isinstance(span, list) and span == list(e['index'])), 'the_span_is_the_list_of_index_labels_in_order', 'ensures', note=str(span))
        ctx.prove(z3.BoolVal(len(args) == 2 and args[1] is e['extra_arg'] and kw.get('engine') is e['extra_kw']), 'further_arguments_forwarded_unchanged', 'ensures')
        want = {k: c.values for k, c in e['columns'].items()}
        got = {k: v for k, v in kw.items() if k != 'engine'}
        ctx.prove(z3.BoolVal(set(got) == set(want) and all(got[k] is want[k] for k in want)), 'every_column_is_passed_under_its_name_as_the_values_it_holds', 'ensures', note=str(sorted(got)))


CONTRACTS.append(FromDataFrame())


class DataFrameToSymbols(FunctionContract):
    """dataframe_to_symbols(table): one Symbol per row, in row order, no row skipped; `type` becomes the enumeration member, lags / leads
    become int or None (missing), name / equation / code stay the strings they are or None (missing, however pandas spells it: None or NaN)."""
    qualname = 'fsic.tools.dataframe_to_symbols'
    props = ('C19',)

    ROWS = {
        'variable-and-function': [dict(name='Y', type=3, lags=-1.0, leads=0.0, equation='Y[t] = X[t-1]', code='self._Y[t] = self._X[t-1]'),
                                  dict(name='exp', type=6, lags=float('nan'), leads=float('nan'), equation=None, code=None)],
        'verbatim-without-name': [dict(name=None, type=8, lags=float('nan'), leads=float('nan'), equation='`self.Q = 1`', code='self.Q = 1'),
                                  dict(name=float('nan'), type=8, lags=float('nan'), leads=float('nan'), equation='x', code='x'),
                                  dict(name='X', type=2, lags=-2, leads=1, equation=float('nan'), code=float('nan'))],
        'text-with-blanks': [dict(name='Y', type=3, lags=0, leads=0, equation='Y[t] = X[t] ', code='self._Y[t] = self._X[t] \t'),
                             dict(name=None, type=8, lags=float('nan'), leads=float('nan'), equation='`  self.Q = 1`', code='  self.Q = 1\n')],
        'empty': [],
    }

    def scenarios(self):
        return list(self.ROWS)

    def setup(self, interp, scenario):
        rows = self.ROWS[scenario]
        e = {'rows': rows}

        class Table:
            def iterrows(self_):
                return [(i, dict(r)) for i, r in enumerate(rows)]

            def __getattr__(self_, name):
                raise AssertionError(f'table.{name} used')
        e['inputs'] = {}
        return Call([Table()], {}, entry=e)

    def post(self, interp, scenario, call, out):
        import math
        from fsic.parser import Symbol, Type
        ctx = interp.ctx
        e = call.entry
        if out.kind == 'raise':
            ctx.prove(False, f'does_not_raise:{getattr(exc_class(out.exc), "__name__", "?")}', 'raises')
            return
        r = out.value

        def missing(x):
            return x is None or (isinstance(x, float) and math.isnan(x))
        want = [Symbol(name=None if missing(w['name']) else w['name'], type=Type(w['type']), lags=None if missing(w['lags']) else int(w['lags']),
                       leads=None if missing(w['leads']) else int(w['leads']), equation=None if missing(w['equation']) else w['equation'],
                       code=None if missing(w['code']) else w['code']) for w in e['rows']]
        def as_tuple(s_):
            f = getattr(s_, 'fields', None)
            if f is not None:
                return tuple(f.get(k) for k in Symbol._fields)
            return tuple(s_) if isinstance(s_, tuple) else s_
        got = [as_tuple(x) for x in r] if isinstance(r, list) else None
        ctx.prove(z3.BoolVal(got is not None and len(got) == len(want)), 'one_symbol_per_row_none_skipped', 'ensures', note=str(got)[:160])
        if got is not None and len(got) == len(want):
            for i, (g, w) in enumerate(zip(got, want)):
                same = all((a is None and b is None) or (a == b and type(a) is type(b)) for a, b in zip(g, tuple(w)))
                ctx.prove(z3.BoolVal(same), f'row_{i}_is_converted_field_by_field_(missing_values_become_None)', 'ensures', note=f'{g} vs {tuple(w)}'[:200])


CONTRACTS.append(DataFrameToSymbols())


class SymbolsToDataFrame(FunctionContract):
    """symbols_to_dataframe(symbols): pandas.DataFrame is handed exactly one record per symbol, in list order, each record mapping the six
    Symbol fields (in field order) to that symbol's own field values - nothing dropped, reordered, converted or added; no index / columns /
    dtype argument; the symbol list is untouched. Symbol contents are symbolic (0-3 symbols, kinds enumerated)."""
    qualname = 'fsic.tools.symbols_to_dataframe'
    props = ('C19',)

    def scenarios(self):
        return ['n0', 'n1:ENDOGENOUS', 'n1:FUNCTION', 'n1:VERBATIM', 'n2:ENDOGENOUS/EXOGENOUS', 'n2:VERBATIM/PARAMETER',
                'n3:ENDOGENOUS/ERROR/FUNCTION', 'n3:EXOGENOUS/ENDOGENOUS/VERBATIM']

    def setup(self, interp, scenario):
        import pandas as pd
        from fsic.parser import Type
        from contracts.c03_symbols import symbolic_symbol
        ctx = interp.ctx
        kinds = [] if scenario == 'n0' else [Type[k] for k in scenario.split(':')[1].split('/')]
        syms = [symbolic_symbol(ctx, i, k) for i, k in enumerate(kinds)]
        e = {'syms': syms, 'fields': [dict(s_.fields) for s_ in syms], 'inputs': {}}
        ctx.force_models = {pd.DataFrame}
        return Call([list(syms)], {}, entry=e)

    def post(self, interp, scenario, call, out):
        from fsic.parser import Symbol
        ctx = interp.ctx
        e = call.entry
        if out.kind == 'raise':
            ctx.prove(False, f'does_not_raise:{getattr(exc_class(out.exc), "__name__", "?")}@{getattr(out.exc, "origin", "")}', 'raises')
            return
        df = out.value
        recs = getattr(df, 'records', None)
        ok = isinstance(df, SDataFrame) and recs is not None
        ctx.prove(z3.BoolVal(ok), 'returns_a_table_built_by_pandas.DataFrame_from_a_list_of_records', 'ensures')
        if not ok:
            return
        now = call.args[0]
        ctx.prove(z3.BoolVal(isinstance(now, list) and len(now) == len(e['syms']) and all(a is b for a, b in zip(now, e['syms']))
                             and all(dict(s_.fields) == f and all(s_.fields[k] is f[k] for k in f) for s_, f in zip(e['syms'], e['fields']))),
                  'the_symbol_list_and_its_symbols_are_not_modified', 'frame')
        ctx.prove(z3.BoolVal(len(recs) == len(e['syms'])), 'one_row_per_symbol_none_skipped_none_added', 'ensures', note=f'{len(recs)} records for {len(e["syms"])} symbols')
        if len(recs) != len(e['syms']):
            return
        for i, (r, f) in enumerate(zip(recs, e['fields'])):
            ctx.prove(z3.BoolVal(list(r) == list(Symbol._fields)), f'row_{i}_has_exactly_the_six_symbol_fields_in_field_order', 'ensures', note=str(list(r)))
            same = list(r) == list(Symbol._fields) and all(r[k] is f[k] or (not V.is_sym(r[k]) and not V.is_sym(f[k]) and type(r[k]) is type(f[k]) and r[k] == f[k])
                                                           for k in Symbol._fields)
            ctx.prove(z3.BoolVal(same), f'row_{i}_holds_the_field_values_of_symbol_{i}_(list_order_kept_nothing_converted)', 'ensures')
        if any(f['equation'] is None for f in e['fields']):
            ctx.cover('symbol-with-None-fields')
        if len(recs) >= 2:
            ctx.cover('several-symbols')


CONTRACTS.append(SymbolsToDataFrame())


class ExportForwarder(FunctionContract):
    """to_dataframe / to_dataframes of models and linkers: one call of the export function of fsic.tools with the object itself and the three
    options exactly as given (whatever combination), and its result handed back."""
    props = ('C19',)
    TARGETS = {
        'fsic.core.models.BaseModel.to_dataframe': 'fsic.tools.model_to_dataframe',
        'fsic.core.linkers.BaseLinker.to_dataframe': 'fsic.tools.model_to_dataframe',
        'fsic.core.linkers.BaseLinker.to_dataframes': 'fsic.tools.linker_to_dataframes',
    }

    def __init__(self, qualname):
        self.qualname = qualname

    def scenarios(self):
        return ['all-options-given', 'defaults']

    def setup(self, interp, scenario):
        import fsic
        cls = fsic.BaseLinker if '.linkers.' in self.qualname else fsic.BaseModel
        obj = SObj(cls, {}, label='exported')
        e = {'calls': [], 'obj': obj, 'result': object(), 'inputs': {},
             'given': {'status': object(), 'iterations': object(), 'include_internal': object()} if scenario == 'all-options-given' else {}}

        def export(interp_, o, args, kwargs, node):
            e['calls'].append((list(args), dict(kwargs)))
            return e['result']
        interp.registry.set_calls({self.TARGETS[self.qualname]: export})
        return Call([], dict(e['given']), self_obj=obj, entry=e)

    def post(self, interp, scenario, call, out):
        ctx = interp.ctx
        e = call.entry
        if out.kind == 'raise':
            ctx.prove(False, f'no_exception_of_its_own:{getattr(exc_class(out.exc), "__name__", "?")}', 'raises')
            return
        ok = len(e['calls']) == 1
        ctx.prove(z3.BoolVal(ok), 'export_function_called_exactly_once', 'ensures')
        if not ok:
            return
        args, kw = e['calls'][0]
        names = ['status', 'iterations', 'include_internal']
        got = dict(kw)
        for nm, v in zip(['self'] + names, args):          # (positional spelling is as good as keywords)
            got[nm] = v
        ctx.prove(z3.BoolVal(got.get('self') is e['obj'] or (args and args[0] is e['obj'])), 'the_object_itself_is_exported', 'ensures')
        want = e['given'] or {'status': True, 'iterations': True, 'include_internal': False}
        same = all((got.get(k) is want[k]) if e['given'] else (k not in got or got[k] is want[k] or got[k] == want[k]) for k in names)
        ctx.prove(z3.BoolVal(bool(same)), 'status_iterations_and_include_internal_are_passed_on_as_given', 'ensures', note=str(sorted(got)))
        ctx.prove(z3.BoolVal(out.value is e['result']), 'returns_what_the_export_function_returns', 'ensures')


CONTRACTS += [ExportForwarder(q) for q in ExportForwarder.TARGETS]
