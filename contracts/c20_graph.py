"""C20 - the wiring of fsic.tools.symbols_to_graph: which strings are tokenised, which tokens become nodes, which pairs become edges.

The tokeniser (`term_re.finditer`) and the graph class (`networkx.DiGraph`) are *assumed* contracts:
  * `term_re.finditer(s)` yields, in order, match objects whose `group(0)` are the terms of `s` - an uninterpreted sequence TOK(s); the
    scenario fixes only how many terms each side has, the terms themselves are unconstrained strings;
  * `DiGraph()` is empty; `add_nodes_from(ns, equation=e)` makes every n in ns a node with attribute equation=e; `add_edge(x, n)` adds the
    directed edge x -> n (and both end points as nodes).
The equations are unconstrained strings (any text). Enumerated shape: number of symbols (0-3), which of them carry an equation, how many terms
the tokeniser reports on the left (1-2) and right (0-2) of each equation. What the real tokeniser reports for real equations is the bounded
layer's business (`c20.graph`, `parser.tokeniser`).
"""
from __future__ import annotations

import itertools

import z3

from fsic.parser import Symbol, Type
from pyvc import libspec
from pyvc.contracts import Call, FunctionContract
from pyvc.interp import exc_class
from pyvc.libspec import A
from pyvc.values import STR, SInt, SObj, SStr
from pyvc import values as V


class _GhostMethod:
    def __init__(self, fn):
        self.fn = fn

    def vc_call(self, interp, args, kwargs, node):
        return self.fn(interp, args, kwargs, node)


class GhostDiGraph:
    """Ghost state of the assumed networkx.DiGraph contract: the log of node and edge insertions."""

    def __init__(self):
        self.node_ops = []      # (node term, {attribute: value})
        self.edge_ops = []      # (tail term, head term)
        self.other_calls = []
        self.add_nodes_from = _GhostMethod(self._add_nodes_from)
        self.add_edge = _GhostMethod(self._add_edge)
        self.add_node = _GhostMethod(self._add_node)
        self.add_edges_from = _GhostMethod(self._add_edges_from)

    def _add_nodes_from(self, interp, args, kwargs, node):
        interp.ctx.use(A('networkx.DiGraph.add_nodes_from', 'G.add_nodes_from(ns, **attr) makes every n of ns a node and updates its attributes with attr'))
        ns = libspec.concrete_iter(interp, args[0])
        if ns is None:
            raise libspec.OutOfSubset('add_nodes_from of a symbolic iterable')
        for n in ns:
            self.node_ops.append((n, dict(kwargs)))

    def _add_node(self, interp, args, kwargs, node):
        interp.ctx.use(A('networkx.DiGraph.add_node', 'G.add_node(n, **attr) makes n a node and updates its attributes with attr'))
        self.node_ops.append((args[0], dict(kwargs)))

    def _add_edge(self, interp, args, kwargs, node):
        interp.ctx.use(A('networkx.DiGraph.add_edge', 'G.add_edge(u, v) adds the directed edge u -> v (and u, v as nodes)'))
        if kwargs or len(args) != 2:
            self.other_calls.append(('add_edge', args, kwargs))
        self.edge_ops.append((args[0], args[1]))

    def _add_edges_from(self, interp, args, kwargs, node):
        interp.ctx.use(A('networkx.DiGraph.add_edges_from', 'G.add_edges_from(pairs) adds the directed edge u -> v for every (u, v) of pairs'))
        es = libspec.concrete_iter(interp, args[0])
        if es is None:
            raise libspec.OutOfSubset('add_edges_from of a symbolic iterable')
        for pr in es:
            u, v = pr[0], pr[1]
            self.edge_ops.append((u, v))


class GhostMatch:
    def __init__(self, text):
        self.text = text

    def group(self, k=0):
        if k != 0:
            raise libspec.OutOfSubset('group(k) of a term match with k != 0 in symbols_to_graph')
        return self.text

    def __getitem__(self, k):
        return self.group(k)


def _install_models():
    try:
        import networkx as nx
    except ImportError:      # pragma: no cover
        return None

    def model_digraph(interp, args, kwargs, node):
        interp.ctx.use(A('networkx.DiGraph', 'DiGraph() is an empty directed graph'))
        if args or kwargs:
            raise libspec.OutOfSubset('DiGraph(...) with arguments')
        g = GhostDiGraph()
        getattr(interp.ctx, 'ghost_graphs', []).append(g)
        return g
    libspec._MODELS[nx.DiGraph] = model_digraph
    return nx


_nx = _install_models()

_lookup0 = libspec.lookup


def _lookup(func):
    """`term_re.finditer` / `findall` given a symbolic string: the tokeniser of the running contract (none outside this contract)."""
    import re
    slf = getattr(func, '__self__', None)
    nm = getattr(func, '__name__', None)
    if isinstance(slf, re.Pattern) and nm == 'finditer':
        def model(interp, args, kwargs, node, pat=slf):
            tk = getattr(interp.ctx, 'tokeniser', None)
            if tk is None:
                raise libspec.OutOfSubset('finditer of a symbolic string outside a contract that supplies the tokeniser')
            return tk(interp, pat, args, kwargs)
        return model
    return _lookup0(func)


libspec.lookup = _lookup


def _str_term(x):
    return V.z3_of(x) if not isinstance(x, str) else z3.StringVal(x)


class SymbolsToGraph(FunctionContract):
    qualname = 'fsic.tools.symbols_to_graph'
    props = ('C20',)

    def scenarios(self):
        out = ['n0']
        # one symbol: every (left, right) term count; without an equation
        out += ['n1:N']
        out += [f'n1:E{l}{r}' for l in (1, 2) for r in (0, 1, 2)]
        # two and three symbols: with/without equations mixed, term counts varied along the list
        out += ['n2:E11/N', 'n2:N/E12', 'n2:E11/E12', 'n2:E21/E10', 'n2:E12/E22', 'n2:N/N']
        out += ['n3:E11/N/E12', 'n3:N/E21/E11', 'n3:E10/E11/E12']
        return out

    def setup(self, interp, scenario):
        import fsic.parser
        ctx = interp.ctx
        shapes = [] if scenario == 'n0' else scenario.split(':')[1].split('/')
        e = {'eqs': [], 'tok_calls': [], 'shapes': shapes, 'graphs': []}
        ctx.ghost_graphs = e['graphs']
        syms = []
        counts = []
        for i, sh in enumerate(shapes):
            name = ctx.fresh(f's{i}.name', STR)
            if sh == 'N':
                eq = None
            else:
                q = ctx.fresh(f's{i}.equation', STR)
                eq = SStr(q)
                # requires: a normalised equation has the form `<left> = <right>` (what the parser stores in Symbol.equation)
                ctx.assume(z3.Contains(q, z3.StringVal('=')))
                e['eqs'].append((i, q, int(sh[1]), int(sh[2])))
                counts += [int(sh[1]), int(sh[2])]
            syms.append(SObj(Symbol, dict(name=SStr(name), type=SInt(z3.IntVal(int(Type.ENDOGENOUS if eq is not None else Type.EXOGENOUS))),
                                          lags=SInt(z3.IntVal(0)), leads=SInt(z3.IntVal(0)), equation=eq, code=None), label=f's{i}'))
        e['syms'] = syms
        e['n_in'] = len(syms)
        pending = list(counts)

        def tokeniser(interp_, pat, args, kwargs):
            ctx.use(A('parser.term_re.finditer', 'term_re.finditer(s) yields, in order, one match per term of s whose group(0) is that term (uninterpreted; '
                                                 'the scenario fixes the number of terms per side, the bounded tokeniser differential checks the real regex)'))
            e.setdefault('patterns', []).append(pat)
            k = len(e['tok_calls'])
            n = pending[k] if k < len(pending) else 1
            toks = [ctx.fresh(f'tok{k}_{j}', STR) for j in range(n)]
            e['tok_calls'].append((_str_term(args[0]), toks))
            return [GhostMatch(SStr(t)) for t in toks]
        ctx.tokeniser = tokeniser
        if _nx is not None:
            ctx.force_models = {_nx.DiGraph}
        e['term_re'] = fsic.parser.term_re
        e['inputs'] = {f's{i}.equation': q for i, q, _, _ in e['eqs']}
        return Call([list(syms)], {}, entry=e)

    def post(self, interp, scenario, call, out):
        ctx = interp.ctx
        e = call.entry
        if out.kind == 'raise':
            # an equation without '=' cannot come from the parser; with one, nothing may raise
            ctx.prove(False, f'does_not_raise:{getattr(exc_class(out.exc), "__name__", "?")}@{getattr(out.exc, "origin", "")}', 'raises')
            return
        g = out.value
        ok = isinstance(g, GhostDiGraph)
        ctx.prove(z3.BoolVal(ok), 'returns_the_DiGraph_it_built', 'ensures')
        if not ok:
            return
        ctx.prove(z3.BoolVal(len(e['graphs']) == 1 and e['graphs'][0] is g), 'exactly_one_graph_is_built_and_it_is_the_one_returned', 'ensures')
        ctx.prove(z3.BoolVal(not g.other_calls), 'edges_carry_no_attributes_and_have_two_end_points', 'ensures')
        # frame: the symbol list is left as it was
        now = call.args[0]
        ctx.prove(z3.BoolVal(isinstance(now, list) and len(now) == e['n_in'] and all(a is b for a, b in zip(now, e['syms']))),
                  'the_symbol_list_is_not_modified', 'frame')
        ctx.prove(z3.BoolVal(all(p is e['term_re'] for p in e.get('patterns', []))), 'terms_are_found_with_the_parser_tokeniser_term_re', 'ensures')
        eqs = e['eqs']
        calls = e['tok_calls']
        # the tokeniser is applied to exactly the two sides of each equation, in equation order (left, right): with
        #   q == left + '=' + right and no '=' in left
        ctx.prove(z3.BoolVal(len(calls) == 2 * len(eqs)), 'tokeniser_runs_once_per_side_of_each_equation_(symbols_without_equation_contribute_nothing)', 'ensures',
                  note=f'{len(calls)} tokeniser calls for {len(eqs)} equations')
        if len(calls) != 2 * len(eqs):
            return
        want_nodes = []     # (term, equation)
        want_edges = []     # (x, n)
        for j, (i, q, nl, nr) in enumerate(eqs):
            (ls, ltoks), (rs, rtoks) = calls[2 * j], calls[2 * j + 1]
            ctx.prove(z3.And(q == z3.Concat(ls, z3.StringVal('='), rs), z3.Not(z3.Contains(ls, z3.StringVal('=')))),
                      f'equation_{j}_is_split_at_its_first_equals_sign_into_the_left_and_right_side_that_are_tokenised', 'ensures')
            for n in ltoks:
                want_nodes.append((n, q))
                for x in rtoks:
                    want_edges.append((x, n))
        # nodes: exactly the left-hand-side terms, each carrying (only) its own equation under the key 'equation'
        attrs_ok = all(set(a) == {'equation'} for _, a in g.node_ops)
        ctx.prove(z3.BoolVal(attrs_ok), 'every_node_insertion_carries_exactly_the_attribute_equation', 'ensures')
        if not attrs_ok:
            return
        have_nodes = [(_str_term(n), _str_term(a['equation'])) for n, a in g.node_ops]
        have_edges = [(_str_term(x), _str_term(n)) for x, n in g.edge_ops]

        def member(p, coll):
            return z3.Or(*[z3.And(p[0] == c[0], p[1] == c[1]) for c in coll]) if coll else z3.BoolVal(False)
        for k, p in enumerate(want_nodes):
            ctx.prove(member(p, have_nodes), f'left_hand_side_term_{k}_is_a_node_carrying_its_equation', 'ensures')
        for k, p in enumerate(have_nodes):
            ctx.prove(member(p, want_nodes), f'node_insertion_{k}_is_a_left_hand_side_term_with_its_own_equation', 'ensures')
        # last write wins per node: a later insertion of the same node must not carry another equation - holds when each inserted pair is an
        # expected pair and left-hand-side terms of different equations differ (the parser's one-equation-per-variable rule), which is assumed
        for k, p in enumerate(want_edges):
            ctx.prove(member(p, have_edges), f'edge_{k}_from_a_right_hand_side_term_to_the_left_hand_side_term_exists_(x_to_y)', 'ensures')
        for k, p in enumerate(have_edges):
            ctx.prove(member(p, want_edges), f'edge_insertion_{k}_joins_a_right_hand_side_term_to_a_left_hand_side_term_of_the_same_equation', 'ensures')
        ctx.prove(z3.BoolVal(len(have_edges) == len(want_edges) and len(have_nodes) == len(want_nodes)),
                  'no_insertion_beyond_one_per_term_pair', 'ensures', note=f'{len(have_nodes)} node and {len(have_edges)} edge insertions')
        if any(nr == 0 for _, _, _, nr in eqs):
            ctx.cover('no-right-hand-side-term')
        if any(nl == 2 for _, _, nl, _ in eqs):
            ctx.cover('several-left-hand-side-terms')
        if 'N' in e['shapes']:
            ctx.cover('symbol-without-equation')
        if want_edges:
            ctx.cover('edge')


CONTRACTS = [SymbolsToGraph()]
