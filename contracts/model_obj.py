"""Symbolic model instance shared by the solver contracts (solve_t, solve, linker, tracer).

Schema (derived from the code, DESIGN 3.2): a well-formed BaseModel instance has
  span        a sequence of n >= 1 labels (only its length is used by the solver; labels appear in messages only)
  check       list of nc names, endogenous list of ne names - each a float variable of the store
  _status     str array of length n,  _iterations  int array of length n   (variables 'status' / 'iterations')
  vars        name -> float64 array of length n      (the `__dict__['_' + name]` family)
Ghost state (never influences executed code):
  passes, before_calls, after_calls, Hf[j] = check vector stored in the model after pass j (j = 0: as read before the pre-hook)
"""
from __future__ import annotations

import z3

from pyvc import values as V
from pyvc.ctx import OutOfSubset
from pyvc.interp import PyRaise
from pyvc.libspec import A
from pyvc.values import (ANY_EXCEPTION, BOOL, F64, INT, STR, SArr, SBool, SExc, SFloat, SInt, SObj, SSeq, SStr,
                         VarStore, forall_range, norm_index)

VEC = z3.ArraySort(INT, F64)
STORE = z3.ArraySort(STR, VEC)
HIST = z3.ArraySort(INT, VEC)

RESERVED = ('status', 'iterations')


class ModelEnv:
    """Everything a contract needs to talk about one symbolic model instance."""


def make_model(interp, cls, *, label='m', with_lags=False):
    ctx = interp.ctx
    env = ModelEnv()
    n = ctx.fresh(f'{label}.n', INT)
    nc = ctx.fresh(f'{label}.nc', INT)
    ne = ctx.fresh(f'{label}.ne', INT)
    ctx.assume(z3.And(n >= 1, nc >= 0, ne >= 0))
    env.n, env.nc, env.ne = n, nc, ne
    env.span = SSeq('list', n, ctx.fresh(f'{label}.span', z3.ArraySort(INT, STR)), 'str', prov='borrowed')
    env.check_arr = ctx.fresh(f'{label}.check', z3.ArraySort(INT, STR))
    env.endo_arr = ctx.fresh(f'{label}.endogenous', z3.ArraySort(INT, STR))
    env.check = SSeq('list', nc, env.check_arr, 'str')
    env.endogenous = SSeq('list', ne, env.endo_arr, 'str')
    env.status0 = ctx.fresh(f'{label}.status0', z3.ArraySort(INT, STR))
    env.iter0 = ctx.fresh(f'{label}.iterations0', z3.ArraySort(INT, INT))
    env.vars0 = ctx.fresh(f'{label}.vars0', STORE)
    env.status = SArr(n, env.status0, 'str')
    env.iterations = SArr(n, env.iter0, 'int')
    env.store = VarStore(env.vars0, n)
    obj = SObj(cls, {
        'span': env.span, 'check': env.check, 'endogenous': env.endogenous,
        '_status': env.status, '_iterations': env.iterations,
        '_strict': False,
    }, label=label)
    if with_lags:
        env.lags = ctx.fresh(f'{label}.lags', INT)
        env.leads = ctx.fresh(f'{label}.leads', INT)
        ctx.assume(z3.And(env.lags >= 0, env.leads >= 0))
        obj.fields['lags'] = SInt(env.lags)
        obj.fields['leads'] = SInt(env.leads)
    obj.varstore = env.store
    obj.known_vars = ()
    obj.length = n

    # wf(self): names in check / endogenous are float variables, hence none of the separately modelled variables
    for arr, m in ((env.check_arr, nc), (env.endo_arr, ne)):
        for r in RESERVED:
            ctx.assume(forall_range(0, m, lambda i, arr=arr, r=r: z3.Select(arr, i) != z3.StringVal(r), 'wf'))

    def guard(name_term):
        return z3.And(*[name_term != z3.StringVal(r) for r in RESERVED])
    obj.var_guard_obligation = guard
    env.obj = obj
    return env


def getattr_contract(interp, obj, args, kwargs, node):
    """Contract of VectorContainer.__getattr__(name) at call sites: for a variable name it returns the array stored
    under '_' + name (requires: name is in `index`, part of wf(self)); proved against the code in the C09/C10 contracts."""
    name = args[0]
    if isinstance(name, SStr):
        name = V.simplify_value(name)
    if isinstance(name, str) and ('_' + name) in obj.fields:
        interp.ctx.use(A('fsic.VectorContainer.__getattr__', 'contract: for name in index, obj.<name> is the array stored under "_" + name'))
        return obj.fields['_' + name]
    raise OutOfSubset(f'attribute {name!r} of a symbolic model')
