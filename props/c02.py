"""C02 - per-period solve: status, iteration count, result flag and convergence agree."""
from contracts.c05_solve import SolverDefaults
from contracts.c02_solve_t import SolveTContract
from contracts.c05_solve import SolvePeriodContract
from contracts.c11_copy import InitOwnership
from props.solve_bounded import SolveGrammarDifferential, SolveTScripted
from verif.crosscheck import TARGETS as _XT, EncoderCrossCheck
from verif.spec import PropertySpec

_c = SolveTContract()
_c.shards = {'generic/offset0': 2, 'parser/offset0': 2, 'generic/offset': 6, 'parser/offset': 6}

PROPERTY = PropertySpec(
    id='C02',
    contracts=[_c, SolvePeriodContract(), SolverDefaults(), InitOwnership('model')],
    bounded=[SolveTScripted(), SolveGrammarDifferential()],
    level='proof',
    explanation='BaseModel.solve_t is symbolically executed from its real ast; the iteration loop is cut by an inductive invariant over '
                'a ghost pass history, hooks are replaced by their interface contract, and every exit (return or exception) is checked '
                'against the postconditions taken from the property statement, for every max_iter, min_iter, tol, offset, option '
                'string and check-vector history (no bound). solve_period is proved to forward to solve_t at the located position; the constructor is proved to give the instance '
                'its own copies of the class\'s ENDOGENOUS and CHECK (the list the convergence test reads), each equal to its class-level list.',
    level_text='Every clause of the statement is an obligation on the real solve_t / solve_period source discharged by z3 for all inputs '
               '(unbounded in max_iter, number of check variables, span length); the bounded scripted-model run is conformance of the hook '
               'interface contract and the replay harness, not part of the proof.',
    level_note='trusted: pyvc encoder; z3; assumed NumPy contracts (np.array of scalars, isfinite/any/all/abs, element-wise float64 ops); '
               'hook interface assumption (user hooks do not touch status/iterations/check/endogenous); warnings.catch_warnings contract; '
               'tol is a float64; check variables are float variables',
    technique='contract-based deductive verification: pyvc VC generation from the real ast, loop invariant over a ghost pass history, z3',
    design_ref='DESIGN.md section 10 / C02',
    assumptions=['requires: wf(self), -n <= t < n, max_iter >= 0, names in check/endogenous are float variables (not status/iterations)',
                 'hook interface: _evaluate / solve_t_before / solve_t_after may change any variable cell and raise any Exception but do not touch '
                 'status, iterations, span, check, endogenous'],
)

PROPERTY.bounded.append(EncoderCrossCheck(_XT['C02']))
