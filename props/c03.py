"""C03 - variable classification, ordering and lag/lead lengths match the script."""
import os

from contracts.c01_programs import ProgramsContract, catalogue
from contracts.c03_symbols import CONTRACTS as SYMBOL_CONTRACTS  # combine + build_model_definition header
from contracts.c05_solve import SolveContract
from contracts.c15_templates import TemplateLemma
from props.parser_bounded import Classification, TokeniserDifferential
from verif.crosscheck import TARGETS as _XT, EncoderCrossCheck
from contracts.c01_tokeniser import TokeniserLemma
from verif.spec import PropertySpec

_tier = os.environ.get('VERIF_TIER', 'quick')
_seed = int(os.environ.get('VERIF_SEED', '0'))

PROPERTY = PropertySpec(
    id='C03',
    contracts=list(SYMBOL_CONTRACTS) + [SolveContract(), ProgramsContract(catalogue(_tier, _seed)), TokeniserLemma(), TemplateLemma()],
    bounded=[Classification(), TokeniserDifferential()],
    level='other',
    explanation='Symbol.combine proved for all inputs (every dynamic type of lags/leads/equation/code, every type pair): stronger of the two '
                'variable kinds, deepest lag / furthest lead with 0, SymbolError / ParserError exactly for the conflicting cases. Default range '
                'of solve() proved to be positions lags..n-1-leads. Per program: LAGS/LEADS of the built class equal the tree.',
    level_text='deductive for combine and the default range (all inputs); per-program for LAGS/LEADS; the tokenisation that feeds combine is '
               'bounded only (regex engine outside the verifier)',
    level_note='trusted: pyvc, z3; assumed: IntEnum members compare as their ints; tokenisation contract of term_re (bounded)',
    technique='contract-based deductive verification (pyvc + z3); per-program deductive checks',
    design_ref='DESIGN.md section 10 / C03',
)

PROPERTY.bounded.append(EncoderCrossCheck(_XT['C03']))

PROPERTY.explanation += ' The tokeniser lemma and differential of C01 and the template field lemma (each class attribute filled from the field of its own name, in both templates) are part of this check.'
