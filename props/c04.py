"""C04 - solving a period touches only that period; reads never wrap round the span."""
from contracts.c02_solve_t import SolveTContract
import os

from contracts.c01_programs import ProgramsContract, catalogue
from contracts.c05_solve import SolveContract
from props.parser_bounded import EvaluateDifferential
from props.solve_bounded import SolveTScripted
from verif.spec import PropertySpec

_c = SolveTContract()
_c.shards = {'generic/offset0': 2, 'parser/offset0': 2, 'generic/offset': 6, 'parser/offset': 6}

PROPERTY = PropertySpec(
    id='C04',
    contracts=[_c, SolveContract(), ProgramsContract(catalogue(os.environ.get('VERIF_TIER', 'quick'), int(os.environ.get('VERIF_SEED', '0'))))],
    bounded=[SolveTScripted(), EvaluateDifferential()],
    level='other',
    explanation='Frame obligations of BaseModel.solve_t from its real source: status/iterations change only at t; the three up-front '
                'rejections leave the whole state unchanged; under the parser-built interface contract (an evaluation pass writes only '
                'endogenous cells of period t - itself proved per generated program, see C01) no exogenous variable, parameter or error '
                'and no other period changes; the offset copy writes only endogenous cells of t. Default range of solve() proved to be '
                'positions lags..n-1-leads.',
    level_text='frame/modifies obligations discharged for all inputs; the read-set / no-wrap clause and the infeasible-period clause are '
               'carried by per-program checks (C01 engine) and recorded findings; mixed, hence other',
    level_note='as C02; assumed: generated _evaluate writes only endogenous cells of t (checked per program in C01); Fortran engine bounded only',
    technique='contract-based deductive verification (frame / modifies clauses proved by pyvc + z3); bounded scripted-model run',
    design_ref='DESIGN.md section 10 / C04',
)
