"""C04 - solving a period touches only that period; reads never wrap round the span."""
from contracts.c02_solve_t import SolveTContract
import os

from contracts.c01_programs import ProgramsContract, catalogue
from contracts.c05_solve import SolveContract
from props.parser_bounded import EvaluateDifferential
from props.solve_bounded import SolveTScripted
from verif.spec import PropertySpec

_c = SolveTContract()
_c.shards = {'generic/offset0': 2, 'parser/offset0': 2, 'generic/offset': 6, 'parser/offset': 6}

from verif.bounded import BoundedCheck, BoundedResult, Violation


class InfeasiblePeriod(BoundedCheck):
    name = 'c04.infeasible-period'
    props = ('C04',)
    concretises = ('fsic.core.models.BaseModel.solve_t',)
    bound_quick = 'parser-built models with lags / leads 1..2, span lengths LAGS+LEADS+1..+3, every period position in both spellings: feasible ones solve, infeasible ones must be rejected'
    bound_thorough = bound_quick
    required_covers = ('feasible', 'infeasible')

    def cases(self, tier, seed):
        for script in ('Y = Y[-1] + 1', 'Y = 0.5 * Y[-2] + X[1]', 'Y = X[2] - X'):
            for extra in (1, 2, 3):
                yield {'script': script, 'extra': extra}
        yield {'script': 'Y = Y[-1] + 1', 't': 0}

    def check(self, case, res):
        import fsic
        out = []
        Model = fsic.build_model(fsic.parse_model(case['script']))
        n = Model.LAGS + Model.LEADS + case.get('extra', 2)
        ts = [case['t']] if 't' in case else list(range(-n, n))
        for t in ts:
            m = Model(list(range(n)), X=1.0)
            nt = t % n
            feasible = Model.LAGS <= nt <= n - 1 - Model.LEADS
            res.nontrivial.add((case['script'], n, t))
            res.cover('feasible' if feasible else 'infeasible')
            try:
                m.solve_t(t, max_iter=3, failures='ignore')
                ok = True
            except Exception:  # noqa: BLE001
                ok = False
            if feasible and not ok:
                out.append(Violation('a feasible period is solved', 'c04.feasible-period-rejected', dict(case, t=t), 'solved', 'exception'))
            if not feasible and ok:
                out.append(Violation('an explicit request to solve a period that cannot accommodate the lags or leads is rejected rather than silently served',
                                     'c04.infeasible-period-served', dict(case, t=t), 'exception', 'returned', 'infeasible_period_is_rejected'))
        return out


class CheckListHistory(BoundedCheck):
    """Histories on the instance's own lists: whatever is done in place to model.check (or the class-level lists), solving a period changes no
    exogenous variable, parameter or error and no other period."""
    name = 'c04.check-list-history'
    props = ('C04',)
    bound_quick = ('parser-built models (CHECK is ENDOGENOUS at class level) and hand-written ones (separate lists); in-place edits of instance.check '
                   '(append exogenous name / remove / reverse) before solve_t at every feasible period with offset in {0, -1, 1}')
    bound_thorough = bound_quick
    required_covers = ('solved',)

    def cases(self, tier, seed):
        for script in ('Y = C + G\nC = {alpha} * Y[-1] + <eps>', 'Y = Y[-1] + G[1]'):
            for edit in ('none', 'append-exogenous', 'append-parameter', 'reverse', 'clear-and-refill'):
                for offset in (0, -1, 1):
                    for build in ('parser', 'hand'):
                        yield {'script': script, 'edit': edit, 'offset': offset, 'build': build}
            # one caller-owned array passed as the initial value of every variable: the model must own its series
            for offset in (0, -1):
                for init in ('shared-array', 'shared-int-array', 'shared-2d-row'):
                    yield {'script': script, 'edit': 'none', 'offset': offset, 'build': 'parser', 'init': init}

    def check(self, case, res):
        import warnings
        import fsic
        out = []
        symbols = fsic.parse_model(case['script'])
        Model = fsic.build_model(symbols)
        if case['build'] == 'hand':
            class Hand(Model):
                ENDOGENOUS = list(Model.ENDOGENOUS)
                CHECK = list(Model.CHECK)
            Model = Hand
        n = 7
        init = case.get('init')
        if init:
            import numpy as np
            base = {'shared-array': np.arange(n, dtype=float) + 1.0, 'shared-int-array': np.arange(n) + 1,
                    'shared-2d-row': (np.arange(2 * n, dtype=float) + 1.0).reshape(2, n)[0]}[init]
            keep = base.copy()
            m = Model(list(range(n)), **{x: base for x in Model.NAMES})
        else:
            m = Model(list(range(n)), alpha=0.5)
        non_endog = [x for x in m.names if x not in Model.ENDOGENOUS]
        for i, x in enumerate(non_endog):
            m[x] = [10.0 * (i + 1) + p for p in range(n)]
        if case['edit'] == 'append-exogenous':
            m.check.append('G')
        elif case['edit'] == 'append-parameter' and 'alpha' in m.names:
            m.check.append('alpha')
        elif case['edit'] == 'reverse':
            m.check.reverse()
        elif case['edit'] == 'clear-and-refill':
            keep = list(m.check)
            m.check.clear()
            m.check.extend(keep[:1])
        endog_before = list(m.endogenous)
        for t in range(Model.LAGS + 1, n - 1 - Model.LEADS):
            before = {x: m[x].copy() for x in m.names}
            res.nontrivial.add((case['script'], case['edit'], case['offset'], case['build'], t))
            with warnings.catch_warnings():
                warnings.simplefilter('ignore')
                try:
                    m.solve_t(t, offset=case['offset'], max_iter=5, failures='ignore', errors='ignore')
                    res.cover('solved')
                except Exception as ex:  # noqa: BLE001
                    out.append(Violation('a feasible period is solved', 'c04.history-exception', dict(case, t=t), 'solved', f'{type(ex).__name__}: {ex}'))
                    break
            for x in m.names:
                for p in range(n):
                    if (x in Model.ENDOGENOUS and p == t):
                        continue
                    a, b = m[x][p], before[x][p]
                    if not (a == b or (a != a and b != b)):
                        out.append(Violation('solving period t never changes exogenous variables, parameters or errors anywhere, nor any other period',
                                             'c04.history-frame', dict(case, t=t), f'{x}[{p}]={b}', f'{x}[{p}]={a}', 'frame'))
                        return out
        if init and not (base == keep).all():
            out.append(Violation("the model owns its series: an array passed as an initial value is not written through", 'c04.history-caller-array',
                                 case, keep.tolist(), base.tolist()))
        if list(m.endogenous) != endog_before or list(Model.ENDOGENOUS) != [s_ for s_ in Model.ENDOGENOUS]:
            out.append(Violation('the list of endogenous variables is not changed by editing the check list or by solving', 'c04.history-endogenous',
                                 case, endog_before, list(m.endogenous)))
        return out


from contracts.c09_containers import AddVariable, SetAttrVariable
from contracts.c11_copy import InitOwnership

PROPERTY = PropertySpec(
    id='C04',
    contracts=[_c, SolveContract(), InitOwnership('model'), AddVariable(), SetAttrVariable(), ProgramsContract(catalogue(os.environ.get('VERIF_TIER', 'quick'), int(os.environ.get('VERIF_SEED', '0'))))],
    bounded=[SolveTScripted(), EvaluateDifferential(), InfeasiblePeriod(), CheckListHistory()],
    level='other',
    explanation='Frame obligations of BaseModel.solve_t from its real source: status/iterations change only at t; the three up-front '
                'rejections leave the whole state unchanged; under the parser-built interface contract (an evaluation pass writes only '
                'endogenous cells of period t - itself proved per generated program, see C01) no exogenous variable, parameter or error '
                'and no other period changes; the offset copy writes only endogenous cells of t. Default range of solve() proved to be '
                'positions lags..n-1-leads.',
    level_text='frame/modifies obligations discharged for all inputs; the read-set / no-wrap clause and the infeasible-period clause are '
               'carried by per-program checks (C01 engine) and recorded findings; mixed, hence other',
    level_note='as C02; assumed: generated _evaluate writes only endogenous cells of t (checked per program in C01); Fortran engine bounded only',
    technique='contract-based deductive verification (frame / modifies clauses proved by pyvc + z3); bounded scripted-model run',
    design_ref='DESIGN.md section 10 / C04',
)
