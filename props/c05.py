"""C05 - solve() equals the ordered sequence of single-period solves; failures contained."""
from contracts.c05_solve import SolverDefaults
from contracts.c05_solve import SolveContract, SolvePeriodContract
from contracts.c10_labels import FallbackLocator, LocateDispatch, LocateOnRange
from props.containers_bounded import LabelAccess
from props.solve_bounded import SolveTScripted, SolveVsLoop
from verif.crosscheck import TARGETS as _XT, EncoderCrossCheck
from verif.spec import PropertySpec

PROPERTY = PropertySpec(
    id='C05',
    contracts=[SolveContract(), SolvePeriodContract(), LocateDispatch(), FallbackLocator(), LocateOnRange(), SolverDefaults()],
    bounded=[SolveTScripted(), LabelAccess(), SolveVsLoop()],
    level='other',
    explanation='SolverMixin.solve (with iter_periods and PeriodIter inlined from source) and solve_period are proved against a ghost '
                'call log of the single-period solver: exactly the positions pos(start)..pos(end) in order, caller options forwarded '
                'unchanged, returned (labels, positions, flags) triple equal to the calls, ValueError/KeyError/SolutionError raised before '
                'any call, an exception from the k-th call propagates after exactly k+1 calls. The span look-up is an assumed contract '
                'here; its conformance per span type is bounded (see C10) and carries the NumPy-array finding.',
    level_text='proof obligations for the control logic (all spans, all start/end, all option values) + bounded conformance of the assumed span '
               'look-up contract per span type; mixed, hence category other',
    level_note='trusted: pyvc, z3; assumed: contract of _locate_period_in_span (int position with span[pos]==label / non-int / KeyError), '
               'span labels pairwise distinct, contract of solve_t (C02/C06)',
    technique='contract-based deductive verification (pyvc + z3) with a ghost call log; bounded run-time conformance for the span look-up',
    design_ref='DESIGN.md section 10 / C05',
)

PROPERTY.bounded.append(EncoderCrossCheck(_XT['C05']))
