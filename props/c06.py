"""C06 - numerical-error and failure policies follow the documented state machine."""
from contracts.c02_solve_t import SolveTContract
from contracts.c05_solve import SolvePeriodContract
from props.solve_bounded import SolveTScripted
from verif.spec import PropertySpec

_c = SolveTContract()
_c.shards = {'generic/offset0': 2, 'parser/offset0': 2, 'generic/offset': 6, 'parser/offset': 6}

PROPERTY = PropertySpec(
    id='C06',
    contracts=[_c, SolvePeriodContract()],
    bounded=[SolveTScripted()],
    level='other',
    explanation='Same symbolic execution of the real BaseModel.solve_t as C02, without the finiteness restriction: the ghost history '
                'carries all_finite(Hf[j]); the postconditions are the policy state machine of the statement (first transition '
                'finite->non-finite decides under raise/skip, judged passes only under ignore/replace, exception chaining, warnings '
                'filter at every hook call, statuses in the five-value domain). One clause is violated by the code under '
                "errors='replace' (recorded finding F05): it is re-proved outside that region on every run and the witness is replayed.",
    level_text='all obligations discharged by z3 from the real source except the recorded finding F05, which is proved outside its region '
               "(errors != 'replace') and witnessed natively on every run; hence category other rather than proof",
    level_note='as C02; additionally assumed: warnings.catch_warnings/simplefilter contract (filter "error" makes the warning-raising statement '
               'raise instead of storing) - the "does not store its result" clause rests on it and on the bounded scripted run',
    technique='contract-based deductive verification (pyvc + z3), ghost pass history with finiteness facts; known-findings carve-out re-proved per run',
    design_ref='DESIGN.md section 10 / C06',
)
