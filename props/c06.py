"""C06 - numerical-error and failure policies follow the documented state machine."""
from contracts.c02_solve_t import SolveTContract
from contracts.c05_solve import SolvePeriodContract
from props.solve_bounded import SolveTScripted
from verif.spec import PropertySpec

_c = SolveTContract()
_c.shards = {'generic/offset0': 2, 'parser/offset0': 2, 'generic/offset': 6, 'parser/offset': 6}

PROPERTY = PropertySpec(
    id='C06',
    contracts=[_c, SolvePeriodContract()],
    bounded=[SolveTScripted()],
    level='other',
    explanation='Same symbolic execution of the real BaseModel.solve_t as C02, without the finiteness restriction: the ghost history '
                'carries all_finite(Hf[j]); the postconditions are the policy state machine of the statement (first transition '
                'finite->non-finite decides under raise/skip, judged passes only under ignore/replace, exception chaining, warnings '
                'filter at every hook call, statuses in the five-value domain). One clause is violated by the code under '
                "errors='replace' (recorded finding F05): it is re-proved outside that region on every run and the witness is replayed.",
    level_text='all obligations discharged by z3 from the real source except the recorded finding F05, which is proved outside its region '
               "(errors != 'replace') and witnessed natively on every run; hence category other rather than proof",
    level_note='as C02; additionally assumed: warnings.catch_warnings/simplefilter contract (filter "error" makes the warning-raising statement '
               'raise instead of storing) - the "does not store its result" clause rests on it and on the bounded scripted run',
    technique='contract-based deductive verification (pyvc + z3), ghost pass history with finiteness facts; known-findings carve-out re-proved per run',
    design_ref='DESIGN.md section 10 / C06',
)


# ---------------------------------------------------------------------------------------------------------------------
# parser-built models whose equations produce the fault naturally (division by zero, log of zero, overflow, 0/0)
# ---------------------------------------------------------------------------------------------------------------------
import math as _math
import warnings as _warnings

import numpy as _np

from verif.bounded import BoundedCheck, BoundedResult, Violation


class NaturalFaults(BoundedCheck):
    """The policy state machine on models built by the parser: the second equation of `Y = X + 1 / W = <faulting expression of Z>` produces a
    non-finite value (with a NumPy warning) at one chosen period on every pass; every errors x failures x catch_first_error x max_iter."""
    name = 'c06.natural-faults'
    props = ('C06',)
    bound_quick = ('4 naturally faulting expressions (1/Z, log(Z), exp(Z) overflow, Z/Z at 0) x fault period x errors in {raise, skip, ignore, replace} x failures x '
                   'catch_first_error x max_iter in {1, 3} x solve_t / solve_period / solve entry; healthy periods solve')
    bound_thorough = bound_quick
    required_covers = ('E', 'S', 'F', '.')
    FAULTS = {'1 / Z': 0.0, 'log(Z)': 0.0, 'exp(Z)': 1000.0, 'Z / Z': 0.0}

    def cases(self, tier, seed):
        for expr in self.FAULTS:
            for errors in ('raise', 'skip', 'ignore', 'replace'):
                for failures in ('raise', 'ignore'):
                    for cfe in (True, False):
                        for ma in (1, 3):
                            for entry in ('solve_t', 'solve_period', 'solve'):
                                if entry == 'solve' and ma < 2:
                                    continue            # a healthy period needs two passes (one to move, one to confirm)
                                yield {'expr': expr, 'errors': errors, 'failures': failures, 'cfe': cfe, 'max_iter': ma, 'entry': entry}

    def check(self, case, res: BoundedResult):
        import fsic
        from fsic.exceptions import NonConvergenceError, SolutionError
        out = []
        res.nontrivial.add(repr(case))
        Model = fsic.build_model(fsic.parse_model(f"Y = X + 1\nW = {case['expr']}"))
        span = list(range(2000, 2005))
        m = Model(span, X=2.0, Z=3.0)
        bad_t = 2
        m.Z[bad_t] = self.FAULTS[case['expr']]
        before_w = float(m.W[bad_t])
        kw = dict(max_iter=case['max_iter'], errors=case['errors'], failures=case['failures'], catch_first_error=case['cfe'])
        exc = result = None
        with _warnings.catch_warnings():
            _warnings.simplefilter('ignore')
            try:
                if case['entry'] == 'solve_t':
                    result = m.solve_t(bad_t, **kw)
                elif case['entry'] == 'solve_period':
                    result = m.solve_period(span[bad_t], **kw)
                else:
                    result = m.solve(start=span[bad_t], end=span[bad_t + 1], **kw)
            except Exception as ex:  # noqa: BLE001
                exc = ex

        def bad(clause, sig, expected, observed):
            out.append(Violation(clause, sig, case, expected, observed))
        ma = case['max_iter']
        if case['errors'] == 'raise':
            want = dict(status='E', iterations=1, exc='SolutionError')
        elif case['errors'] == 'skip':
            want = dict(status='S', iterations=1, exc=None, flag=False)
        else:
            want = dict(status='F', iterations=ma, exc='NonConvergenceError' if case['failures'] == 'raise' else None, flag=False)
        res.cover(want['status'])
        got_exc = type(exc).__name__ if exc is not None else None
        if got_exc != want['exc']:
            bad('the failing period raises exactly what its policy prescribes', f"c06.natural.exception:{want['exc']}->{got_exc}", want['exc'], f'{got_exc}: {exc}'[:90])
        if str(m.status[bad_t]) != want['status'] or int(m.iterations[bad_t]) != want['iterations']:
            bad('the failing period carries the status and pass count its policy prescribes', 'c06.natural.status', [want['status'], want['iterations']],
                [str(m.status[bad_t]), int(m.iterations[bad_t])])
        if exc is None and case['entry'] != 'solve' and result is not want.get('flag'):
            bad('the result flag is True iff the period solved', 'c06.natural.flag', want.get('flag'), result)
        # what is stored: stopping at the first warning (errors='raise' with catch_first_error) stores nothing; detection after the pass has stored the value
        w = float(m.W[bad_t])
        if case['errors'] == 'raise' and case['cfe']:
            if not (w == before_w):
                bad('stopping at the first numerical warning leaves the value unassigned', 'c06.natural.stored-despite-first-error', before_w, w)
        elif _math.isfinite(w):
            bad('a non-finite result detected after the pass is the value the pass stored', 'c06.natural.not-stored', 'non-finite', w)
        if float(m.Y[bad_t]) != 3.0:
            bad('equations before the faulting one are evaluated in the same pass', 'c06.natural.earlier-equation', 3.0, float(m.Y[bad_t]))
        # the other periods are untouched, except the following one when solve() goes on after a contained failure
        for t in range(len(span)):
            if t == bad_t:
                continue
            follows = case['entry'] == 'solve' and t == bad_t + 1 and exc is None
            if follows:
                res.cover('.')
                if str(m.status[t]) != '.' or float(m.W[t]) != _eval(case['expr'], 3.0):
                    bad('after a contained failure the following periods are solved as usual', 'c06.natural.following-period', '.', [str(m.status[t]), float(m.W[t])])
            elif str(m.status[t]) != '-' or int(m.iterations[t]) != -1:
                bad('periods that are not solved are untouched', 'c06.natural.other-period', ['-', -1], [str(m.status[t]), int(m.iterations[t])])
        return out


def _eval(expr, z):
    return {'1 / Z': 1 / z, 'log(Z)': _math.log(z), 'exp(Z)': _math.exp(z), 'Z / Z': 1.0}[expr]


PROPERTY.bounded.append(NaturalFaults())
