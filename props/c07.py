"""C07 - Fortran back-end computes what the Python back-end computes.

Contracts reach: the numbering / lag-lead logic of build_fortran_definition (checked per generated program against the
Python class built from the same symbols) and the FortranEngine wrapper as driven through an ENGINE with f2py's calling
convention.  "Fortran's reading of the emitted expression text equals Python's" is a fact about two language definitions,
not about a function in /repo: it is decided only by the bounded differential (gfortran + ctypes), DESIGN 10/C07.
"""
from __future__ import annotations

from contracts.c05_solve import SolverDefaults

import itertools
import math
import random
import re
import warnings

import numpy as np

from verif import grammar as G
from verif.bounded import BoundedCheck, BoundedResult, Violation
from contracts.c07_fortran import CONTRACTS as WRAPPER_CONTRACTS
from verif.spec import PropertySpec

SAFE_NUMS = ['2.0', '0.5', '1.0', '3.0', '0.25', '4.0']


def fortran_program(rnd: random.Random, n_eq: int, depth: int = 2):
    """Programs of the common subset written so that both back-ends read every literal as the same double."""
    names = ['Y', 'C', 'G', 'X1', 'H_d', 'K', 'DK', 'W']
    params = ['a', 'alpha_1', 'b2']
    errs = ['e', 'u']

    def var():
        r = rnd.random()
        k = rnd.choice([-2, -1, 0, 0, 0, 1])
        if r < 0.65:
            return G.Var('var', rnd.choice(names), k)
        if r < 0.85:
            return G.Var('param', rnd.choice(params), 0)
        return G.Var('err', rnd.choice(errs), 0)

    def expr(d=0):
        r = rnd.random()
        if d >= depth or r < 0.3:
            return var() if rnd.random() < 0.8 else G.Num(rnd.choice(SAFE_NUMS))
        if r < 0.7:
            op = rnd.choice(['+', '-', '*', '/', '**'])
            if op == '**':
                return G.Bin('**', G.Call('abs', (expr(d + 1),)), G.Num(rnd.choice(['2.0', '0.5', '3.0'])))
            return G.Bin(op, expr(d + 1), expr(d + 1))
        if r < 0.78:
            return G.Neg(expr(d + 1))
        if r < 0.86:
            return G.Paren(expr(d + 1))
        if rnd.random() < 0.5:
            f = rnd.choice(['exp', 'log', 'abs'])
            inner = expr(d + 1)
            if f == 'log':
                inner = G.Bin('+', G.Call('abs', (inner,)), G.Num('1.0'))
            if f == 'exp':
                inner = G.Bin('*', G.Num('0.25'), G.Call('min', (inner, G.Num('4.0'))))
            return G.Call(f, (inner,))
        return G.Call(rnd.choice(['max', 'min']), (expr(d + 1), expr(d + 1)))
    for _ in range(100):
        used = []
        eqs = []
        for _ in range(n_eq):
            lhs = rnd.choice([v for v in names if v not in used])
            used.append(lhs)
            eqs.append(G.Eq(G.Var('var', lhs, 0), expr()))
        if not G.conflicts(eqs) and not any(G._risky_constant(q.rhs) for q in eqs):
            return eqs
    raise RuntimeError('no program')


def long_program():
    """Long equation needing continuation lines, dozens of variables."""
    vs = [G.Var('var', f'V{i}', 0 if i % 3 else -1) for i in range(40)]
    rhs = vs[0]
    for i, v in enumerate(vs[1:]):
        rhs = G.Bin('+', rhs, G.Bin('*', G.Var('param', f'p{i % 7}', 0), v))
    return [G.Eq(G.Var('var', 'TOTAL', 0), rhs), G.Eq(G.Var('var', 'AVG', 0), G.Bin('/', G.Var('var', 'TOTAL', 0), G.Num('40.0')))]


class FortranDifferential(BoundedCheck):
    name = 'c07.differential'
    props = ('C07', 'C04')
    bound_quick = ('24 seeded programs of the common subset (1-3 equations, literals exactly representable in single precision) + a 40-variable program with '
                   'continuation lines; gfortran + ctypes ENGINE with f2py calling convention; evaluate at every feasible t incl. negative spelling; '
                   'solve_t over min_iter/max_iter/tol (incl. 0: a fixed point reached exactly has moved by 0, which is not less than 0)/offset/failures/errors; solve; plus one program per recorded literal finding')
    bound_thorough = '400 programs'
    required_covers = ('evaluate', 'solve_t', 'solve', 'negative-t', 'offset', 'numbering', 'continuation-lines')

    def cases(self, tier, seed):
        rnd = random.Random(seed + 2024)
        yield {'script': G.render_script(long_program()), 'seed': 1, 'kind': 'safe'}
        for i in range(400 if tier == 'thorough' else 24):
            p = fortran_program(rnd, rnd.randint(1, 3))
            yield {'script': G.render_script(p), 'seed': rnd.randrange(10 ** 6), 'kind': 'safe'}
        for s in ('Y = X / 2 + 1 / 2', 'Y = X * 2 ** -1', 'Y = X + 0.1', 'Y = max(X, 2)', 'Y = 0.5 * Y + X'):
            yield {'script': s, 'seed': 5, 'kind': 'literal'}
        # a sign straight after an operator binds as in Python (`X * -3.0 ** 2.0` is -(3 ** 2) * X)
        for sc in ('Y = X * -3.0 ** 2.0', 'Y = X ** -2.0 ** 2.0 + W', 'Y = W - -2.0 * X', 'Y = X / -4.0 ** U + -1.5'):
            yield {'script': sc, 'seed': 3, 'kind': 'safe'}
        # max / min of more than two arguments (Fortran's intrinsics and Python's built-ins both take any number)
        for sc in ('Y = max(X, W, 1.5)', 'Y = min(X, W, U, 2.0) + max(X, W)', 'Y = max(min(X, W, U), 0.5, W - X)'):
            yield {'script': sc, 'seed': 4, 'kind': 'safe'}
        # the build options of C03 (lags / leads replace, min_lags / min_leads only raise - and only what was not given explicitly):
        # text only, except two that are compiled and solved
        for lags, min_lags, leads, min_leads in itertools.product((None, 0, 1, 3), (0, 2), (None, 0, 2), (0, 1, 3)):
            yield {'script': 'Y = 0.5 * Y[-1] + X[1] + {a} * Z[-2]', 'seed': 6, 'kind': 'declarations+compile' if (lags, min_lags, leads, min_leads) in ((3, 2, None, 3), (None, 2, 2, 1)) else 'declarations',
                   'build': {'lags': lags, 'min_lags': min_lags, 'leads': leads, 'min_leads': min_leads}}
        # declarations of every size (the row-number lists are wrapped over continuation lines): text only, no compilation, except a few sizes
        for nvars in range(1, 131):
            terms = ' + '.join([f'X{i}' for i in range(nvars)] + [f'{{p{i}}}' for i in range(nvars // 3)])
            eqs = '\n'.join([f'Y = {terms}'] + [f'Z{i} = Y * {i + 1}.0' for i in range(nvars // 2)])
            yield {'script': eqs, 'seed': nvars, 'kind': 'declarations' if nvars not in (37, 64, 101) else 'declarations+compile'}

    def check(self, case, res: BoundedResult):
        import fsic
        import fsic.fortran
        from verif.fortran_engine import CompileError, compile_source
        out = []
        script = case['script']
        res.nontrivial.add(script)
        symbols = fsic.parse_model(script)
        bkw = dict(case.get('build') or {})
        Py = fsic.build_model(symbols, **bkw)
        src = fsic.fortran.build_fortran_definition(symbols, **bkw)
        jcase = {'script': script, 'seed': case['seed'], 'kind': case['kind']}
        if bkw:
            jcase['build'] = bkw

        def bad(clause, sig, expected, observed, ob=''):
            out.append(Violation(clause, sig, jcase, expected, observed, ob))
        literal_sig = None
        if case['kind'] == 'literal':
            literal_sig = {'Y = X / 2 + 1 / 2': 'integer-division', 'Y = X * 2 ** -1': 'negative-integer-exponent', 'Y = X + 0.1': 'single-precision-literal',
                           'Y = max(X, 2)': 'mixed-type-intrinsic'}.get(script)
        # ---- numbering: Fortran row numbers follow the Python class's variable order -------------------------------
        res.cover('numbering')
        names = list(Py.NAMES)
        for kind, attr in (('endogenous', 'ENDOGENOUS'), ('exogenous', 'EXOGENOUS'), ('parameters', 'PARAMETERS'), ('errors', 'ERRORS')):
            m = re.search(rf'::\s*{kind}(?:\s*=\s*\(/\s*(.*?)\s*/\))?\s*$', src.replace('&\n&', ''), re.M | re.S)
            got = [int(x) for x in re.findall(r'\d+', m.group(1))] if m and m.group(1) else []
            want = [names.index(x) + 1 for x in getattr(Py, attr)]
            if got != want:
                bad('variable numbering in the Fortran module matches the Python class variable order', f'c07.numbering:{kind}', want, got, 'numbering')
        lm = re.search(r'integer :: lags = (-?\d+), leads = (-?\d+)', src)
        if not lm or (int(lm.group(1)), int(lm.group(2))) != (Py.LAGS, Py.LEADS):
            bad('lag/lead lengths of the Fortran module equal those of the Python class', 'c07.lags-leads', (Py.LAGS, Py.LEADS), lm.groups() if lm else None, 'lags_leads')
        if '&\n' in src.split('subroutine evaluate')[1].split('end subroutine evaluate')[0]:
            res.cover('continuation-lines')
        if case['kind'] == 'declarations':
            return out
        try:
            eng = compile_source(src)
        except CompileError as ex:
            bad('the generated Fortran source compiles', (f'c07.literal:{literal_sig}' if literal_sig else 'c07.compile'), 'compiles', str(ex)[-200:], 'compiles')
            return out

        class F(fsic.fortran.FortranEngine, Py):
            ENGINE = eng
        rnd = random.Random(case['seed'])
        n = Py.LAGS + Py.LEADS + 4
        data = {nm: np.array([rnd.choice([0.5, 1.0, 1.5, 2.0]) + rnd.random() for _ in range(n)]) for nm in names}
        for nm in Py.PARAMETERS:
            data[nm] = np.full(n, rnd.choice([0.1, 0.25, 0.4]))

        def mk(cls):
            return cls(list(range(n)), **{k: v.copy() for k, v in data.items()})

        def close(a, b):
            a, b = np.asarray(a, float), np.asarray(b, float)
            with np.errstate(all='ignore'):
                return bool(np.all((np.abs(a - b) <= 1e-12 * np.maximum(1.0, np.abs(a))) | (np.isnan(a) & np.isnan(b)) | (a == b)))

        def outcome(m, fn):
            with warnings.catch_warnings():
                warnings.simplefilter('ignore')
                with np.errstate(all='ignore'):
                    try:
                        r = fn(m)
                        return ('ret', repr(r))
                    except Exception as ex:  # noqa: BLE001
                        return ('exc', type(ex).__name__)

        def compare(tag, fn, detail, need_finite=True):
            res.evaluations += 1
            res.nontrivial.add((script, tag, repr(detail)))
            a, b = mk(Py), mk(F)
            oa, ob_ = outcome(a, fn), outcome(b, fn)
            if need_finite and not np.all(np.isfinite(a.values.astype(float))):
                return
            sig_extra = ''
            if literal_sig and (oa != ob_ or not close(a.values, b.values) or a.iterations.tolist() != b.iterations.tolist()):
                bad('numeric constants denote the same double-precision real numbers in both back-ends', f'c07.literal:{literal_sig}', oa, ob_, tag)
                return
            if oa != ob_:
                bad('same return values and exception types as the pure-Python class', f'c07.{tag}:outcome{sig_extra}', oa, ob_, tag)
                return
            if not close(a.values, b.values):
                bad('same variable values (to floating-point rounding) as the pure-Python class', f'c07.{tag}:values{sig_extra}', np.round(a.values.astype(float), 9).tolist()[:3],
                    np.round(b.values.astype(float), 9).tolist()[:3], tag)
            elif a.status.tolist() != b.status.tolist() or a.iterations.tolist() != b.iterations.tolist():
                bad('same statuses and iteration counts as the pure-Python class', f'c07.{tag}:bookkeeping{sig_extra}', [a.status.tolist(), a.iterations.tolist()],
                    [b.status.tolist(), b.iterations.tolist()], tag)
        feas = list(range(Py.LAGS, n - Py.LEADS))
        for t in feas:
            res.cover('evaluate')
            compare('evaluate', lambda m, t=t: m._evaluate(t), t)
            res.cover('negative-t')
            compare('evaluate', lambda m, t=t: m._evaluate(t - n), t - n)
        t0 = feas[len(feas) // 2]
        for mi, ma, tol, off, fl, er in itertools.product((0, 2), (0, 1, 6, 60), (1e-10, 0.1, 0.0), (0, -1, 1, -n - 1, n + 1), ('raise', 'ignore'), ('raise', 'skip', 'replace')):
            if mi > ma and rnd.random() < 0.7:
                continue
            if rnd.random() < (0.6 if case['kind'] == 'safe' else 0.0):
                continue
            res.cover('solve_t')
            if off:
                res.cover('offset')
            t = rnd.choice([t0, t0 - n])
            if off and not (Py.LAGS <= (t % n) + off <= n - 1 - Py.LEADS) and 0 <= (t % n) + off < n:
                pass
            compare('solve_t', lambda m, t=t: m.solve_t(t, min_iter=mi, max_iter=ma, tol=tol, offset=off, failures=fl, errors=er), (t, mi, ma, tol, off, fl, er))
        # offsets at the very edge of the span, for both spellings of t: last / first period inside, one past the end / one before the start
        for t in (t0, t0 - n):
            for off in (n - 1 - (t % n), n - (t % n), -(t % n), -(t % n) - 1):
                if off:
                    res.cover('offset')
                    compare('solve_t', lambda m, t=t, off=off: m.solve_t(t, max_iter=6, tol=1e-10, offset=off, failures='ignore', errors='ignore'), (t, 'edge-offset', off))
        # a period that is re-solved from a solved neighbour (offset) although its own values are stale: seeding happens before the first comparison
        def reseed(m):
            for nm in m.names:
                if nm not in m.ENDOGENOUS:
                    m[nm] = float(m[nm][0])                       # constant exogenous data: neighbouring periods have the same solution
            m.solve(max_iter=200, failures='ignore', errors='ignore')
            for nm in m.ENDOGENOUS:
                m[nm][feas[1]:] = m[nm][feas[1]:] + 7.0          # stale values in the periods to be solved again
            return m.solve(start=m.span[feas[1]], end=m.span[feas[-1]], offset=-1, max_iter=200, failures='ignore', errors='ignore')
        if len(feas) >= 2 and Py.LEADS == 0:
            res.cover('solve')
            compare('solve', reseed, 'offset-after-solved-neighbour', need_finite=False)
        for ma, fl in ((60, 'raise'), (2, 'ignore'), (2, 'raise')):
            res.cover('solve')
            compare('solve', lambda m: m.solve(max_iter=ma, failures=fl), (ma, fl))
            compare('solve', lambda m: m.solve(start=feas[0], end=feas[-1], max_iter=ma, failures=fl, offset=-1 if feas[0] > 0 else 0), (ma, fl, 'offset'))
        return out


_orig_run = FortranDifferential.run


def _run_and_clean(self, tier, seed):
    from verif.fortran_engine import cleanup
    try:
        return _orig_run(self, tier, seed)
    finally:
        cleanup()        # compiled objects live outside /repo and /verif and are removed after every run


FortranDifferential.run = _run_and_clean


PROPERTY = PropertySpec(
    id='C07',
    contracts=list(WRAPPER_CONTRACTS) + [SolverDefaults()],
    bounded=[FortranDifferential()],
    level='other',
    explanation='FortranEngine.solve_t, _evaluate and solve (two-period range of a four-period span) are executed symbolically from source against an assumed contract of the compiled ENGINE: the period is passed '
                'one-based, check-variable rows are the one-based positions in the variable order, limits / tolerance / offset / option code unchanged; returned '
                'codes map, period by period and in order, to the outcomes of the Python solver (status, iterations, solved flags, exception class; after an exception the later period is untouched); values written back as the engine returned them. '
                'The ENGINE contract and the language-level equivalence are decided by the bounded differential (gfortran + ctypes, f2py calling convention).',
    level_text='proof obligations for the wrapper (all options and returned codes) + bounded differential run-time contract: per program the Fortran numbering / lag-lead constants are compared with the Python class, the '
               'source is compiled (gfortran) and evaluate / solve_t / solve driven through the real FortranEngine wrapper are compared with the '
               'pure-Python class on random finite data (values to 1e-12 relative, statuses, iteration counts, return values, exception classes); '
               'that Fortran reads the emitted expression text as Python does cannot be expressed as a contract on a function of /repo',
    level_note='trusted: gfortran, ctypes harness with f2py calling convention; bound: 25 programs (quick) of the common subset with literals exactly '
               'representable in single precision; the Fortran template has no front end in pyvc (DESIGN 4.3)',
    technique='contract-based deductive verification of the FortranEngine wrappers (pyvc + z3, assumed ENGINE contract); bounded differential (gfortran + ctypes) for the rest',
    design_ref='DESIGN.md section 10 / C07',
)
