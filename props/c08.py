"""C08 - linker solves its submodels jointly and consistently."""
from __future__ import annotations

from contracts.c05_solve import SolverDefaults

import itertools
import random
import warnings

import numpy as np

from contracts.c08_linker import CONTRACTS as LINKER_CONTRACTS
from verif.bounded import BoundedCheck, BoundedResult, Violation
from verif.spec import PropertySpec

TOL = 0.25
VALS = [0.0, 0.125, 0.25, 0.75]


def classes():
    import fsic

    class Sub(fsic.BaseModel):
        ENDOGENOUS = ['X']
        EXOGENOUS = ['Z']
        NAMES = ENDOGENOUS + EXOGENOUS
        CHECK = ['X']
        LAGS = 0
        script = ()
        log = None
        ident = ''

        def _evaluate(self, t, *, errors='raise', catch_first_error=True, iteration=None, **kwargs):
            self.log.append(('eval', self.ident, iteration))
            self._X[t] = self.script[min(iteration, len(self.script)) - 1] if self.script else 0.0

    class Linker(fsic.BaseLinker):
        ENDOGENOUS = ['L']
        NAMES = ENDOGENOUS
        CHECK = ENDOGENOUS
        log = None
        lscript = ()

        def solve_t_before(self, t, **kw):
            self.log.append(('solve_t_before', kw.get('iteration')))

        def solve_t_after(self, t, **kw):
            self.log.append(('solve_t_after', kw.get('iteration')))

        def evaluate_t_before(self, t, **kw):
            self.log.append(('before', kw.get('iteration')))

        def evaluate_t_after(self, t, **kw):
            self.log.append(('after', kw.get('iteration')))
            if self.lscript:
                self._L[t] = self.lscript[min(kw.get('iteration'), len(self.lscript)) - 1]

    return Sub, Linker


class LinkerScripted(BoundedCheck):
    name = 'c08.linker-scripted'
    props = ('C08',)
    concretises = ('fsic.core.linkers.BaseLinker.solve_t',)
    bound_quick = ('linkers over 1..3 scripted submodels (one check variable each), all scripts of length <= 2 over {0, tol/2, tol, 3tol} per '
                   'submodel for 1-2 submodels, min_iter 0..max_iter+1, failures, every selection (subsets, reversed order, unknown id); '
                   'single-model equivalence with BaseModel.solve_t; offset 0 / -1; 600 random cases with 3 submodels and max_iter <= 4')
    bound_thorough = 'scripts of length <= 3; 10000 random cases'
    required_covers = ('solved', 'failed', 'keyerror', 'subset', 'reordered', 'single-model-equivalence', 'offset', 'linker-check-variable')

    def cases(self, tier, seed):
        L = 3 if tier == 'thorough' else 2
        for k in (1, 2):
            ids = ['A', 'B'][:k]
            sels = [None] + [list(s) for r in range(0, k + 1) for s in itertools.permutations(ids, r)] + [['A', 'zzz']]
            for ma in range(0, L + 1):
                for scripts in itertools.product(itertools.product(VALS, repeat=ma), repeat=k):
                    for mi in range(0, ma + 2):
                        for sel in sels:
                            for failures in ('raise', 'ignore'):
                                yield dict(ids=ids, scripts=[list(s) for s in scripts], min_iter=mi, max_iter=ma, failures=failures, selection=sel,
                                           offset=0, t=2)
        # linkers with their own check variable (updated in the linker's post-evaluation hook)
        for ma in range(1, L + 1):
            for script in itertools.product(VALS, repeat=ma):
                for lscript in itertools.product(VALS, repeat=ma):
                    for mi in (0, ma):
                        yield dict(ids=['A'], scripts=[list(script)], lscript=list(lscript), min_iter=mi, max_iter=ma, failures='ignore',
                                   selection=None, offset=0, t=1)
        rnd = random.Random(seed * 31 + 5)
        for _ in range(10000 if tier == 'thorough' else 600):
            k = rnd.randint(1, 3)
            # ids in alphabetical insertion order, in an insertion order that is not the sorted one, and of mixed (not mutually comparable) types
            ids = rnd.choice([['A', 'B', 'C'], ['West', 'East', 'North'], ['C', 'A', 'B'], ['UK', 1, 'EU'], [2, 1, 0]])[:k]
            ma = rnd.randint(0, 4)
            sel = rnd.choice([None, rnd.sample(ids, rnd.randint(0, k)), ids[::-1]])
            yield dict(ids=ids, scripts=[[rnd.choice(VALS) for _ in range(ma)] for _ in ids], min_iter=rnd.randint(0, ma + 1), max_iter=ma,
                       failures=rnd.choice(['raise', 'ignore']), selection=sel, offset=rnd.choice([0, 0, -1]), t=rnd.choice([1, 2, -1, -2]))

    def check(self, case, res: BoundedResult):
        from fsic.exceptions import NonConvergenceError
        Sub, Linker = classes()
        out = []
        n = 4
        ids = case['ids']
        log = []
        subs = {}
        for i, sid in enumerate(ids):
            m = Sub(list(range(n)), X=[10.0 + i, 20.0 + i, 30.0 + i, 40.0 + i], Z=1.0)
            m.script, m.log, m.ident = tuple(case['scripts'][i]), log, sid
            m.status[:] = ['-', '.', '-', 'F']
            m.iterations[:] = [-1, 5, -1, 7]
            subs[sid] = m
        lk = Linker(subs)
        lk.log = log
        lk.lscript = tuple(case.get('lscript') or ())
        t = case['t']
        nt = t if t >= 0 else t + n
        sel = case['selection']
        selected = [s for s in (sel if sel is not None else ids) if s in ids]
        before = {sid: {k: m[k].copy() for k in ('X', 'Z', 'status', 'iterations')} for sid, m in subs.items()}
        kw = dict(min_iter=case['min_iter'], max_iter=case['max_iter'], tol=TOL, failures=case['failures'], offset=case['offset'])
        if sel is not None:
            # the selection in the spellings a caller may use for "a sequence of ids": list, tuple, dict keys (chosen by the case, deterministically)
            spelling = (len(repr(case)) + len(sel)) % 3
            kw['submodels'] = list(sel) if spelling == 0 else tuple(sel) if spelling == 1 else dict.fromkeys(sel).keys() if len(set(sel)) == len(sel) else tuple(sel)
        exc = result = None
        with warnings.catch_warnings():
            warnings.simplefilter('ignore')
            try:
                result = lk.solve_t(t, **kw)
            except Exception as ex:  # noqa: BLE001
                exc = ex
        res.nontrivial.add(repr(case))

        def bad(clause, sig, expected, observed, ob=''):
            out.append(Violation(clause, sig, case, expected, observed, ob))
        unknown = sel is not None and any(s not in ids for s in sel)
        if unknown:
            res.cover('keyerror')
            if not isinstance(exc, KeyError):
                bad('an unknown submodel id raises KeyError', 'c08.unknown-id', 'KeyError', repr(exc), 'unknown_submodel_id_raises_KeyError')
            return out
        if sel is not None and set(sel) != set(ids):
            res.cover('subset')
        if sel is not None and len(sel) > 1 and sel != [i for i in ids if i in sel]:
            res.cover('reordered')
        # expected per the property: seed from t+offset, then iterate
        x = {sid: float(before[sid]['X'][nt + case['offset']]) if case['offset'] else float(before[sid]['X'][nt]) for sid in selected}
        lval = 0.0
        if case.get('lscript'):
            res.cover('linker-check-variable')
        if case['offset']:
            res.cover('offset')
        exp_status, exp_it = 'F', case['max_iter']
        for j in range(1, case['max_iter'] + 1):
            new = {sid: subs[sid].script[j - 1] for sid in selected}
            moved = [abs(new[sid] - x[sid]) for sid in selected]
            x = new
            if case.get('lscript'):
                moved.append(abs(case['lscript'][j - 1] - lval))
                lval = case['lscript'][j - 1]
            if j >= case['min_iter'] and all(mv < TOL for mv in moved):
                exp_status, exp_it = '.', j
                break
        res.cover('solved' if exp_status == '.' else 'failed')
        exp_exc = 'NonConvergenceError' if exp_status == 'F' and case['failures'] == 'raise' else None
        if case['offset'] and case['max_iter'] == 0:
            for sid in selected:
                if float(subs[sid].X[nt]) != float(before[sid]['X'][nt + case['offset']]):
                    bad('a non-zero offset seeds period t from t+offset as it does for a single model', 'c08.offset-ignored', float(before[sid]['X'][nt + case['offset']]),
                        float(subs[sid].X[nt]), 'offset_seeds_period')
        if case['offset']:
            # with the seed ignored the first comparison differs: only the seeding clause is judged on these cases
            return out
        ename = type(exc).__name__ if exc is not None else None
        if ename != exp_exc:
            bad('exception class', f'c08.exception:{exp_exc}->{ename}', exp_exc, repr(exc), 'only_documented_exceptions')
        if exc is None and result is not (exp_status == '.'):
            bad('result flag', 'c08.result', exp_status == '.', result, 'result_true_iff_solved')
        if str(lk.status[nt]) != exp_status or int(lk.iterations[nt]) != exp_it:
            bad('linker status and iteration count', 'c08.linker-bookkeeping', [exp_status, exp_it], [str(lk.status[nt]), int(lk.iterations[nt])],
                'solved:linker_iterations')
        for sid in ids:
            m = subs[sid]
            if sid in selected:
                if str(m.status[nt]) != exp_status or int(m.iterations[nt]) != exp_it:
                    bad('same status stamped on each selected submodel, iteration count equal to the linker\'s', 'c08.submodel-bookkeeping',
                        [exp_status, exp_it], [sid, str(m.status[nt]), int(m.iterations[nt])], 'stamped_with_linker_status')
            else:
                for k in ('X', 'Z', 'status', 'iterations'):
                    if not np.array_equal(m[k], before[sid][k]):
                        bad('unselected submodels are neither evaluated nor re-stamped', 'c08.unselected-touched', before[sid][k].tolist(), m[k].tolist(),
                            'unselected_submodel')
            for i in range(n):
                if i != nt and (str(m.status[i]) != str(before[sid]['status'][i]) or int(m.iterations[i]) != int(before[sid]['iterations'][i])):
                    bad('bookkeeping changes only at t', 'c08.frame', 'unchanged', [sid, i], 'bookkeeping_changes_only_at_t')
        # iteration structure
        want = [('solve_t_before', 0)]
        for j in range(1, exp_it + 1):
            want.append(('before', j))
            want += [('eval', sid, j) for sid in (sel if sel is not None else ids)]
            want.append(('after', j))
        if exp_status == '.':
            want.append(('solve_t_after', exp_it))
        if log != want:
            bad('each iteration: linker pre-hook, one pass of every selected submodel in the order selected, post-hook', 'c08.iteration-structure',
                want[:8], log[:8], 'each_iteration_runs')
        # single-model equivalence
        if len(ids) == 1 and selected == ids and case['min_iter'] <= case['max_iter'] and not case.get('lscript'):   # (direct solve_t rejects min_iter > max_iter; the statement fixes nothing for linkers there)
            res.cover('single-model-equivalence')
            m2 = Sub(list(range(n)), X=[10.0, 20.0, 30.0, 40.0], Z=1.0)
            m2.script, m2.log, m2.ident = tuple(case['scripts'][0]), [], 'A'
            r2 = e2 = None
            try:
                r2 = m2.solve_t(t, min_iter=case['min_iter'], max_iter=case['max_iter'], tol=TOL, failures=case['failures'])
            except Exception as ex:  # noqa: BLE001
                e2 = ex
            direct = [str(m2.status[nt]), int(m2.iterations[nt]), float(m2.X[nt]), r2, type(e2).__name__ if e2 else None]
            linked = [str(subs[ids[0]].status[nt]), int(subs[ids[0]].iterations[nt]), float(subs[ids[0]].X[nt]), result, ename]
            if direct != linked:
                bad('a linker wrapping a single model solves it to the same statuses, iteration counts and values as solving it directly',
                    'c08.single-model-equivalence', direct, linked, 'single_model_equiv')
        return out


from contracts.c05_solve import LinkerSolveContract  # noqa: E402
from contracts.c11_copy import InitOwnership  # noqa: E402

PROPERTY = PropertySpec(
    id='C08',
    contracts=list(LINKER_CONTRACTS) + [LinkerSolveContract(), SolverDefaults(), InitOwnership('linker')],
    bounded=[LinkerScripted()],
    level='other',
    explanation='BaseLinker.solve_t (with evaluate_t inlined from source) is executed symbolically for every linker shape of the catalogue '
                '(0-2 submodels, every selection) with symbolic spans, data and options; the loop is cut by an invariant over a joint ghost '
                'history; postconditions from the statement (joint convergence of all judged members, stamping, unselected untouched, '
                'iteration structure, KeyError). BaseLinker.__init__ proved for 0-3 submodels. The offset clause is a recorded finding. '
                'Two defects were repaired (squared-difference test; max_iter=0).',
    level_text='deductive for all data per linker shape (shapes enumerated) + bounded scripted run incl. single-model equivalence; the '
               'offset clause is a recorded finding, hence category other',
    level_note='trusted: pyvc, z3; hook interface assumption; x**2 == x*x for float64; linker shapes enumerated (bound: 2 submodels deductive, 3 bounded)',
    technique='contract-based deductive verification (pyvc + z3, loop invariant over a joint ghost pass history); bounded scripted linkers',
    design_ref='DESIGN.md section 10 / C08',
)


class LinkerInitBounded(BoundedCheck):
    """BaseLinker construction: differing spans are rejected, lags/leads are maxima."""
    name = 'c08.linker-init'
    props = ('C08',)
    bound_quick = 'pairs / triples of submodels whose spans are equal, differ in a label, differ in length (one a prefix of the other), differ in type; LAGS/LEADS in 0..2'
    bound_thorough = bound_quick
    required_covers = ('same', 'different', 'prefix')

    def cases(self, tier, seed):
        spans = {'a': list(range(5)), 'b': list(range(1, 6)), 'prefix': list(range(4)), 'longer': list(range(6)), 'str': ['a', 'b', 'c', 'd', 'e']}
        for x in spans:
            for y in spans:
                for order in (0, 1):
                    yield {'spans': [x, y] if order == 0 else [y, x], 'lags': [1, 2], 'leads': [2, 0]}
        yield {'spans': ['a', 'a', 'prefix'], 'lags': [0, 1, 2], 'leads': [1, 1, 0]}

    def check(self, case, res):
        import fsic
        from fsic.exceptions import InitialisationError
        spans = {'a': list(range(5)), 'b': list(range(1, 6)), 'prefix': list(range(4)), 'longer': list(range(6)), 'str': ['a', 'b', 'c', 'd', 'e']}
        out = []
        subs = {}
        for i, (sp, lg, ld) in enumerate(zip(case['spans'], case['lags'], case['leads'])):
            cls = type(f'M{i}', (fsic.BaseModel,), {'LAGS': lg, 'LEADS': ld})
            subs[f'm{i}'] = cls(list(spans[sp]))
        same = all(spans[s] == spans[case['spans'][0]] for s in case['spans'])
        res.nontrivial.add(repr(case))
        res.cover('same' if same else 'different')
        if not same and any(spans[a][:len(spans[b])] == spans[b] or spans[b][:len(spans[a])] == spans[a] for a in case['spans'] for b in case['spans'] if spans[a] != spans[b]):
            res.cover('prefix')
        try:
            lk = fsic.BaseLinker(subs)
            ok = True
        except InitialisationError:
            ok = False
        if same and not ok:
            out.append(Violation('submodels with identical spans are accepted', 'c08.init-rejects-equal-spans', case, 'linker', 'InitialisationError'))
        if not same and ok:
            out.append(Violation('submodels with differing spans are rejected at construction', 'c08.init-accepts-differing-spans', case, 'InitialisationError', 'linker',
                                 'submodels_with_differing_spans_are_rejected'))
        if same and ok and (lk.LAGS, lk.LEADS) != (max(case['lags']), max(case['leads'])):
            out.append(Violation("the linker's lag/lead lengths are the maxima over its submodels", 'c08.init-lags-leads', case, (max(case['lags']), max(case['leads'])), (lk.LAGS, lk.LEADS)))
        return out


PROPERTY.bounded.append(LinkerInitBounded())
