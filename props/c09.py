"""C09 - container series keep their length and dtype under every assignment history."""
from contracts.c09_containers import CONTRACTS as CONTAINER_CONTRACTS
from contracts.c10_labels import LabelItem
from props.containers_bounded import Histories
from verif.crosscheck import TARGETS as _XT, EncoderCrossCheck
from verif.spec import PropertySpec

PROPERTY = PropertySpec(
    id='C09', contracts=list(CONTAINER_CONTRACTS) + [LabelItem('__setitem__')], bounded=[Histories()], level='other',
    explanation='Representation invariant wf(container) (every indexed name bound to a 1-D array with one element per period) proved to be preserved, with the '
                'whole view specified (every other binding identical) and the raising paths proved to change nothing, for add_variable, __setattr__ on a '
                'variable (all value shapes: scalar, str, arbitrary sequence with the deliberately weak np.array contract, ndarray) and '
                'ModelInterface.add_variable; the invariant includes ownership (every series owns its memory). Further contracts: the attribute branch of __setattr__ (what strict blocks and what it '
                'leaves assignable), add_attribute, the `values` setter of containers and models (shape check before anything is assigned; each variable assigned once, in order, through the checked '
                'assignment), replace_values, `size`, the `values` getter (declaration order), __setitem__ for unknown names, ModelInterface.__init__ (bookkeeping first, one variable per name with its keyword or the default). '
                'Item/label stores are the C10 contracts; the NumPy assumptions are exercised by the bounded histories on the real classes.',
    level_text='proof obligations for every public mutator named in the statement (all inputs inside each enumerated shape, opaque array algebra) + bounded histories as conformance of the NumPy assumptions and for sequences of operations; mixed, hence other',
    level_note='bound: histories of length <= 2 exhaustive over a 60-operation alphabet, random to length 6',
    technique='contract-based deductive verification of the representation invariant (pyvc + z3); bounded histories as conformance and stand-in',
    design_ref='DESIGN.md section 10 / C09',
)

PROPERTY.bounded.append(EncoderCrossCheck(_XT['C09']))
