"""C09 - container series keep their length and dtype under every assignment history."""
from props.containers_bounded import Histories
from verif.spec import PropertySpec

PROPERTY = PropertySpec(
    id='C09', contracts=[], bounded=[Histories()], level='exploration',
    explanation='bounded: operation histories on the real classes',
    level_text='bounded run-time contract (stand-in): representation invariant wf(container) and the frame on raising paths evaluated after '
               'every operation of exhaustively enumerated short histories and random longer ones; the deductive contracts for the mutators are '
               'not yet discharged (see DESIGN section 14), so nothing is counted as proved',
    level_note='bound: histories of length <= 2 exhaustive over a 60-operation alphabet, random to length 6',
    technique='contract-based verification: run-time contract (representation invariant + frame) on the real mutators, bounded histories',
    design_ref='DESIGN.md section 10 / C09',
)
