"""C10 - label-based access addresses exactly the labelled periods."""
from contracts.c10_labels import CONTRACTS as LABEL_CONTRACTS
from props.containers_bounded import LabelAccess
from verif.crosscheck import TARGETS as _XT, EncoderCrossCheck
from verif.spec import PropertySpec

PROPERTY = PropertySpec(
    id='C10', contracts=list(LABEL_CONTRACTS), bounded=[LabelAccess()], level='other',
    explanation='_resolve_period_slice and the tuple-key paths of __getitem__/__setitem__ are executed symbolically from source with symbolic span length, labels '
                '(integers, so that 0 is a falsy label), data and value, concrete steps in {None,1,2,3}: the addressed position set is exactly pos(a)..pos(b) in steps '
                'of s, open ends are the ends of the span, a single label addresses pos(label), an absent label or unknown name raises KeyError and touches nothing, '
                'no other series changes. The span look-up per span type is an assumed contract, exercised by the bounded conformance run over ten span types.',
    level_text='proof obligations for the slice/label resolution (all spans, labels, data) + bounded conformance of the assumed look-up contract over spans of each supported type: single labels, every (start, stop, step) triple incl. open '
               'ends and falsy labels, absent labels, get and set, read-back through every access path',
    level_note='bound: span length 4 (quick) / 1..6 (thorough) per type',
    technique='contract-based deductive verification (pyvc + z3) of the label/slice resolution; bounded conformance of the look-up contract per span type',
    design_ref='DESIGN.md section 10 / C10',
)

PROPERTY.bounded.append(EncoderCrossCheck(_XT['C10']))
