"""C10 - label-based access addresses exactly the labelled periods."""
from props.containers_bounded import LabelAccess
from verif.spec import PropertySpec

PROPERTY = PropertySpec(
    id='C10', contracts=[], bounded=[LabelAccess()], level='exploration',
    explanation='bounded: every label and label slice over ten span types on the real container',
    level_text='bounded run-time contract (stand-in) over spans of each supported type: single labels, every (start, stop, step) triple incl. open '
               'ends and falsy labels, absent labels, get and set, read-back through every access path',
    level_note='bound: span length 4 (quick) / 1..6 (thorough) per type',
    technique='contract-based verification: run-time contract of the label look-up / slice resolution, bounded enumeration',
    design_ref='DESIGN.md section 10 / C10',
)
