"""C11 - copies and sibling instances share no mutable state."""
from contracts.c11_copy import CONTRACTS as COPY_CONTRACTS
from contracts.c09_containers import AddVariable, SetAttrVariable, ValuesSetter
from contracts.c16_functions import EvalNamespace  # noqa: F401
from props.containers_bounded import CopyIndependence
from verif.spec import PropertySpec

PROPERTY = PropertySpec(
    id='C11', contracts=list(COPY_CONTRACTS) + [EvalNamespace(), AddVariable(), SetAttrVariable(), ValuesSetter('container'), ValuesSetter('model')], bounded=[CopyIndependence()], level='other',
    explanation='Ownership obligations on VectorContainer.copy and BaseLinker.copy executed symbolically from source: the result is a new instance of '
                'self.__class__; every field (span, index, attribute list, every series - including the elements of object-dtype series such as traces -, '
                'every attribute, every submodel recursively) is a deep copy, not shared with the original, and equal; __copy__ is copy and __deepcopy__ calls '
                'copy. Independence of sibling instances and of the class (constructor-level ownership) is decided by the bounded mutation matrix.',
    level_text='ownership / freshness obligations for the copy routes (all sizes and contents) + bounded mutation matrix for siblings and the class: deep observable state compared before/after 14 kinds of mutation on either side, 3 copy routes '
               'and sibling instances, for containers, parser-built models, linkers and Alias+Tracer models',
    level_note='bound: the mutation catalogue and up to 2 preceding operations',
    technique='contract-based deductive verification of ownership/freshness (pyvc provenance tracking + z3); bounded mutation matrix',
    design_ref='DESIGN.md section 10 / C11',
)

PROPERTY.explanation += ' Further ownership obligations: VectorContainer.eval neither alters nor hands out the package-level helper table; Trace.__init__ owns its list of names; TracerMixin.__init__ gives every period its own Trace; copy() carries every entry of the instance dictionary, registered or not.'
