"""C11 - copies and sibling instances share no mutable state."""
from props.containers_bounded import CopyIndependence
from verif.spec import PropertySpec

PROPERTY = PropertySpec(
    id='C11', contracts=[], bounded=[CopyIndependence()], level='exploration',
    explanation='bounded: mutation of either side after each copy route / sibling construction, observed on the other side and on the class',
    level_text='bounded run-time contract (stand-in): deep observable state compared before/after 14 kinds of mutation on either side, 3 copy routes '
               'and sibling instances, for containers, parser-built models, linkers and Alias+Tracer models',
    level_note='bound: the mutation catalogue and up to 2 preceding operations',
    technique='contract-based verification: run-time ownership/independence contract, bounded histories',
    design_ref='DESIGN.md section 10 / C11',
)
