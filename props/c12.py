"""C12 - reindex preserves overlapping periods and fills the rest, on a fresh object."""
from props.containers_bounded import Reindex
from verif.spec import PropertySpec

PROPERTY = PropertySpec(
    id='C12', contracts=[], bounded=[Reindex()], level='exploration',
    explanation='bounded: (old span, new span) pairs x fill lattice on containers and partly solved models',
    level_text='bounded run-time contract (stand-in): value at every new position against the statement (old value / keyword / fill_value / dtype '
               'default / model defaults), dtypes, order, attributes, original unchanged and unshared',
    level_note='bound: old span of length 4, eight new-span shapes incl. repeated labels, eight fill settings, strict in {None, True, False}',
    technique='contract-based verification: run-time contract of reindex, bounded enumeration',
    design_ref='DESIGN.md section 10 / C12',
)
