"""C12 - reindex preserves overlapping periods and fills the rest, on a fresh object."""
from contracts.c12_reindex import CONTRACTS as REINDEX_CONTRACTS
from props.containers_bounded import Reindex
from verif.spec import PropertySpec

PROPERTY = PropertySpec(
    id='C12', contracts=list(REINDEX_CONTRACTS), bounded=[Reindex()], level='other',
    explanation='VectorContainer.reindex executed symbolically from source for enumerated shapes (old span of 2 labels, new span of 0-3 labels, a float and an int '
                'variable) with symbolic labels (repeats allowed in the new span, 0 allowed), data and fill values: every new position holds the old value of its '
                'label if present, else the per-variable keyword / fill_value / dtype default; fresh arrays of the same dtype, new span, same order, original '
                'unchanged, KeyError for unknown keywords only under strict. BaseModel.reindex proved to forward with status/iterations defaults that only an '
                'explicit keyword (also a falsy one) replaces. PandasIndexFeaturesMixin.reindex on its default arguments proved to ask the parent class once for the new span, to assign every variable of the result exactly once with Series(original variable, index=old span).reindex(index=new span, method=None, fill_value=that variable`s keyword if given - also a falsy one - else fill_value).values, to return that object and to reject unknown keywords exactly under strict (argument, else the object`s setting) before anything is built; what pandas.Series.reindex then computes is an assumed contract exercised by the bounded layer. Larger shapes, all dtypes and span types are bounded.',
    level_text='proof obligations per enumerated shape (all labels, data and fills) + bounded run over span pairs and the fill lattice: value at every new position against the statement (old value / keyword / fill_value / dtype '
               'default / model defaults), dtypes, order, attributes, original unchanged and unshared',
    level_note='bound: old span of length 4, eight new-span shapes incl. repeated labels, eight fill settings, strict in {None, True, False}',
    technique='contract-based deductive verification per shape (pyvc + z3); bounded enumeration as stand-in for larger shapes',
    design_ref='DESIGN.md section 10 / C12',
)

PROPERTY.explanation += ' Scenarios with coinciding labels in the old span (a repeated label addresses its first occurrence, as label access does) are included.'
