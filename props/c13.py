"""C13 - parser is total, fails only with its own errors, and has no side effects."""
from __future__ import annotations

import builtins
import itertools
import os
import random
import sys
import traceback

from verif import grammar as G
from verif.bounded import BoundedCheck, BoundedResult, Violation
from contracts.c13_effects import CONTRACTS as EFFECT_CONTRACTS
from contracts.c15_build import BuildModel
from props.parser_bounded import TokeniserDifferential
from verif.spec import PropertySpec

ALPHABET = ['Y', 'x', '1', '_', ' ', '\n', '=', '+', '-', '*', '/', '.', ',', '(', ')', '[', ']', '{', '}', '<', '>', '`', '#', "'", 'é']


def independent_statement_count(script: str):
    """Number of distinct non-blank, non-comment statements, counted without fsic: lines are joined while parentheses are open or a
    ``` fence is open.  Returns None when the script is not well-formed (unbalanced parentheses / unterminated fence)."""
    stmts, buf, depth, fence = [], [], 0, False
    for raw in script.splitlines():
        ln = raw.split('#', 1)[0].rstrip()
        if fence:
            buf.append(ln)
            if ln.startswith('```'):
                fence = False
                stmts.append('\n'.join(buf))
                buf = []
            continue
        if not buf and ln.startswith('```'):
            fence = True
            buf.append(ln)
            continue
        if not ln.strip() and depth == 0 and not buf:
            continue
        buf.append(ln)
        for ch in ln:
            depth += (ch == '(') - (ch == ')')
            if depth < 0:
                return None
        if depth == 0:
            stmts.append('\n'.join(buf))
            buf = []
    if buf or depth or fence:
        return None
    stmts = [s.strip() for s in stmts if s.strip()]
    verbatim = [s for s in stmts if s.startswith('`') and s.endswith('`')]
    # an equation written twice defines the same symbol once; every verbatim statement is its own block
    return len({s for s in stmts if s not in verbatim}) + len(verbatim)


def escape_signature(exc: BaseException) -> str:
    """Innermost fsic frame + whether the exception came out of exec'd statement text + exception class."""
    tb = traceback.extract_tb(exc.__traceback__)
    inner = tb[-1] if tb else None
    fsic_frames = [f for f in tb if f.filename.endswith(('parser.py',)) and '/fsic/' in f.filename]
    fn = fsic_frames[-1].name if fsic_frames else '?'
    if inner is not None and inner.filename == '<string>' or (fsic_frames and fsic_frames[-1].line and 'exec(' in (fsic_frames[-1].line or '')):
        return 'c13.escape:syntax-check-executes-statement'
    if fsic_frames and 'format(' in (fsic_frames[-1].line or ''):
        # the recorded finding F12 is the template of parse_equation; str.format on user text anywhere else is another defect
        return 'c13.escape:str-format-on-stray-braces' if fn == 'parse_equation' else f'c13.escape:str-format-on-user-text:{fn}'
    return f'c13.escape:{type(exc).__name__}:{fn}'


class ParserTotal(BoundedCheck):
    props = ('C13',)
    required_covers = ('returned', 'ParserError')
    max_violations = 200

    def __init__(self, shard: int, nshards: int):
        self.shard, self.nshards = shard, nshards
        self.name = f'c13.short-strings[{shard}/{nshards}]'
        self.bound_quick = f'all strings of length <= 4 over the {len(ALPHABET)}-character alphabet (shard {shard} of {nshards}), 150 mutated valid scripts per shard, witnesses of the recorded findings'
        self.bound_thorough = 'all strings of length <= 5'

    def cases(self, tier, seed):
        L = 5 if tier == 'thorough' else 4
        k = 0
        for n in range(0, L + 1):
            for tup in itertools.product(ALPHABET, repeat=n):
                k += 1
                if k % self.nshards == self.shard:
                    yield ''.join(tup)
        # mutation-based fuzzing of valid scripts: token deletion, duplication, swap, bracket imbalance
        from props.parser_bounded import programs
        rnd = random.Random(seed * 100 + self.shard)
        progs = [p for _, p in programs(tier, seed, 40) if p]
        for i in range(2000 if tier == 'thorough' else 150):
            s = G.render_script(rnd.choice(progs), G.Layout.random(rnd))
            toks = __import__('re').findall(r'\s+|\w+|.', s)
            for _ in range(rnd.randint(1, 3)):
                if not toks:
                    break
                j = rnd.randrange(len(toks))
                op = rnd.choice(['del', 'dup', 'swap', 'bracket'])
                if op == 'del':
                    del toks[j]
                elif op == 'dup':
                    toks.insert(j, toks[j])
                elif op == 'swap' and j + 1 < len(toks):
                    toks[j], toks[j + 1] = toks[j + 1], toks[j]
                else:
                    toks.insert(j, rnd.choice('()[]{}<>`'))
            yield ''.join(toks)
        if self.shard == 2 % self.nshards:
            # systematic single-token edits of the catalogue scripts: every token deleted in turn, every token doubled in turn
            # (a missing operator next to a {parameter}, <error>, index or fragment is an ordinary slip of the pen)
            _re = __import__('re')
            for p_ in G.small_programs():
                if not p_:
                    continue
                text = G.render_script(p_)
                toks = _re.findall(r'\s+|\w+|.', text)
                for j in range(len(toks)):
                    if toks[j].isspace():
                        continue
                    yield ''.join(toks[:j] + toks[j + 1:])
                    yield ''.join(toks[:j] + [toks[j], ' ', toks[j]] + toks[j + 1:])
        if self.shard == 1 % self.nshards:
            # every reserved word in every term position: bare, indexed and called, on either side of the equals sign, alone and after a valid line
            import keyword as _kw
            for w in _kw.kwlist:
                for s in (f'{w}[1] = X', f'{w}[-1] = 0', f'{w} = X', f'Y = {w}[-1]', f'Y = X\n{w}[0] = Y', f'{w}[1] = {w}[-1]', f'{{{w}}} = X', f'<{w}>[1] = X', f'Y = {{{w}}}[1] + <{w}>',
                          f'{w}(1) = X', f'Y = X.{w}[1]'):
                    yield s
        if self.shard == 0:
            for s in ('Y = {}', 'Y = {a} + }{', 'Y = {0}', 'Y = 1/0', 'Y = "a" + 1', 'Y = print(1)', '```\nx=1', 'é = 1', 'Y = H[--1]', 'Y = X\nY = X', '`self.Q = 1`\n`self.Q = 1`',
                      '```\nx\n``` ', '```\nself.x\n```\t', '``` \nself.x = 1\n```', '```\nself.x = 1\n```  \nY = 1', 'Y = log(0) * X', 'Y = sqrt(X) + foo(2)', 'Y = np.log(0) + X', 'Y = X + X(1)', 'H = H(1)', 'Y = X(1) + X', 'b=A(1)+A', 'Y = f(X)\nZ = f', 'Y = exp + exp(X)', '```\nscale_ = 0.5\n```', '`q_ = 3`', 'Y = X\n`import_marker_ = [1]`', '```\nglobal g_\ng_ = 1\n```',
                      'Y = X is 1', 'Y = 1(2)', 'Y = X is "a"', 'Y = (1)(2) + X'):
                yield s

    def check(self, s: str, res: BoundedResult):
        import fsic
        from fsic.exceptions import ParserError, SymbolError
        out = []
        res.nontrivial.add(s)
        printed = []
        real_print = builtins.print
        mods = set(sys.modules)
        import warnings as _w
        filters_before = list(_w.filters)
        cwd = os.getcwd()
        import fsic.parser as _fp
        namespaces = {'fsic.parser': vars(_fp), 'fsic': vars(fsic), 'builtins': vars(builtins), '__main__': vars(sys.modules['__main__'])}
        names_before = {k: set(v) for k, v in namespaces.items()}
        # module-level tables of the parser (replacement table, keyword list, ...): parsing leaves them as they are
        tables_before = {k: (len(v), hash(tuple(sorted(map(repr, v.items() if isinstance(v, dict) else v)))))
                         for k, v in vars(_fp).items() if isinstance(v, (dict, list, set)) and not k.startswith('__')}
        builtins.print = lambda *a, **k: printed.append(a)
        try:
            try:
                symbols = fsic.parse_model(s)
                raised = None
            except (ParserError, SymbolError, IndentationError) as ex:
                raised = ex
                res.cover(type(ex).__name__)
            except BaseException as ex:  # noqa: BLE001
                if type(ex).__name__ == '_CaseTimeout':
                    raise                  # the per-case time limit of the harness: reported as non-termination by the caller
                out.append(Violation('parse_model raises only ParserError, SymbolError or IndentationError', escape_signature(ex), s,
                                     'ParserError|SymbolError|IndentationError', f'{type(ex).__name__}: {str(ex)[:60]}', 'only_parser_errors'))
                return out
        finally:
            builtins.print = real_print
        new_mods = set(sys.modules) - mods - {'unicodedata'}     # (compiling a non-ASCII identifier imports unicodedata: not an effect of the statement)
        if list(_w.filters) != filters_before:
            _w.filters[:] = filters_before
            out.append(Violation('parsing has no effect outside the returned objects (process-wide warning filters)', 'c13.side-effect:warnings-filters', s, 'unchanged', 'changed', 'no_effect'))
        # (`__warningregistry__` is CPython's own per-module bookkeeping for a warning issued while the syntax check executes a statement -
        # the recorded exec() finding F13 - not a name bound by the statement text)
        tables_after = {k: (len(v), hash(tuple(sorted(map(repr, v.items() if isinstance(v, dict) else v)))))
                        for k, v in vars(_fp).items() if isinstance(v, (dict, list, set)) and not k.startswith('__') and k in tables_before}
        changed_tables = sorted(k for k in tables_before if tables_after.get(k) != tables_before[k])
        if changed_tables:
            out.append(Violation('parsing has no effect outside the returned objects (a module-level table of the parser was altered)', 'c13.side-effect:module-table', s,
                                 'unchanged', changed_tables[:3], 'no_effect'))
        leaked = {k: sorted(set(v) - names_before[k] - {'__warningregistry__'}) for k, v in namespaces.items() if set(v) - names_before[k] - {'__warningregistry__'}}
        if leaked:
            for k, nms in leaked.items():
                for nm in nms:
                    del namespaces[k][nm]
            # a `global` declaration inside executed statement text is the recorded exec() defect (F13) seen through another effect; a plain
            # assignment that becomes a module global is not
            import re as _re2
            declared = set(_re2.findall(r'\bglobal\s+([A-Za-z_]\w*)', s))
            only_declared = all(set(nms) <= declared for nms in leaked.values())
            out.append(Violation('parsing has no effect outside the returned objects (names bound by statement text appear in a module namespace)',
                                 'c13.side-effect:module-namespace' + (':global-statement' if only_declared else ''), s, 'no new names', str(leaked)[:120], 'no_effect'))
        if printed or new_mods or os.getcwd() != cwd:
            out.append(Violation('parsing never executes the model\'s statements and has no effect outside the returned objects',
                                 'c13.side-effect:syntax-check-executes-statement', s, 'no effect', f'printed={printed[:1]} imported={sorted(new_mods)[:2]}', 'no_exec'))
        import zlib as _zlib
        sample = _zlib.crc32(s.encode('utf-8', 'replace'))
        if raised is not None:
            # a refusal is an outcome like any other: the same text is refused again when parsed again (nothing the first parse left
            # behind - a cache, CPython's once-per-location warning registry - may turn it into an acceptance)
            if len(s) <= 3 or sample % 5 == 0 or ' is ' in s or ')(' in s or '(2)' in s:
                try:
                    with _w.catch_warnings():
                        _w.simplefilter('ignore')          # ... nor may the caller's warning filters: the verdict on a text is the parser's own
                        fsic.parse_model(s)
                    second = None
                except (ParserError, SymbolError, IndentationError) as ex2:
                    second = ex2
                except BaseException as ex2:  # noqa: BLE001
                    if type(ex2).__name__ == '_CaseTimeout':
                        raise
                    second = ex2
                for k_, v_ in namespaces.items():
                    for nm_ in set(v_) - names_before[k_] - {'__warningregistry__'}:
                        del v_[nm_]
                if type(second) is not type(raised):
                    out.append(Violation('parsing has no effect outside the returned objects (the same text meets the same refusal when parsed again, whatever warning filters the caller has set)', 'c13.side-effect:refusal-not-repeated', s,
                                         type(raised).__name__, type(second).__name__ if second is not None else 'returned', 'no_effect'))
            return out
        res.cover('returned')
        # what parse_model returns belongs to the caller: altering it does not reach a later parse of the same text
        if len(s) <= 3 or '\n' in s or len(out) == 0 and sample % 40 == 0:
            kept = list(symbols)
            symbols.append('<mutated by the caller>')
            try:
                again = fsic.parse_model(s)
            except Exception:  # noqa: BLE001
                again = None
            symbols.pop()
            for k_, v_ in namespaces.items():          # (whatever the second parse leaked is the same recorded effect as the first: undo it)
                for nm_ in set(v_) - names_before[k_] - {'__warningregistry__'}:
                    del v_[nm_]
            if again is not None and (again is symbols or list(again) != kept):
                out.append(Violation('parsing has no effect outside the returned objects (a later parse of the same text returns a fresh, equal list)', 'c13.side-effect:shared-result', s,
                                     len(kept), len(again), 'no_effect'))
        try:
            Model = fsic.build_model(symbols)
            Model(range(3))
            leaked_b = {k: sorted(set(v) - names_before[k] - {'__warningregistry__'}) for k, v in namespaces.items() if set(v) - names_before[k] - {'__warningregistry__'}}
            if leaked_b:
                for k, nms in leaked_b.items():
                    for nm in nms:
                        del namespaces[k][nm]
                out.append(Violation('building has no effect outside the returned objects (a name appears in a module namespace)', 'c13.side-effect:module-namespace:build', s,
                                     'no new names', str(leaked_b)[:120], 'no_effect'))
        except BaseException as ex:  # noqa: BLE001
            out.append(Violation('whenever parse_model returns with syntax checking on, build_model succeeds and the class can be instantiated',
                                 f'c13.build-fails:{type(ex).__name__}', s, 'class + instance', f'{type(ex).__name__}: {str(ex)[:60]}', 'build_succeeds'))
            return out
        want = independent_statement_count(s)
        if want is not None:
            # one statement may name several left-hand-side terms (`Y._=1`): they share one equation text; verbatim blocks count individually
            got = len({x.equation for x in symbols if x.equation is not None and x.name is not None}) + len([x for x in symbols if x.name is None])
            if got != want:
                import re as _re
                sig = 'c13.statement-dropped'
                import keyword as _kw
                reserved = r'\b(?:' + '|'.join(_kw.kwlist) + r')\b(?:\s*\[[^\]]*\])?'      # an indexed reserved word is an INVALID term, not a variable
                lhs_without_term = any('=' in st and not _re.search(r'[A-Za-z_]', _re.sub(r'`.+?`|\{[^}]*\}|<[^>]*>|[A-Za-z_][\w.]*\s*(?=\()|' + reserved, '', st.split('=', 1)[0])) for st in s.splitlines())
                if want > got and lhs_without_term:
                    sig += ':no-term-on-left-hand-side'
                elif '```' in s and want > got:
                    sig += ':fence'
                elif want > got and set(_re.findall(r'([A-Za-z_]\w*)\s*\(', s)) & set(_re.findall(r'([A-Za-z_]\w*)\b(?!\s*\()', s)):
                    sig += ':variable-function-collision'
                out.append(Violation('no non-blank, non-comment statement is silently discarded: each contributes exactly one equation or verbatim block',
                                     sig, s, want, got, 'statement_contributes_one_equation'))
        elif '```' in s and not symbols:
            out.append(Violation('no statement is silently discarded (an unterminated ``` fence swallows the rest of the script)', 'c13.statement-dropped:unterminated-fence',
                                 s, 'ParserError', '[]', 'no_pending_statement_at_end'))
        return out


NSHARDS = 14
PROPERTY = PropertySpec(
    id='C13', contracts=list(EFFECT_CONTRACTS) + [BuildModel()], bounded=[ParserTotal(i, NSHARDS) for i in range(NSHARDS)] + [TokeniserDifferential()], level='other',
    explanation='Effect contract decided on the ast of the real parse_model / build_model: parse_model exec()s translated statement text with handlers for NameError and '
                'SyntaxError only (recorded findings F13 / F13b, re-checked on every run); build_model executes only the class-definition text and turns SyntaxError into '
                'BuildError. Totality, the raises clause on concrete inputs and the statement-count clause are decided by the bounded exhaustive run: every string of '
                'length <= 4 over the 25 characters that drive the regexes and counters, plus mutated valid scripts.',
    level_text='syntactic effect obligations on the real ast + bounded run-time contract (stand-in): every string of length <= 4 over the 25 characters that drive the parser\'s regexes and counters, plus '
               'mutation-fuzzed valid scripts: exception class, side-effect canaries (print, sys.modules, cwd), build + instantiate when parsing returns, '
               'statement count against an independent splitter; totality of the regex engine cannot be proved by contracts on fsic functions',
    level_note='bound: length 4 (quick) / 5 (thorough); termination is observed, not proved',
    technique='contract-based verification: run-time contract (raises-clause, effect clause, statement-count clause) on the real parser, exhaustive bounded enumeration',
    design_ref='DESIGN.md section 10 / C13',
)

PROPERTY.explanation += ' A lemma on the ast of parse_model requires that an exec of statement text cannot bind names in a live namespace (no explicit globals / locals mapping); the bounded layer carries canaries for printed output, imported modules, warning filters, the working directory and new names in the fsic / builtins / __main__ namespaces, and the tokeniser differential with its time limit (termination).'
