"""C14 - layout of the script does not matter; the normal form is a fixed point."""
from contracts.c01_tokeniser import TokeniserLemma
from contracts.c03_symbols import CombineContract
from props.parser_bounded import LayoutMetamorphic, TokeniserDifferential
from verif.spec import PropertySpec

PROPERTY = PropertySpec(
    id='C14',
    contracts=[CombineContract(), TokeniserLemma()],
    bounded=[LayoutMetamorphic(), TokeniserDifferential()],
    level='other',
    explanation='Deductive part: Symbol.combine (the merge operator behind "parsing a script equals merging the parses of its statements") is '
                'proved for all inputs: the result depends only on the two symbols (stronger kind, min/max of offsets with 0), so merging '
                'is order-insensitive up to symbol order. The layout clauses live in the regular expressions (outside the verifier) and are '
                'decided by the bounded metamorphic run on the real parser: programs x layout catalogue, statement-wise merge, permutations, '
                'normal-form round trip. Two layout findings are recorded (space before an index bracket; space after the sign in an index).',
    level_text='bounded metamorphic run on the real parser (stand-in: regex tokenisation is outside the verifier) + proof obligations for combine',
    level_note='trusted: grammar generator/renderer; the layout catalogue is the bound',
    technique='contract-based deductive verification of Symbol.combine (pyvc + z3); bounded metamorphic run-time contract for layouts',
    design_ref='DESIGN.md section 10 / C14',
)

PROPERTY.explanation += ' The tokeniser lemma and differential of C01 are part of this check (layout inside index brackets, blanks before a call parenthesis, keyword followed by a parenthesis).'
