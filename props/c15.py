"""C15 - all ways of building a class from symbols yield the same model."""
from contracts.c03_symbols import LagsLeadsContract
from contracts.c15_build import BuildModel
from contracts.c15_templates import CONTRACTS as TEMPLATE_CONTRACTS
from props.parser_bounded import BuildVariants
from verif.spec import PropertySpec

PROPERTY = PropertySpec(
    id='C15',
    contracts=[LagsLeadsContract()] + list(TEMPLATE_CONTRACTS) + [BuildModel()],
    bounded=[BuildVariants()],
    level='other',
    explanation='build_model_definition is executed symbolically from its source on symbol lists of length <= 2 with symbolic contents: the '
                'converter (default or custom, an uninterpreted function of the symbol) is applied exactly once per symbol that has an '
                'equation, in symbol order, its output inserted verbatim (indented) into the template; name lists and LAGS/LEADS as '
                'prescribed; `pass` only when there is no code. Syntactic lemma: the typed and untyped templates read from the source are the '
                'same program after annotation erasure, for every equations block, and each class attribute is filled from the field of its own name. build_model is executed from source with build_model_definition and exec as '
                'recording contracts: every option forwarded unchanged, the text executed is the definition text, the class it defines is returned with that text as CODE.',
    level_text='deductive for all symbol contents with list length <= 2 (bounded in the list length), all integer options; template lemma '
               'for all programs; exec-level equivalence is bounded',
    level_note='trusted: pyvc, z3; assumed: textwrap.indent is a function of its arguments; str.format field substitution',
    technique='contract-based deductive verification (pyvc + z3) on build_model_definition; syntactic template lemma',
    design_ref='DESIGN.md section 10 / C15',
)
