"""C16 - eval() and the time-series helpers compute what their definitions say."""
from __future__ import annotations

import itertools
import math
import random

import numpy as np

from contracts.c16_functions import CONTRACTS as FUNCTION_CONTRACTS
from verif.bounded import BoundedCheck, BoundedResult, Violation
from verif.spec import PropertySpec


def _same(a, b):
    a = np.asarray(a, dtype=float)
    b = np.asarray(b, dtype=float)
    return a.shape == b.shape and bool(np.all((a == b) | (np.isnan(a) & np.isnan(b))))


class HelpersBounded(BoundedCheck):
    """lag/lead/shift/diff/dlog on the real functions against the definitions in the property statement."""
    name = 'c16.helpers'
    props = ('C16',)
    concretises = ('fsic.functions.shift', 'fsic.functions.lag', 'fsic.functions.lead', 'fsic.functions.diff')
    bound_quick = 'all float arrays of length 0..4 over a 3-value alphabet prefix, p,d in [-n-1, n+1], fill in {nan, 0.0, -1.5}'
    bound_thorough = 'all float arrays of length 0..6, p,d in [-n-2, n+2], fill in {nan, 0.0, -1.5, inf}'
    required_covers = ('lag:p>0', 'lag:p<0', 'lag:p==0', 'diff:d>0', 'diff:d<0', 'lag:|p|>=n')

    def cases(self, tier, seed):
        nmax = 6 if tier == 'thorough' else 4
        fills = [float('nan'), 0.0, -1.5] + ([float('inf')] if tier == 'thorough' else [])
        for n in range(0, nmax + 1):
            x = [float(i * i + 1) for i in range(n)]
            ext = 2 if tier == 'thorough' else 1
            for p in range(-n - ext, n + ext + 1):
                for fi, fill in enumerate(fills):
                    for fn in ('lag', 'lead', 'shift', 'diff', 'dlog'):
                        yield {'fn': fn, 'x': x, 'p': p, 'fill': 'nan' if math.isnan(fill) else fill}

    def check(self, case, res: BoundedResult):
        import fsic.functions as F
        fn, xs, p = case['fn'], case['x'], case['p']
        fill = float('nan') if case['fill'] == 'nan' else float(case['fill'])
        x = np.array(xs, dtype=float)
        x0 = x.copy()
        n = len(xs)
        out = []
        res.nontrivial.add((fn, n, p, case['fill']))

        def lag_spec(arr, q):
            return np.array([arr[i - q] if 0 <= i - q < n else fill for i in range(n)], dtype=float)
        try:
            if fn in ('lag', 'shift'):
                r = getattr(F, fn)(x, p, fill_value=fill)
                exp = lag_spec(x0, p)
                clause, ob = f'{fn}(x,p)[i] == x[i-p] inside, fill_value elsewhere', 'result_is_shift_of_input'
                res.cover('lag:p>0' if p > 0 else 'lag:p<0' if p < 0 else 'lag:p==0')
                if abs(p) >= n and n > 0:
                    res.cover('lag:|p|>=n')
            elif fn == 'lead':
                r = F.lead(x, p, fill_value=fill)
                exp = lag_spec(x0, -p)
                clause, ob = 'lead(x,p) == lag(x,-p)', 'lead_is_lag_of_minus_p'
            elif fn in ('diff', 'dlog'):
                d = p
                if d < 0:
                    res.cover('diff:d<0')
                    try:
                        getattr(F, fn)(x, d, fill_value=fill)
                    except NotImplementedError:
                        return out
                    out.append(Violation('diff with d < 0 raises NotImplementedError', f'c16.{fn}.negative-d', case,
                                         'NotImplementedError', 'returned', 'only_negative_d_raises'))
                    return out
                res.cover('diff:d>0' if d > 0 else 'diff:d==0')
                base = np.log(x0) if fn == 'dlog' else x0
                r = getattr(F, fn)(x, d, fill_value=fill)
                if d == 0:
                    exp = base
                else:
                    exp = np.array([base[i] - base[i - d] if i >= d else fill for i in range(n)], dtype=float)
                clause, ob = f'{fn}(x,d)[i] == x[i]-x[i-d] for i>=d, fill_value before', 'result_is_difference'
        except Exception as ex:  # noqa: BLE001
            out.append(Violation(f'{fn} raised {type(ex).__name__} on a 1-D input', f'c16.{fn}.raises.{type(ex).__name__}', case,
                                 'a result', repr(ex), 'no_exception'))
            return out
        if len(r) != n:
            out.append(Violation('result has the length of the input', f'c16.{fn}.length', case, n, len(r), 'result_has_input_length'))
        elif not _same(r, exp):
            out.append(Violation(clause, f'c16.{fn}.values', case, exp.tolist(), np.asarray(r).tolist(), ob))
        if not _same(x, x0):
            out.append(Violation('input array is never modified', f'c16.{fn}.mutates-input', case, x0.tolist(), x.tolist(),
                                 'input_not_modified'))
        return out


PROPERTY = PropertySpec(
    id='C16',
    contracts=list(FUNCTION_CONTRACTS),
    bounded=[HelpersBounded()],
    level='other',
    explanation='Deductive: shift/lag/lead/diff of fsic/functions.py proved against lag(x,p)[i] = x[i-p] inside / fill outside, '
                'for all lengths, all p, all float data (obligations discharged by z3 from the real ast). Bounded: the same clauses '
                'on the real functions over small arrays; eval()/backtick rewriting is bounded only (regex + eval are outside the verifier).',
    level_text='shift/lag/lead/diff are proved (unbounded: every length, shift and float content) against the definitions in the '
               'property statement by obligations generated from the real source and discharged by z3; dlog, eval() name precedence and the '
               'backtick index rewriting are decided only by a bounded run-time contract on the real functions. Mixed, hence category other.',
    level_note='trusted: pyvc encoder, z3, assumed NumPy contracts (np.roll weak form, slice assignment, ndarray arithmetic); '
               'regex engine and eval() are outside the verifier (bounded only)',
    technique='contract-based deductive verification (pyvc VC generation from the real ast + z3), bounded run-time contracts as labelled stand-in',
    design_ref='DESIGN.md section 10 / C16',
    assumptions=['np.roll is specified only where the source index lies inside the array (weak contract numpy.roll)',
                 'np.log is applied element-wise and returns a fresh array (dlog is checked in the bounded layer only)'],
)
