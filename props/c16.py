"""C16 - eval() and the time-series helpers compute what their definitions say."""
from __future__ import annotations

import itertools
import math
import random

import numpy as np

from contracts.c16_functions import CONTRACTS as FUNCTION_CONTRACTS
from verif.bounded import BoundedCheck, BoundedResult, Violation
from verif.crosscheck import TARGETS as _XT, EncoderCrossCheck
from verif.spec import PropertySpec


def _same(a, b):
    a = np.asarray(a, dtype=float)
    b = np.asarray(b, dtype=float)
    return a.shape == b.shape and bool(np.all((a == b) | (np.isnan(a) & np.isnan(b))))


class HelpersBounded(BoundedCheck):
    """lag/lead/shift/diff/dlog on the real functions against the definitions in the property statement."""
    name = 'c16.helpers'
    props = ('C16',)
    concretises = ('fsic.functions.shift', 'fsic.functions.lag', 'fsic.functions.lead', 'fsic.functions.diff')
    bound_quick = 'all float arrays of length 0..4 over a 3-value alphabet prefix, p,d in [-n-1, n+1], fill in {nan, 0.0, -1.5}'
    bound_thorough = 'all float arrays of length 0..6, p,d in [-n-2, n+2], fill in {nan, 0.0, -1.5, inf}'
    required_covers = ('lag:p>0', 'lag:p<0', 'lag:p==0', 'diff:d>0', 'diff:d<0', 'lag:|p|>=n')

    def cases(self, tier, seed):
        nmax = 6 if tier == 'thorough' else 4
        fills = [float('nan'), 0.0, -1.5] + ([float('inf')] if tier == 'thorough' else [])
        for n in range(0, nmax + 1):
            x = [float(i * i + 1) for i in range(n)]
            ext = 2 if tier == 'thorough' else 1
            for p in range(-n - ext, n + ext + 1):
                for fi, fill in enumerate(fills):
                    for fn in ('lag', 'lead', 'shift', 'diff', 'dlog'):
                        yield {'fn': fn, 'x': x, 'p': p, 'fill': 'nan' if math.isnan(fill) else fill}
                        if fi == 0 and n in (2, 3):
                            # the same with the shift given as a NumPy integer, positionally / by keyword, and with the default fill value
                            yield {'fn': fn, 'x': x, 'p': p, 'fill': 'nan', 'spelling': 'numpy-int'}
                            yield {'fn': fn, 'x': x, 'p': p, 'fill': 'nan', 'spelling': 'default-fill'}
                        if fill == 0.0 and n in (2, 3):
                            # an integer array with a fill value its dtype can hold
                            yield {'fn': fn, 'x': x, 'p': p, 'fill': 0.0, 'spelling': 'int-array'}

    def check(self, case, res: BoundedResult):
        import fsic.functions as F
        fn, xs, p = case['fn'], case['x'], case['p']
        if case.get('spelling') == 'numpy-int':
            p = np.int64(p)
        fill = float('nan') if case['fill'] == 'nan' else float(case['fill'])
        x = np.array(xs, dtype=float)
        if case.get('spelling') == 'int-array':
            x = np.array([int(v) for v in xs], dtype=int)
            fill = int(fill)
        x0 = x.copy()
        n = len(xs)
        out = []
        res.nontrivial.add((fn, n, p, case['fill']))

        fkw = {} if case.get('spelling') == 'default-fill' else {'fill_value': fill}

        def lag_spec(arr, q):
            return np.array([arr[i - q] if 0 <= i - q < n else fill for i in range(n)], dtype=float)
        try:
            if fn in ('lag', 'shift'):
                r = getattr(F, fn)(x, p, **fkw)
                exp = lag_spec(x0, p)
                clause, ob = f'{fn}(x,p)[i] == x[i-p] inside, fill_value elsewhere', 'result_is_shift_of_input'
                res.cover('lag:p>0' if p > 0 else 'lag:p<0' if p < 0 else 'lag:p==0')
                if abs(p) >= n and n > 0:
                    res.cover('lag:|p|>=n')
            elif fn == 'lead':
                r = F.lead(x, p, **fkw)
                exp = lag_spec(x0, -p)
                clause, ob = 'lead(x,p) == lag(x,-p)', 'lead_is_lag_of_minus_p'
            elif fn in ('diff', 'dlog'):
                d = p
                if d < 0:
                    res.cover('diff:d<0')
                    try:
                        getattr(F, fn)(x, d, **fkw)
                    except NotImplementedError:
                        return out
                    out.append(Violation('diff with d < 0 raises NotImplementedError', f'c16.{fn}.negative-d', case,
                                         'NotImplementedError', 'returned', 'only_negative_d_raises'))
                    return out
                res.cover('diff:d>0' if d > 0 else 'diff:d==0')
                base = np.log(x0) if fn == 'dlog' else x0
                r = getattr(F, fn)(x, d, **fkw)
                if d == 0:
                    exp = base
                else:
                    exp = np.array([base[i] - base[i - d] if i >= d else fill for i in range(n)], dtype=float)
                clause, ob = f'{fn}(x,d)[i] == x[i]-x[i-d] for i>=d, fill_value before', 'result_is_difference'
        except Exception as ex:  # noqa: BLE001
            out.append(Violation(f'{fn} raised {type(ex).__name__} on a 1-D input', f'c16.{fn}.raises.{type(ex).__name__}', case,
                                 'a result', repr(ex), 'no_exception'))
            return out
        if len(r) != n:
            out.append(Violation('result has the length of the input', f'c16.{fn}.length', case, n, len(r), 'result_has_input_length'))
        elif not _same(r, exp):
            out.append(Violation(clause, f'c16.{fn}.values', case, exp.tolist(), np.asarray(r).tolist(), ob))
        if not _same(x, x0):
            out.append(Violation('input array is never modified', f'c16.{fn}.mutates-input', case, x0.tolist(), x.tolist(),
                                 'input_not_modified'))
        return out


PROPERTY = PropertySpec(
    id='C16',
    contracts=list(FUNCTION_CONTRACTS),
    bounded=[HelpersBounded()],
    level='other',
    explanation='Deductive: shift/lag/lead/diff of fsic/functions.py proved against lag(x,p)[i] = x[i-p] inside / fill outside, '
                'for all lengths, all p, all float data (obligations discharged by z3 from the real ast). Bounded: the same clauses '
                'on the real functions over small arrays; eval()/backtick rewriting is bounded only (regex + eval are outside the verifier).',
    level_text='shift/lag/lead/diff are proved (unbounded: every length, shift and float content) against the definitions in the '
               'property statement by obligations generated from the real source and discharged by z3; dlog, eval() name precedence and the '
               'backtick index rewriting are decided only by a bounded run-time contract on the real functions. Mixed, hence category other.',
    level_note='trusted: pyvc encoder, z3, assumed NumPy contracts (np.roll weak form, slice assignment, ndarray arithmetic); '
               'regex engine and eval() are outside the verifier (bounded only)',
    technique='contract-based deductive verification (pyvc VC generation from the real ast + z3), bounded run-time contracts as labelled stand-in',
    design_ref='DESIGN.md section 10 / C16',
    assumptions=['np.roll is specified only where the source index lies inside the array (weak contract numpy.roll)',
                 'np.log is applied element-wise and returns a fresh array (dlog is checked in the bounded layer only)'],
)


class EvalBounded(BoundedCheck):
    """container.eval(): name precedence, backticked label indexes (inclusive slices), positional indexes, AttributeError, no mutation."""
    name = 'c16.eval'
    props = ('C16',)
    bound_quick = ('containers over 5 span types (range with origin, strings, NumPy ints, pandas Index, annual PeriodIndex) with variables X, Y, Z and one variable '
                   'named like a helper (exp / lag); 700 seeded random expressions: arithmetic, helpers, positional indexes/slices, backticked label indexes/slices, '
                   'caller locals; undefined names')
    bound_thorough = '10000 expressions'
    required_covers = ('backtick-index', 'backtick-slice', 'positional-only', 'mixed-positional-and-backtick', 'locals-override', 'variable-overrides-helper', 'undefined-name')

    def cases(self, tier, seed):
        rnd = random.Random(seed + 16)
        for i in range(10000 if tier == 'thorough' else 700):
            yield {'span': rnd.choice(['range', 'list-str', 'np-int', 'pd-index', 'pd-period-A']), 'seed': rnd.randrange(10 ** 6)}

    def check(self, case, res: BoundedResult):
        import copy
        import fsic
        import fsic.functions as F
        from props.containers_bounded import span_catalogue
        rnd = random.Random(case['seed'])
        n = 6
        span = span_catalogue(n)[case['span']]
        labels = list(span)
        c = fsic.core.VectorContainer(span)
        data = {}
        helper_var = rnd.choice(['exp', 'lag', None])
        names = ['X', 'Y', 'Z', '_u'] + ([helper_var] if helper_var else [])
        for nm in names:
            data[nm] = np.array([rnd.choice([0.5, 1.0, 1.5, 2.0, 3.0]) + rnd.random() for _ in range(n)])
            c.add_variable(nm, data[nm].copy())
        before_builtins = dict(F.builtins)
        out = []

        def lab(i):
            return '`' + str(labels[i]) + '`'

        def pos_expr():
            v = rnd.choice(['X', 'Y', 'Z', '_u'])
            r = rnd.random()
            if r < 0.25:
                return v, data[v], 'vec'
            if r < 0.4:
                i = rnd.randrange(-n, n)
                return f'{v}[{i}]', data[v][i], 'positional'
            if r < 0.55:
                a, b = sorted(rnd.sample(range(n), 2))
                return f'{v}[{a}:{b}]', data[v][a:b], 'positional'
            if r < 0.75:
                i = rnd.randrange(n)
                return f'{v}[{lab(i)}]', data[v][i], 'backtick-index'
            a, b = sorted(rnd.sample(range(n), 2))
            st = rnd.choice([None, 2])
            return f'{v}[{lab(a)}:{lab(b)}' + (f':{st}]' if st else ']'), data[v][a:b + 1:st], 'backtick-slice'
        kinds = set()
        t1, v1, k1 = pos_expr()
        kinds.add(k1)
        expr, want = t1, v1
        if rnd.random() < 0.6:
            t2, v2, k2 = pos_expr()
            if np.shape(v2) == np.shape(want) or np.ndim(v2) == 0 or np.ndim(want) == 0:
                op = rnd.choice(['+', '-', '*'])
                expr = f'{expr} {op} {t2}'
                want = {'+': want + v2, '-': want - v2, '*': want * v2}[op]
                kinds.add(k2)
        locs = None
        r = rnd.random()
        if r < 0.15:
            expr = f'lag({expr}, 1)' if np.ndim(want) == 1 and helper_var != 'lag' else expr
            if expr.startswith('lag('):
                want = np.concatenate([[np.nan], want[:-1]]) if len(want) else want
        elif r < 0.3:
            res.cover('locals-override')
            locs = {'X': np.full(n, 100.0), 'k': 2.0}
            if 'X' in expr:
                return out      # keep the oracle simple: locals cases use their own expression
            expr, want = 'X * k + Y', np.full(n, 100.0) * 2.0 + data['Y']
        elif r < 0.4 and helper_var:
            res.cover('variable-overrides-helper')
            expr, want = f'{helper_var} + X', data[helper_var] + data['X']
        elif r < 0.5:
            res.cover('undefined-name')
            # one undefined name close to a variable name (a suggestion exists), one close to none
            used = set(''.join(data).lower())
            far = next(ch for ch in 'qwkjvbnmprt' if ch not in used) * 4          # shares no character with any variable name: no suggestion at any cutoff
            for undefined in ('Q_undefined', next(iter(data)) + '_', far):
                try:
                    c.eval(f'X + {undefined}')
                    out.append(Violation('an undefined name is reported as AttributeError naming it', 'c16.eval.undefined-accepted', case, 'AttributeError', 'returned'))
                except AttributeError as ex:
                    if undefined not in str(ex):
                        out.append(Violation('an undefined name is reported as AttributeError naming it', 'c16.eval.undefined-not-named', case, undefined, str(ex)[:80]))
                except Exception as ex:  # noqa: BLE001
                    out.append(Violation('an undefined name is reported as AttributeError', f'c16.eval.undefined:{type(ex).__name__}', dict(case, name=undefined) if isinstance(case, dict) else case,
                                         'AttributeError', type(ex).__name__))
            return out
        has_bt = '`' in expr
        has_pos_slice = any(k == 'positional' for k in kinds) and ':' in ''.join(p for p in expr.split('`')[::2])
        for k in kinds:
            res.cover(k if not (k == 'positional' and has_bt) else 'mixed-positional-and-backtick')
        if not has_bt and 'positional' in kinds:
            res.cover('positional-only')
        res.nontrivial.add(expr + case['span'])
        jcase = dict(case, expr=expr)
        try:
            got = c.eval(expr, locals=locs)
        except Exception as ex:  # noqa: BLE001
            out.append(Violation('eval returns what Python/NumPy computes for the expression', f'c16.eval.raises:{type(ex).__name__}', jcase, np.asarray(want).tolist(),
                                 str(ex)[:80], 'eval'))
            return out
        if not _same(got, want):
            sig = 'c16.eval.value'
            if has_bt and has_pos_slice:
                sig += ':positional-slice-shifted-when-backtick-present'
            out.append(Violation('backticked labels select what label indexing selects; positional indexes keep their Python meaning; names bind to their series',
                                 sig, jcase, np.asarray(want).tolist(), np.asarray(got).tolist(), 'eval'))
        # a label index applies to whatever expression stands before the bracket: a parenthesised sum, a helper call
        try:
            i0 = rnd.randrange(n)
            a0, b0 = sorted(rnd.sample(range(n), 2)) if n >= 2 else (0, 0)
            for expr2, want2 in ((f'(X + Y)[{lab(i0)}]', (data['X'] + data['Y'])[i0]), (f'lag(X)[{lab(a0)}:{lab(b0)}]', F.lag(data['X'])[a0:b0 + 1]),
                                 (f'(X)[:{lab(b0)}] * 2', data['X'][:b0 + 1] * 2)):
                if 'lag(' in expr2 and 'lag' in names:
                    continue            # a variable called `lag` shadows the helper (that precedence is a clause of its own)
                got2 = c.eval(expr2)
                if not _same(got2, want2):
                    out.append(Violation('backticked labels select what label indexing selects, after any expression', 'c16.eval.value:label-after-parenthesis', dict(jcase, expr=expr2),
                                         np.asarray(want2).tolist(), np.asarray(got2).tolist(), 'eval'))
        except Exception as ex:  # noqa: BLE001
            out.append(Violation('backticked labels select what label indexing selects, after any expression', f'c16.eval.label-after-parenthesis:{type(ex).__name__}', jcase, 'value', str(ex)[:80]))
        for nm in names:
            if not _same(c[nm], data[nm]):
                out.append(Violation('evaluation never alters the container', 'c16.eval.mutates-container', jcase, data[nm].tolist(), c[nm].tolist()))
        if dict(F.builtins) != before_builtins or any(F.builtins[k] is not before_builtins[k] for k in before_builtins):
            out.append(Violation('evaluation never alters the package-level helper table', 'c16.eval.mutates-builtins', jcase, sorted(before_builtins), sorted(F.builtins)))
        return out


PROPERTY.bounded.append(EvalBounded())

PROPERTY.bounded.append(EncoderCrossCheck(_XT['C16']))

PROPERTY.explanation += ' eval(): the NameError branch is proved for both cases (a close variable name exists / none does): AttributeError naming the undefined name.'
