"""C17 - tracing never changes a solution and records it faithfully."""
from contracts.c02_solve_t import SolveTContract
from contracts.c11_copy import TraceInit
from contracts.c17_c18_mixins import CONTRACTS_TRACE, TRACER_CONTRACTS
from props.mixins_bounded import TracerTwin
from verif.spec import PropertySpec

PROPERTY = PropertySpec(
    id='C17', contracts=list(TRACER_CONTRACTS) + list(CONTRACTS_TRACE) + [TraceInit()], bounded=[TracerTwin()], level='other',
    explanation='The four TracerMixin wrappers are executed symbolically from source for every shape of `trace` (None/False/True/name/list/empty list) and '
                'reset: a snapshot is taken only when `trace` is truthy, with the documented label and on the documented side of the parent call; the '
                'parent is called exactly once with the same arguments and its result/exception passes through. With the hook-order clauses of '
                'BaseModel.solve_t (C02: pre hook once before pass 1, post hook once after the converging pass, passes numbered 1..k) the label '
                'sequence start, before, 0, 1..k, end follows. trace_t is executed from source for every kind of `trace` argument (one name as a string, list, tuple, True with TRACE_VARIABLES None / list / tuple), '
                'empty / non-empty stored trace and reset: reads exactly the traced variables at t in order, replaces the stored Trace only when empty or reset, appends once under the given label; '
                'Trace.__init__ (owns its names), Trace.append (one more column, earlier snapshots unchanged, non-vector values refused) and TracerMixin.__init__ (one separate empty Trace per period) likewise. '
                'That snapshot j equals the values after pass j is decided by the bounded twin run on scripted and faulting models.',
    level_text='proof obligations for the wrappers (all arguments) and for trace_t / Trace / TracerMixin.__init__ over enumerated argument shapes + bounded twin runs; mixed, hence other',
    level_note='trusted: pyvc, z3; assumed: contract of BaseModel.solve_t (C02); np.array / reshape / hstack run for real on concrete shapes in the Trace.append contract',
    technique='contract-based deductive verification of the wrappers (pyvc + z3); bounded twin-run contract',
    design_ref='DESIGN.md section 10 / C17',
)
