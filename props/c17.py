"""C17 - tracing never changes a solution and records it faithfully."""
from contracts.c02_solve_t import SolveTContract
from contracts.c11_copy import TraceInit
from contracts.c17_c18_mixins import CONTRACTS_TRACE, TRACER_CONTRACTS
from props.mixins_bounded import TracerTwin
from verif.spec import PropertySpec

PROPERTY = PropertySpec(
    id='C17', contracts=list(TRACER_CONTRACTS) + list(CONTRACTS_TRACE) + [TraceInit()], bounded=[TracerTwin()], level='other',
    explanation='The four TracerMixin wrappers are executed symbolically from source for every shape of `trace` (None/False/True/name/list/empty list) and '
                'reset: a snapshot is taken only when `trace` is truthy, with the documented label and on the documented side of the parent call; the '
                'parent is called exactly once with the same arguments and its result/exception passes through. With the hook-order clauses of '
                'BaseModel.solve_t (C02: pre hook once before pass 1, post hook once after the converging pass, passes numbered 1..k) the label '
                'sequence start, before, 0, 1..k, end follows. trace_t itself (reads values, writes only the Trace) and the final-snapshot clause are '
                'decided by the bounded twin run on scripted and faulting models.',
    level_text='proof obligations for the wrappers (all arguments) + bounded twin runs for trace_t / Trace.append; mixed, hence other',
    level_note='trusted: pyvc, z3; assumed: trace_t writes only the Trace object (bounded), contract of BaseModel.solve_t (C02)',
    technique='contract-based deductive verification of the wrappers (pyvc + z3); bounded twin-run contract',
    design_ref='DESIGN.md section 10 / C17',
)
