"""C18 - an alias is indistinguishable from the variable it names."""
from contracts.c09_containers import InterfaceInit
from contracts.c11_copy import InitOwnership
from contracts.c17_c18_mixins import ALIAS_CONTRACTS, ALIAS_EXPORT
from props.mixins_bounded import AliasTwin
from verif.spec import PropertySpec

PROPERTY = PropertySpec(
    id='C18', contracts=list(ALIAS_CONTRACTS) + list(ALIAS_EXPORT) + [InitOwnership('alias'), InterfaceInit()], bounded=[AliasTwin()], level='other',
    explanation='The four forwarding methods of AliasMixin are executed symbolically from source with a symbolic name: the parent is called exactly once '
                'with the resolved name (alias -> variable, anything else unchanged), the rest of the key and the value unchanged, and its result '
                'returned. AliasMixin.__init__ is executed from source on every alias map with <= 3 aliases (156 maps: chains, self-maps, cycles): each alias resolves to the variable at the end of its chain, cycles are '
                'rejected, constructor keywords given through aliases reach the underlying variables, the instance tables are copies. AliasMixin.to_dataframe: the export options are forwarded unchanged, '
                'the only operation on the table is one rename, each column to one of its own aliases (the preferred one where declared), ambiguous preferences rejected. "No extra storage" and the data of the '
                'exported table are decided by the bounded twin run.',
    level_text='proof obligations for the forwarders (all names), the constructor (all alias maps with <= 3 aliases) and the export (9 alias/preference shapes, all flag values) + bounded twin runs; mixed, hence other',
    level_note='trusted: pyvc, z3; bound: alias maps with <= 3 aliases (quick) over 3 variables',
    technique='contract-based deductive verification of the forwarders (pyvc + z3); bounded twin-run contract',
    design_ref='DESIGN.md section 10 / C18',
)
