"""C18 - an alias is indistinguishable from the variable it names."""
from contracts.c09_containers import InterfaceInit
from contracts.c11_copy import InitOwnership
from contracts.c17_c18_mixins import ALIAS_CONTRACTS, ALIAS_EXPORT
from props.mixins_bounded import AliasTwin
from verif.spec import PropertySpec

PROPERTY = PropertySpec(
    id='C18', contracts=list(ALIAS_CONTRACTS) + list(ALIAS_EXPORT) + [InitOwnership('alias'), InterfaceInit()], bounded=[AliasTwin()], level='other',
    explanation='The four forwarding methods of AliasMixin are executed symbolically from source with a symbolic name: the parent is called exactly once '
                'with the resolved name (alias -> variable, anything else unchanged), the rest of the key and the value unchanged, and its result '
                'returned. Chain resolution in __init__ (now bounded loop, repaired), constructor keywords, "no extra storage" and the export '
                'renaming are decided by the bounded twin run over all alias maps up to the size bound.',
    level_text='proof obligations for the forwarders + bounded twin runs over enumerated alias maps; mixed, hence other',
    level_note='trusted: pyvc, z3; bound: alias maps with <= 3 aliases (quick) over 3 variables',
    technique='contract-based deductive verification of the forwarders (pyvc + z3); bounded twin-run contract',
    design_ref='DESIGN.md section 10 / C18',
)
