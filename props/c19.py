"""C19 - tabular export and import are faithful round trips."""
from contracts.c19_tools import CONTRACTS as TOOL_CONTRACTS
from props.mixins_bounded import TabularRoundTrip
from verif.spec import PropertySpec

PROPERTY = PropertySpec(
    id='C19', contracts=list(TOOL_CONTRACTS), bounded=[TabularRoundTrip()], level='other',
    explanation='What fsic hands to pandas is proved: model_to_dataframe builds the column mapping from `names` in model order (underscore-prefixed names only '
                'when requested; symbolic names, 0-3 variables), each column bound to that series, index = the span object, status / iterations appended iff '
                'requested and in that order; linker_to_dataframes exports the linker and every submodel exactly once with the same flags under their ids. '
                'The table owns its data (DataFrame built with its default copy). from_dataframe: the class is instantiated once with the index as span (list, or the pandas time index itself) and each column`s values under its name, nothing '
                'filled in or dropped; dataframe_to_symbols: one Symbol per row in order, missing values become None. symbols_to_dataframe: pandas is handed exactly one record per symbol in list order, the six fields in field order with the symbol`s own values (0-3 symbols, symbolic contents), nothing converted, no further argument. What pandas does with the columns (dtype preservation, missing values, index fidelity) is bounded.',
    level_text='proof obligations for the column construction / flag forwarding + bounded round trips on the real tools: the substance of this property is what pandas does with the columns fsic hands it (dtype '
               'preservation, missing values, index fidelity), which no contract on fsic\'s functions can decide; columns, order, flags, index, values '
               'and dtypes are compared for models and linkers over span types and flag combinations; symbol lists round-tripped',
    level_note='bound: 8 span types x 8 flag combinations x 3 variable layouts; linkers with 0-2 submodels; catalogue + 150 random programs',
    technique='contract-based deductive verification of the thin wrappers (pyvc + z3, pandas.DataFrame as an assumed contract); bounded round trips',
    design_ref='DESIGN.md section 10 / C19',
)
