"""C19 - tabular export and import are faithful round trips."""
from props.mixins_bounded import TabularRoundTrip
from verif.spec import PropertySpec

PROPERTY = PropertySpec(
    id='C19', contracts=[], bounded=[TabularRoundTrip()], level='exploration',
    explanation='bounded: export / import round trips on the real tools',
    level_text='bounded run-time contract (stand-in): the substance of this property is what pandas does with the columns fsic hands it (dtype '
               'preservation, missing values, index fidelity), which no contract on fsic\'s functions can decide; columns, order, flags, index, values '
               'and dtypes are compared for models and linkers over span types and flag combinations; symbol lists round-tripped',
    level_note='bound: 8 span types x 8 flag combinations x 3 variable layouts; linkers with 0-2 submodels; catalogue + 150 random programs',
    technique='contract-based verification: run-time contract on model_to_dataframe / linker_to_dataframes / from_dataframe / dataframe_to_symbols, bounded',
    design_ref='DESIGN.md section 10 / C19',
)
