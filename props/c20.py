"""C20 - dependency graph tool reports exactly the dependencies the equations have."""
import os

from contracts.c01_programs import ProgramsContract, catalogue
from contracts.c20_graph import CONTRACTS as GRAPH_CONTRACTS
from props.parser_bounded import GraphEdges
from verif.spec import PropertySpec

_tier = os.environ.get('VERIF_TIER', 'quick')
_seed = int(os.environ.get('VERIF_SEED', '0'))

PROPERTY = PropertySpec(
    id='C20',
    contracts=[ProgramsContract(catalogue(_tier, _seed))] + list(GRAPH_CONTRACTS),
    bounded=[GraphEdges()],
    level='other',
    explanation='Per program (deductive, all data): the generated statement for y reads exactly the cells (x, t+k) of the terms of y\'s '
                'equation and every such term is read - so "no edge means no influence" and "every edge is read" hold for all data once the '
                'graph\'s edges equal the tree\'s terms. symbols_to_graph itself is under contract (contracts/c20_graph.py): for every list of 0-3 symbols with '
                'arbitrary equation strings (enumerated: which symbols carry an equation, 1-2 left and 0-2 right terms per equation) the tokeniser is applied to '
                'exactly the text left and right of the first "=" of each equation, every left-hand-side term becomes a node carrying that equation, the edges '
                'inserted are exactly the pairs (right-hand-side term -> left-hand-side term) of the same equation, nothing else is inserted, the one graph built is '
                'returned and the symbol list is untouched - against assumed contracts of term_re.finditer (uninterpreted token sequence) and networkx.DiGraph '
                '(insertion log). That the real regex reports exactly the tree\'s terms on real normalised equations is decided by the bounded run, together '
                'with a perturbation test.',
    level_text='per-program deductive read sets + deductive wiring contract of symbols_to_graph + bounded graph comparison and perturbation on the real tool',
    level_note='trusted: grammar; regex engine outside the verifier (term_re.finditer assumed: uninterpreted token sequence); networkx DiGraph.add_nodes_from/add_node/add_edge/add_edges_from (assumed: insertion log); '
               'precondition: every Symbol.equation contains "=" (the parser\'s normal form) and left-hand-side terms of different equations differ',
    technique='contract-based deductive verification (pyvc + z3): per-program read sets and the wiring contract of symbols_to_graph; bounded run-time contract on the real regex + networkx',
    design_ref='DESIGN.md section 10 / C20',
)
