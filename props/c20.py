"""C20 - dependency graph tool reports exactly the dependencies the equations have."""
import os

from contracts.c01_programs import ProgramsContract, catalogue
from props.parser_bounded import GraphEdges
from verif.spec import PropertySpec

_tier = os.environ.get('VERIF_TIER', 'quick')
_seed = int(os.environ.get('VERIF_SEED', '0'))

PROPERTY = PropertySpec(
    id='C20',
    contracts=[ProgramsContract(catalogue(_tier, _seed))],
    bounded=[GraphEdges()],
    level='other',
    explanation='Per program (deductive, all data): the generated statement for y reads exactly the cells (x, t+k) of the terms of y\'s '
                'equation and every such term is read - so "no edge means no influence" and "every edge is read" hold for all data once the '
                'graph\'s edges equal the tree\'s terms. That the graph built by symbols_to_graph has exactly those nodes/edges is a fact '
                'about re-tokenising the normalised equations (regex) and is decided by the bounded run, together with a perturbation test.',
    level_text='per-program deductive read sets + bounded graph comparison and perturbation on the real tool',
    level_note='trusted: grammar; regex engine outside the verifier; networkx DiGraph.add_nodes_from/add_edge',
    technique='per-program contract-based deductive verification (read sets) + bounded run-time contract on symbols_to_graph',
    design_ref='DESIGN.md section 10 / C20',
)
