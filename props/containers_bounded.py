"""Bounded run-time contracts for the container properties C09 (shape/dtype invariant under histories), C10 (label access),
C11 (copies and siblings share nothing), C12 (reindex) on the REAL classes, against a small reference model.
"""
from __future__ import annotations

import copy
import itertools
import math
import random
import warnings

import numpy as np

from verif.bounded import BoundedCheck, BoundedResult, Violation

N = 3


def span_catalogue(n=4):
    import pandas as pd
    return {
        'range': range(2000, 2000 + n),
        'range-neg': range(-2, -2 + n),
        'range-step': range(2000, 2000 + 5 * n, 5),
        'range-step-down': range(10 * n, 0, -10),
        'list-str': [f'p{i}' for i in range(n)],
        'list-mixed': [0, 'a', (1, 2), 2.5, None, -1, '', True][:n] if n <= 4 else list(range(n)),
        'np-int': np.arange(-1, -1 + n),
        'np-str': np.array([f's{i}' for i in range(n)]),
        'pd-index': pd.Index([10 * i - 10 for i in range(n)]),
        'pd-period-A': pd.period_range('2000', periods=n, freq='Y'),
        'pd-period-Q': pd.period_range('2000Q3', periods=n, freq='Q'),
        'pd-datetime': pd.date_range('2000-01-31', periods=n, freq='ME'),
    }


def same(a, b):
    a, b = np.asarray(a), np.asarray(b)
    if a.shape != b.shape or a.dtype.kind != b.dtype.kind:
        return False
    if a.dtype.kind == 'f':
        return bool(np.all((a == b) | (np.isnan(a) & np.isnan(b))))
    return bool(np.all(a == b))


def snapshot(c):
    return {k: c.__dict__['_' + k].copy() for k in c.index}


def wf_violations(c, created, case, where):
    """C09 invariant: every variable is a 1-D array with one element per period and the dtype it was created with."""
    out = []
    n = len(c.span)
    for k in c.index:
        a = c.__dict__.get('_' + k)
        if not isinstance(a, np.ndarray) or a.ndim != 1 or a.shape[0] != n:
            sig = 'c09.shape' + (':nested-sequence-of-span-length' if isinstance(a, np.ndarray) and a.ndim == 2 and a.shape[0] == n else '')
            out.append(Violation('every variable stays a one-dimensional array with one element per period', sig, case, f'({n},)',
                                 getattr(a, 'shape', type(a).__name__), 'wf'))
        elif k in created and a.dtype != created[k]:
            out.append(Violation('every variable keeps the dtype it was created with', 'c09.dtype', case, str(created[k]), str(a.dtype), 'wf'))
    if not out:
        try:
            vals = c.values
            names = c.index if not hasattr(c, 'names') else c.names
            if len(names) and (vals.shape != (len(names), n)):
                out.append(Violation('values is the variables-by-periods stack', 'c09.values-shape', case, (len(names), n), vals.shape, 'values'))
            elif len(names):
                want = np.array([c.__dict__['_' + k] for k in names])
                if want.shape != vals.shape or not bool(np.all((want == vals) | ((want != want) & (vals != vals)) if want.dtype.kind == 'f' else (want == vals))):
                    out.append(Violation('values is the variables-by-periods stack in declaration order', 'c09.values-content', case, want.tolist()[:2], vals.tolist()[:2], 'values'))
            if c.size != len(names) * n:
                out.append(Violation('size is the element count of values', 'c09.size', case, len(names) * n, c.size, 'size'))
        except Exception as ex:  # noqa: BLE001
            out.append(Violation('values is the variables-by-periods stack', f'c09.values-raises:{type(ex).__name__}', case, 'stack', str(ex)[:80], 'values'))
    return out


OPERANDS = {
    'int': 7, 'float': 2.5, 'bool': True, 'str': 'x',
    'list-ok': [1.0, 2.0, 3.0], 'list-short': [1.0, 2.0], 'list-long': [1.0, 2.0, 3.0, 4.0], 'tuple-ok': (4, 5, 6), 'range-ok': range(3),
    'nested-ok-outer': [[1, 2], [3, 4], [5, 6]], 'nested-bad': [[1, 2, 3], [4, 5, 6]], 'nested-size-n-col': [[1], [2], [3]], 'nested-size-n-row': [[1, 2, 3]],
    'np-ok': np.array([7.0, 8.0, 9.0]), 'np-short': np.array([1.0]), 'np-2d': np.ones((3, 2)), 'np-int-ok': np.array([1, 2, 3]),
    'list-str-ok': ['a', 'b', 'c'], 'tuple-str-ok': ('ab', 'cd', 'ef'), 'list-bool-ok': [True, False, True],
    'range-one': range(1), 'range-long': range(4), 'tuple-one': (9.0,), 'list-one': [9.0], 'np-one': np.array([9.0]),
}


def apply_op(c, op):
    kind = op[0]
    if kind == 'add_variable':
        c.add_variable(op[1], OPERANDS[op[2]], **({'dtype': op[3]} if len(op) > 3 and op[3] else {}))
    elif kind == 'setattr':
        setattr(c, op[1], OPERANDS[op[2]])
    elif kind == 'setitem':
        c[op[1]] = OPERANDS[op[2]]
    elif kind == 'setlabel':
        c[op[1], c.span[op[2]]] = OPERANDS[op[3]]
    elif kind == 'setslice':
        c[op[1], c.span[op[2]]:c.span[op[3]]] = OPERANDS[op[4]]
    elif kind == 'replace_values':
        c.replace_values(**{op[1]: OPERANDS[op[2]]})
    elif kind == 'values':
        if op[1] == 'scalar':
            c.values = 1.5
        elif op[1] == 'array-ok':
            c.values = np.full(c.values.shape, 2.0)
        else:
            c.values = np.full((c.values.shape[0] + 1, c.values.shape[1]), 2.0)
    elif kind == 'add_attribute':
        c.add_attribute(op[1], 5)
    elif kind == 'strict':
        c.strict = op[1]
    else:
        raise ValueError(kind)


def op_alphabet():
    ops = []
    for v in ('int', 'float', 'list-ok', 'list-short', 'np-ok', 'np-2d', 'nested-ok-outer', 'nested-bad', 'nested-size-n-col', 'nested-size-n-row', 'list-str-ok', 'tuple-ok', 'range-ok'):
        ops.append(('add_variable', 'B', v))
        ops.append(('setattr', 'A', v))
        ops.append(('setitem', 'A', v))
    ops += [('add_variable', 'A', 'int'), ('add_variable', 'D', 'int', float), ('add_variable', 'S', 'str'), ('add_variable', 'K', 'bool')]
    # sequences of the wrong length in every spelling (a one-element sequence must not be spread over the series like a scalar)
    for v in ('range-one', 'range-long', 'tuple-one', 'list-one', 'np-one'):
        ops += [('setattr', 'A', v), ('setitem', 'A', v), ('add_variable', 'B', v), ('replace_values', 'A', v)]
    ops += [('setattr', 'A', 'np-short'), ('setattr', 'A', 'list-long'), ('setattr', 'Zz', 'int'), ('setattr', 'a', 'int'), ('setitem', 'nope', 'int')]
    ops += [('setlabel', 'A', 1, 'float'), ('setlabel', 'A', 0, 'list-ok'), ('setslice', 'A', 0, 1, 'float'), ('setslice', 'A', 0, 2, 'list-ok'),
            ('setslice', 'A', 1, 2, 'list-ok'), ('setslice', 'A', 2, 0, 'float')]
    ops += [('replace_values', 'A', 'float'), ('replace_values', 'A', 'list-short'), ('replace_values', 'nope', 'int')]
    ops += [('values', 'scalar'), ('values', 'array-ok'), ('values', 'array-bad')]
    ops += [('add_attribute', 'note'), ('add_attribute', 'A'), ('strict', True), ('strict', False)]
    return ops


class Histories(BoundedCheck):
    """C09: operation histories on VectorContainer and BaseModel."""
    name = 'c09.histories'
    props = ('C09',)
    bound_quick = 'all histories of length <= 2 over a 60-operation alphabet on VectorContainer and a BaseModel subclass (float, int, str, bool variables), plus 1500 random histories of length 3..6'
    bound_thorough = 'all histories of length <= 3 (sampled 1 in 4), 20000 random histories of length 3..8'
    required_covers = ('raised-unchanged', 'ok', 'strict-blocked', 'strict-update-ok')

    def cases(self, tier, seed):
        ops = op_alphabet()
        for target in ('container', 'model'):
            for a in ops:
                yield {'target': target, 'ops': [a]}
            for a, b in itertools.product(ops, repeat=2):
                yield {'target': target, 'ops': [a, b]}
        strict_ops = [('setattr', 'Zz', 'int'), ('setattr', 'A', 'float'), ('setattr', 'note', 'int'), ('add_attribute', 'note'), ('strict', True), ('strict', False),
                      ('add_variable', 'B', 'int'), ('setattr', 'B', 'float'), ('setitem', 'A', 'float'), ('values', 'scalar')]
        for target in ('container', 'model'):
            for hist in itertools.product(strict_ops, repeat=3):
                yield {'target': target, 'ops': list(hist)}
        # objects constructed with strict=True (the switch itself must stay operable), and string series assigned from sequences
        for target in ('container-strict', 'model-strict'):
            for hist in itertools.product(strict_ops, repeat=2):
                yield {'target': target, 'ops': list(hist)}
        str_ops = [('setattr', 'T', 'list-str-ok'), ('setitem', 'T', 'tuple-str-ok'), ('setattr', 'T', 'str'), ('setlabel', 'T', 1, 'str'), ('replace_values', 'T', 'list-str-ok'),
                   ('setattr', 'status', 'list-str-ok'), ('setattr', 'I', 'list-ok'), ('setattr', 'K', 'list-bool-ok'), ('add_variable', 'K', 'bool')]
        for target in ('container', 'model'):
            for hist in itertools.product(str_ops, repeat=2):
                yield {'target': target, 'ops': list(hist)}
        rnd = random.Random(seed + 77)
        if tier == 'thorough':
            for a, b, c_ in itertools.product(ops, repeat=3):
                if rnd.random() < 0.25:
                    yield {'target': 'container', 'ops': [a, b, c_]}
        for _ in range(20000 if tier == 'thorough' else 1500):
            yield {'target': rnd.choice(['container', 'model']), 'ops': [rnd.choice(ops) for _ in range(rnd.randint(3, 8 if tier == 'thorough' else 6))]}

    @staticmethod
    def make(target):
        import fsic
        strict = target.endswith('-strict')
        target = target.replace('-strict', '')
        if target == 'container':
            c = fsic.core.VectorContainer(range(10, 10 + N), strict=strict)
            c.add_variable('A', 1.0)
            c.add_variable('I', 2)
            c.add_variable('T', 'ab')
            return c

        class M(fsic.BaseModel):
            ENDOGENOUS = ['A']
            EXOGENOUS = ['X']
            NAMES = ENDOGENOUS + EXOGENOUS
        m = M(range(10, 10 + N), strict=strict)
        m.add_variable('I', 2, dtype=int)
        m.add_variable('T', 'ab', dtype='<U2')
        return m

    def check(self, case, res: BoundedResult):
        out = []
        c = self.make(case['target'])
        created = {k: c.__dict__['_' + k].dtype for k in c.index}
        jcase = {'target': case['target'], 'ops': [[x if not isinstance(x, type) else x.__name__ for x in op] for op in case['ops']]}
        res.nontrivial.add(repr(jcase))
        for step, op in enumerate(case['ops']):
            op = tuple(op[:3]) + ((float,) if len(op) > 3 and op[3] in (float, 'float') else ()) if op[0] == 'add_variable' else tuple(op)
            before = snapshot(c)
            index_before = list(c.index)
            attrs_before = set(c.__dict__)
            strict = c.strict
            try:
                with warnings.catch_warnings():
                    warnings.simplefilter('ignore')
                    apply_op(c, op)
                raised = None
            except Exception as ex:  # noqa: BLE001
                raised = ex
            after = snapshot(c)
            here = dict(jcase, step=step)
            if raised is not None and op[0] == 'values' and op[1] in ('scalar', 'array-ok') and isinstance(raised, AttributeError):
                out.append(Violation('with strict=True updates of existing names keep working (values replacement is not a new attribute)', 'c09.values-blocked-under-strict', here,
                                     'replaced', f'{type(raised).__name__}: {raised}'[:90]))
            if raised is not None and op[0] == 'strict':
                out.append(Violation('the strict switch itself can always be set (with strict=True updates of existing names keep working)', 'c09.strict-switch-blocked', here,
                                     'accepted', f'{type(raised).__name__}: {raised}'[:80]))
            if raised is not None:
                res.cover('raised-unchanged')
                multi = op[0] in ('values',)     # bulk replacement may have replaced earlier rows before failing (single-variable clause only)
                if not multi and (list(c.index) != index_before or any(k not in after or not same(after[k], before[k]) for k in before)):
                    out.append(Violation('an assignment that cannot fit raises and leaves every series unchanged', f'c09.raise-changes-state:{op[0]}',
                                         here, 'unchanged', f'{type(raised).__name__}', 'raises_unchanged'))
                if hasattr(c, 'names') and len(c.names) != len(set(c.names)):
                    out.append(Violation('a failed creation leaves the variable list unchanged', 'c09.names-duplicated', here, index_before, list(c.names)))
                if hasattr(c, 'names') and any(nm not in c.index for nm in c.names):
                    out.append(Violation('a failed creation leaves the variable list unchanged', 'c09.names-phantom', here, index_before, list(c.names)))
                if strict and op[0] == 'setattr' and op[1] not in index_before and isinstance(raised, AttributeError):
                    res.cover('strict-blocked')
                    near = [k for k in index_before if k.lower() == str(op[1]).lower()]
                    if near and f"'{near[0]}'" not in str(raised):
                        out.append(Violation('under strict a near-miss name is reported with the closest variable', 'c09.near-miss-not-reported', here, near[0], str(raised)[:100]))
                if strict and op[0] == 'setattr' and (op[1] in index_before or op[1] in attrs_before) and isinstance(raised, AttributeError):
                    out.append(Violation('with strict=True updates of existing names keep working', 'c09.strict-blocks-existing', here, 'accepted', str(raised)[:80]))
            else:
                res.cover('ok')
                if op[0] in ('setattr', 'setitem', 'add_variable', 'replace_values') and len(op) > 2 and op[2] in ('range-one', 'range-long', 'tuple-one', 'list-one', 'list-short', 'list-long') \
                        and (op[1] in index_before or op[0] == 'add_variable'):
                    out.append(Violation('a single-variable assignment of the wrong length raises and leaves every series unchanged', f'c09.wrong-length-accepted:{op[0]}:{op[2]}', here,
                                         'DimensionError', 'accepted', 'raises_unchanged'))
                if op[0] in ('setitem', 'setlabel', 'setslice', 'replace_values') and op[1] not in index_before:
                    out.append(Violation('a single-variable assignment to an unknown name raises and leaves every series unchanged', f'c09.unknown-name-accepted:{op[0]}',
                                         here, 'KeyError', 'accepted', 'unknown_name_raises_KeyError'))
                new_attrs = set(c.__dict__) - attrs_before
                if op[0] in ('setitem', 'setlabel', 'setslice', 'replace_values', 'values') and new_attrs:
                    out.append(Violation('item, label and bulk assignment never create attributes', f'c09.assignment-created-attribute:{op[0]}', here, 'none', sorted(new_attrs)))
                for k in c.index:
                    if k not in created:
                        created[k] = c.__dict__['_' + k].dtype if isinstance(c.__dict__['_' + k], np.ndarray) else None
                if strict and op[0] == 'setattr':
                    if op[1] not in index_before and op[1] not in attrs_before and op[1] != 'strict':
                        out.append(Violation('with strict=True no assignment can create a new non-variable attribute', 'c09.strict-created-attribute', here,
                                             'AttributeError', 'created'))
                    else:
                        res.cover('strict-update-ok')
            out += wf_violations(c, created, here, 'after op')
            if out:
                break
        return out


class LabelAccess(BoundedCheck):
    """C10: label-based get/set over every span type, every label, every (start, stop, step) triple, absent labels."""
    name = 'c10.label-access'
    props = ('C10', 'C05')
    bound_quick = 'spans of length 4 of 10 types (ranges with non-zero origin, strings, mixed hashables incl. falsy labels, NumPy int/str, pandas Index / annual and quarterly PeriodIndex / DatetimeIndex); every label, every (start, stop, step) with step in {None,1,2,3} incl. open ends, absent labels; get and set; solve_period / solve(start=) per span type; year labels as slice bounds on a quarterly PeriodIndex of 8 periods (every pair of bounds, steps None/1/2/3)'
    bound_thorough = 'spans of length 1..6'
    required_covers = ('single', 'slice', 'open-end', 'absent', 'falsy-label', 'empty-slice', 'coarse-label-slice')

    def cases(self, tier, seed):
        for n in ([1, 2, 3, 4, 5, 6] if tier == 'thorough' else [4]):
            for sname in span_catalogue(n):
                yield {'span': sname, 'n': n}
        yield {'span': 'coarse-labels-on-a-quarterly-PeriodIndex', 'n': 8}

    def check_coarse(self, case, res: BoundedResult):
        """A label coarser than the span's frequency (a year on a quarterly PeriodIndex) names a run of periods: as the lower bound of a slice it
        stands for the first of them, as the upper bound for the last (inclusive), also when both bounds are the same label."""
        import fsic
        import pandas as pd
        out = []
        n = case['n']
        span = pd.period_range('2000Q2', periods=n, freq='Q')
        res.nontrivial.add(repr(case))

        def fresh():
            c = fsic.core.VectorContainer(span)
            c.add_variable('X', [float(10 + i) for i in range(n)])
            return c
        c = fresh()
        years = sorted({p_.year for p_ in span})
        first = {str(y): min(i for i, p_ in enumerate(span) if p_.year == y) for y in years}
        last = {str(y): max(i for i, p_ in enumerate(span) if p_.year == y) for y in years}
        bounds = [None] + [str(y) for y in years] + [str(span[2])]
        for a, b, step in itertools.product(bounds, bounds, (None, 1, 2, 3)):
            pa = 0 if a is None else first.get(a, 2)
            pb = n - 1 if b is None else last.get(b, 2)
            want_pos = list(range(pa, pb + 1, step or 1))
            res.cover('coarse-label-slice')
            res.nontrivial.add((case['span'], 'slice', a, b, step))
            res.evaluations += 2
            sl = slice(a, b, step)
            try:
                got = [float(x) for x in c['X', sl]]
            except Exception as ex:  # noqa: BLE001
                got = repr(ex)[:80]
            if got != [float(10 + j) for j in want_pos]:
                out.append(Violation('obj[name, a:b:s] addresses positions pos(a) through pos(b) inclusive (a coarser label: first period of a, last period of b)',
                                     'c10.get-slice:coarse', dict(case, detail=str((a, b, step))), [10 + j for j in want_pos], got, 'label_slice'))
            d = fresh()
            try:
                d['X', sl] = -2.0
                got = d.X.tolist()
            except Exception as ex:  # noqa: BLE001
                got = repr(ex)[:80]
            want = [-2.0 if j in want_pos else float(10 + j) for j in range(n)]
            if got != want:
                out.append(Violation('obj[name, a:b:s] = v addresses positions pos(a) through pos(b) inclusive (a coarser label: first period of a, last period of b)',
                                     'c10.set-slice:coarse', dict(case, detail=str((a, b, step))), want, got, 'label_slice'))
        return out

    def check(self, case, res: BoundedResult):
        import fsic
        if case['span'] == 'coarse-labels-on-a-quarterly-PeriodIndex':
            return self.check_coarse(case, res)
        out = []
        n = case['n']
        span = span_catalogue(n)[case['span']]
        labels = list(span)
        res.nontrivial.add(repr(case))

        def fresh():
            c = fsic.core.VectorContainer(span)
            c.add_variable('X', [float(10 + i) for i in range(n)])
            c.add_variable('W', 0)
            return c
        c = fresh()

        def bad(clause, sig, detail, expected, observed, ob=''):
            out.append(Violation(clause, sig, dict(case, detail=str(detail)), expected, observed, ob))
        for i, lab in enumerate(labels):
            res.cover('single')
            res.nontrivial.add((case['span'], n, 'label', i))
            res.evaluations += 2
            if lab is None:
                continue
            if not lab and lab is not None:
                res.cover('falsy-label')
            try:
                v = c['X', lab]
                if not (np.ndim(v) == 0 and float(v) == 10 + i):
                    bad('obj[name, label] addresses exactly the element at the label position', 'c10.get-label', lab, 10 + i, repr(v), 'single_label')
            except Exception as ex:  # noqa: BLE001
                bad('obj[name, label] addresses exactly the element at the label position', f'c10.get-label-raises:{type(ex).__name__}:{case["span"]}', lab, 10 + i,
                    repr(ex)[:80], 'single_label')
            d = fresh()
            try:
                d['X', lab] = -1.0
                want = [float(10 + j) if j != i else -1.0 for j in range(n)]
                if d.X.tolist() != want or d['X'].tolist() != want or d.__dict__['_X'].tolist() != want or float(d.X[i]) != -1.0:
                    bad('a value written through a label is read back unchanged through every other path', 'c10.set-label', lab, want, d.X.tolist(), 'single_label')
            except Exception as ex:  # noqa: BLE001
                bad('obj[name, label] = v addresses exactly the element at the label position', f'c10.set-label-raises:{type(ex).__name__}:{case["span"]}', lab,
                    'stored', repr(ex)[:80], 'single_label')
        # label slices (labels that cannot be slice bounds: None means "open end" in Python)
        bounds = [(None, None)] + [(i, labels[i]) for i in range(n) if labels[i] is not None]
        for (ia, a), (ib, b), step in itertools.product(bounds, bounds, (None, 1, 2, 3)):
            pa = 0 if ia is None else ia
            pb = n - 1 if ib is None else ib
            want_pos = list(range(pa, pb + 1, step or 1))
            res.cover('open-end' if ia is None or ib is None else 'slice')
            res.nontrivial.add((case['span'], n, 'slice', ia, ib, step))
            res.evaluations += 2
            if not want_pos:
                res.cover('empty-slice')
            sl = slice(a, b, step)
            try:
                got = c['X', sl]
                if [float(x) for x in got] != [float(10 + j) for j in want_pos]:
                    bad('obj[name, a:b:s] addresses positions pos(a) through pos(b) inclusive in steps of s', 'c10.get-slice', (a, b, step),
                        [10 + j for j in want_pos], [float(x) for x in got], 'label_slice')
            except Exception as ex:  # noqa: BLE001
                bad('obj[name, a:b:s] addresses positions pos(a) through pos(b) inclusive', f'c10.get-slice-raises:{type(ex).__name__}:{case["span"]}', (a, b, step),
                    want_pos, repr(ex)[:80], 'label_slice')
                continue
            d = fresh()
            try:
                d['X', sl] = -2.0
                want = [-2.0 if j in want_pos else float(10 + j) for j in range(n)]
                if d.X.tolist() != want:
                    bad('obj[name, a:b:s] = v writes exactly positions pos(a)..pos(b) in steps of s', 'c10.set-slice', (a, b, step), want, d.X.tolist(), 'label_slice')
            except Exception as ex:  # noqa: BLE001
                bad('obj[name, a:b:s] = v writes exactly those positions', f'c10.set-slice-raises:{type(ex).__name__}', (a, b, step), 'stored', repr(ex)[:80])
        # absent labels
        # variables named like members of the container class (`size` is a property, `copy` a method): item access addresses the series all the same
        e = fresh()
        for nm, base_ in (('size', 100.0), ('copy', 200.0), ('values', 300.0)):
            try:
                e.add_variable(nm, [base_ + i for i in range(n)])
            except Exception:  # noqa: BLE001 - a name the container refuses is not part of this clause
                continue
            res.evaluations += 1
            try:
                whole = e[nm]
                one = e[nm, labels[0]] if labels[0] is not None else base_
                ok = isinstance(whole, np.ndarray) and whole.tolist() == [base_ + i for i in range(n)] and float(one) == base_
                if ok and labels[0] is not None:
                    e[nm, labels[0]] = -7.0
                    ok = float(e[nm][0]) == -7.0 and float(e.__dict__['_' + nm][0]) == -7.0
            except Exception as ex:  # noqa: BLE001
                ok, whole = False, repr(ex)[:60]
            if not ok:
                bad('obj[name] and obj[name, label] address the series of that name (whatever else the name means on the class)', f'c10.member-named-variable:{nm}', nm, 'the series',
                    repr(whole)[:60])
        # absent labels, including hashable containers: a tuple is one label (it must not be matched element by element against the span)
        tuple_absent = [('__absent__', 1), (labels[0],), tuple(['__x__'] + [x for x in labels[1:]])]
        tuple_absent = [x for x in tuple_absent if all(not (isinstance(lab, tuple) and lab == x) for lab in labels)]
        near = []
        for lab in labels[:2]:
            if isinstance(lab, (int, np.integer)) and not isinstance(lab, bool):
                near += [float(lab) + 0.5, str(int(lab)), int(lab) + 1, int(lab) - 1]          # a number between two labels; the label's text; the neighbouring integers
            elif isinstance(lab, str) and lab:
                near += [lab + 'x', lab[:-1] + ' ']                  # a longer string with the label as prefix; same length, other text
        def same_label(x, lab):
            num = lambda v: isinstance(v, (int, float, np.integer, np.floating)) and not isinstance(v, (bool, np.bool_))   # noqa: E731
            if num(x) and num(lab):
                return x == lab
            return type(x) is type(lab) and x == lab
        near = [x for x in near if not any(same_label(x, lab) for lab in labels)]
        for absent in ['__absent__', 99999, -99999, 3.75] + near + tuple_absent:
            res.cover('absent')
            before = c.X.copy()
            for what, fn in (('get', lambda: c['X', absent]), ('set', lambda: c.__setitem__(('X', absent), 1.0)),
                             ('slice', lambda: c['X', absent:labels[-1]])):
                try:
                    r = fn()
                    if what == 'get' and case['span'].startswith('pd-') and isinstance(absent, float):
                        pass
                    bad('a label that is not in the span raises KeyError and never aliases another period', f'c10.absent-accepted:{what}:{case["span"]}', absent,
                        'KeyError', repr(r)[:60], 'absent_label')
                except KeyError:
                    pass
                except Exception as ex:  # noqa: BLE001
                    bad('a label that is not in the span raises KeyError', f'c10.absent-wrong-exception:{type(ex).__name__}:{what}:{case["span"]}', absent, 'KeyError',
                        type(ex).__name__, 'absent_label')
            if not same(c.X, before):
                bad('an absent label never aliases another period', 'c10.absent-aliases', absent, before.tolist(), c.X.tolist(), 'absent_label')
        # the same addressing on models and linkers, including their bookkeeping variables (status / iterations are variables like any other)
        class P(fsic.BaseModel):
            ENDOGENOUS = ['Y']
            EXOGENOUS = ['Z']
            NAMES = ENDOGENOUS + EXOGENOUS
            CHECK = ENDOGENOUS

        class Lk(fsic.BaseLinker):
            ENDOGENOUS = ['Q']
            NAMES = ENDOGENOUS
            CHECK = ENDOGENOUS
        for kind in ('model', 'linker'):
            for var, val, val2 in (('status', 'E', 'S'), ('iterations', 7, 9), ('Y' if kind == 'model' else 'Q', 2.5, 3.5)):
                for i, lab in enumerate(labels):
                    if lab is None:
                        continue
                    res.nontrivial.add((case['span'], n, kind, var, i))
                    res.evaluations += 1
                    try:
                        o = P(span) if kind == 'model' else Lk({'A': P(span)}, name='_')
                        start = o[var].tolist()
                        o[var, lab] = val
                        want = [val if j == i else start[j] for j in range(n)]
                        got = o[var].tolist()
                        back = o[var, lab]
                        if got != want or back != val or getattr(o, var).tolist() != want:
                            bad('a value written through a label is read back unchanged through every other path', f'c10.model-set-label:{kind}:{var}', lab, want, got)
                        o[var, lab:lab] = val2
                        if o[var].tolist() != [val2 if j == i else start[j] for j in range(n)]:
                            bad('obj[name, a:b:s] = v writes exactly positions pos(a)..pos(b)', f'c10.model-set-slice:{kind}:{var}', lab, val2, o[var].tolist())
                    except Exception as ex:  # noqa: BLE001
                        bad('obj[name, label] = v addresses exactly the element at the label position (models, linkers, every variable incl. status / iterations)',
                            f'c10.model-set-label-raises:{kind}:{var}:{type(ex).__name__}:{case["span"]}', lab, 'stored', repr(ex)[:80])
                        break
        # solve_period(label) == solve_t(position) for every span type (C05)
        class M(fsic.BaseModel):
            ENDOGENOUS = ['Y']
            NAMES = ENDOGENOUS
            CHECK = ENDOGENOUS

            def _evaluate(self, t, **kw):
                self._Y[t] = 1.0
        for i, lab in enumerate(labels):
            if lab is None:
                continue
            m = M(span)
            try:
                m.solve_period(lab)
                if [str(s) for s in m.status] != ['.' if j == i else '-' for j in range(n)]:
                    bad('solve_period(label) is identical to solve_t(position of label)', 'c05.solve_period', lab, i, [str(s) for s in m.status], 'equals_solve_t_at_position')
            except Exception as ex:  # noqa: BLE001
                bad('solve_period(label) is identical to solve_t(position of label) for every supported span type',
                    f'c05.solve_period-raises:{type(ex).__name__}:{case["span"]}', lab, i, repr(ex)[:60], 'equals_solve_t_at_position')
            m = M(span)
            try:
                m.solve(start=lab)
                if [str(s) for s in m.status] != ['.' if j >= i else '-' for j in range(n)]:
                    bad('solve(start=label) visits exactly the periods from start to end', 'c05.solve-start', lab, i, [str(s) for s in m.status])
            except Exception as ex:  # noqa: BLE001
                bad('solve(start=label) visits the periods from the label on, for every supported span type', f'c05.solve-start-raises:{type(ex).__name__}:{case["span"]}',
                    lab, i, repr(ex)[:60], 'visits_exactly_start_to_end')
        return out


class CopyIndependence(BoundedCheck):
    """C11: copy(), copy.copy(), copy.deepcopy() and sibling instances / the class share no mutable state."""
    name = 'c11.independence'
    props = ('C11',)
    bound_quick = 'VectorContainer, parser-built model, linker with two submodels, Alias+Tracer model; 3 copy routes; 14 mutations applied to either side after 0..2 preceding operations (incl. a traced solve); sibling instances and class attributes'
    bound_thorough = 'as quick with 3 preceding operations and random mutation sequences of length 4'
    required_covers = ('copy', 'copy.copy', 'deepcopy', 'sibling', 'traced', 'copy-after-an-earlier-copy')

    KINDS = ('container', 'model', 'linker', 'mixin')

    def cases(self, tier, seed):
        for kind in self.KINDS:
            for route in ('copy', 'copy.copy', 'deepcopy', 'sibling', 'copy-after-an-earlier-copy'):
                for pre in (0, 1, 2):
                    for side in ('original', 'other'):
                        yield {'kind': kind, 'route': route, 'pre': pre, 'side': side}

    @staticmethod
    def make(kind):
        import fsic
        from fsic.extensions import AliasMixin
        from fsic.extensions.model import TracerMixin
        if kind == 'container':
            c = fsic.core.VectorContainer(list(range(5)))
            c.add_variable('A', 1.0)
            c.add_variable('I', 2)
            c.add_attribute('meta', {'k': [1, 2]})
            return c, type(c)
        Model = fsic.build_model(fsic.parse_model('Y = C + G\nC = {a} * Y[-1]'))
        if kind == 'model':
            return Model(list(range(5)), G=1.0, a=0.5), Model
        if kind == 'linker':
            lk = fsic.BaseLinker({'A': Model(list(range(5)), G=1.0, a=0.5), 'B': Model(list(range(5)), G=2.0, a=0.25)})
            lk.model = ['scenario-1']            # attributes whose names happen to be fragments of 'submodels'
            lk.sub = {'k': 1}
            return lk, type(lk)

        class Mixed(AliasMixin, TracerMixin, Model):
            ALIASES = {'GDP': 'Y', 'cons': 'C'}
            PREFERRED_NAMES = ['GDP']
            TRACE_VARIABLES = ['Y', 'C']
        return Mixed(list(range(5)), G=1.0, a=0.5), Mixed

    @staticmethod
    def observe(o):
        """Deep observable state of an object (values, bookkeeping, lists, attributes, traces, submodels)."""
        d = {}
        for k, v in o.__dict__.items():
            if k == 'submodels':
                d[k] = {sk: CopyIndependence.observe(sv) for sk, sv in v.items()}
            elif isinstance(v, np.ndarray):
                if v.dtype == object:
                    d[k] = [(list(getattr(x, 'names', [])), list(getattr(x, 'index', [])), np.asarray(getattr(x, 'values', [])).tolist()) for x in v]
                else:
                    d[k] = v.tolist()
            else:
                d[k] = copy.deepcopy(v) if not callable(v) else None
        if hasattr(o, 'eval'):
            try:
                d['eval(EV)'] = repr(o.eval('EV'))
            except Exception as ex:  # noqa: BLE001
                d['eval(EV)'] = type(ex).__name__
        return repr(d)

    @staticmethod
    def mutations(kind):
        muts = [
            ('value', lambda o: o.__dict__['_' + o.index[-1]].__setitem__(0, 9) if o.__dict__['_' + o.index[-1]].dtype != object else None),
            ('add_variable', lambda o: o.add_variable('NEW', 3.0)),
            ('add_attribute', lambda o: o.add_attribute('extra', [1])),
            ('span', lambda o: o.span.append(99) if isinstance(o.span, list) else None),
            ('index-list', lambda o: o.index.append('ghost')),
            ('eval-after-add', lambda o: (o.add_variable('EV', 4.0), o.eval('EV * 2'))),
        ]
        if kind != 'container':
            muts += [('status', lambda o: o.status.__setitem__(1, 'E')), ('names-list', lambda o: o.names.append('ghost2')),
                     ('check-list', lambda o: o.check.append('Q')), ('endogenous-list', lambda o: o.endogenous.append('Q2')),
                     ('lags', lambda o: setattr(o, 'lags', 7))]
        if kind == 'container':
            muts += [('attribute-contents', lambda o: o.meta['k'].append(3))]
        if kind == 'linker':
            muts += [('submodel-value', lambda o: o.submodels['A'].Y.__setitem__(2, 5.0)), ('submodel-status', lambda o: o.submodels['B'].status.__setitem__(0, 'F')),
                     ('submodel-add', lambda o: o.submodels['A'].add_variable('N2', 1.0))]
        if kind == 'mixin':
            muts += [('aliases', lambda o: o.aliases.__setitem__('inc', 'Y')), ('preferred', lambda o: o.preferred_names.append('cons')),
                     ('trace-names', lambda o: (o.solve_t(1, trace=True, failures='ignore', max_iter=2), o.trace[1].names.append('zz'))),
                     ('trace-values-in-place', lambda o: [tr.values.__setitem__((0, 0), -123.0) for tr in o.trace if not tr.is_empty()][:1] or o.solve_t(1, trace=True, failures='ignore', max_iter=2)),
                     ('traced-solve', lambda o: o.solve_t(2, trace=True, failures='ignore', max_iter=3))]
        return muts

    def check(self, case, res: BoundedResult):
        out = []
        kind, route = case['kind'], case['route']
        res.cover(route)
        for mname, _ in self.mutations(kind):
            out += self.check_one(case, mname, res)
        return out

    def build_pair(self, case, res):
        kind, route = case['kind'], case['route']
        obj, cls = self.make(kind)
        if case['pre'] >= 1 and kind != 'container':
            if kind == 'mixin':
                res.cover('traced')
                obj.solve(trace=True, failures='ignore', max_iter=3)
            else:
                obj.solve(failures='ignore', max_iter=3)
        if case['pre'] >= 2:
            obj.add_variable('P', 1.0)
        if case['pre'] >= 1:
            # instance-level state edited before the copy is taken: the copy carries it (a copy is not a fresh instance of the class)
            if kind == 'mixin':
                obj.aliases['inc'] = 'Y'
                obj.preferred_names.append('cons')
            if kind != 'container':
                obj.check.append('G')
                obj.lags = 3
            obj.note = ['ad hoc']
        if route == 'copy-after-an-earlier-copy':
            # the object was copied before and has changed since: the new copy is a copy of the object as it is now, and shares nothing with the earlier one
            earlier = obj.copy()
            obj.__dict__['_' + obj.index[0]][0] = 42
            obj.add_attribute('later', [1])
            other = copy.copy(obj)
            if any(v is w for v in other.__dict__.values() for w in earlier.__dict__.values() if isinstance(v, (np.ndarray, list, dict))):
                res.cover('shared-with-earlier-copy')
                other.__dict__['__shared_with_earlier_copy__'] = True
        elif route == 'copy':
            other = obj.copy()
        elif route == 'copy.copy':
            other = copy.copy(obj)
        elif route == 'deepcopy':
            other = copy.deepcopy(obj)
        elif kind in ('model', 'mixin'):
            if case['pre'] == 2:
                # siblings constructed from one and the same caller-owned array (and the original given new values from it): each owns its series
                shared, shared_a = np.full(5, 1.0), np.full(5, 0.5)
                obj = obj.__class__(list(range(5)), G=shared, a=shared_a)
                other = obj.__class__(list(range(5)), G=shared, a=shared_a)
            else:
                other = obj.__class__(list(range(5)), G=1.0, a=0.5)
            if case['pre'] >= 1 and kind == 'mixin':
                other.aliases['inc'] = 'Y'
        elif kind == 'linker':
            Model = type(obj.submodels['A'])
            other = obj.__class__({'A': Model(list(range(5)), G=1.0, a=0.5), 'B': Model(list(range(5)), G=2.0, a=0.25)})
        else:
            other, _ = self.make(kind)
        return obj, other

    def check_one(self, case, mname, res):
        out = []
        kind, route = case['kind'], case['route']
        res.nontrivial.add((repr(case), mname))
        with warnings.catch_warnings():
            warnings.simplefilter('ignore')
            obj, other = self.build_pair(case, res)
            jcase = dict(case, mutation=mname)
            if other.__dict__.pop('__shared_with_earlier_copy__', False):
                out.append(Violation('a copy shares no mutable state with the original or with any other copy (copies taken one after the other are separate)',
                                     'c11.shared-with-earlier-copy', jcase, 'separate', 'shared'))
                return out
            if route != 'sibling':
                if type(other) is not type(obj):
                    out.append(Violation('a copy is an object of the same class', 'c11.class', jcase, type(obj).__name__, type(other).__name__))
                if self.observe(other) != self.observe(obj):
                    out.append(Violation('a copy is observationally equal to the original', 'c11.not-equal', jcase, 'equal', 'different'))
            keys = ('ENDOGENOUS', 'EXOGENOUS', 'NAMES', 'CHECK', 'ALIASES', 'PREFERRED_NAMES', 'TRACE_VARIABLES')
            classes = [c_ for c_ in type(obj).__mro__ if c_ is not object]

            def class_state():
                return repr([{k: copy.deepcopy(c_.__dict__[k]) for k in keys if k in c_.__dict__} for c_ in classes])
            saved = [{k: copy.deepcopy(c_.__dict__[k]) for k in keys if k in c_.__dict__} for c_ in classes]
            mut = dict(self.mutations(kind))[mname]
            a, b = (obj, other) if case['side'] == 'original' else (other, obj)
            before_b = self.observe(b)
            before_cls = class_state()
            try:
                mut(a)
            except Exception:  # noqa: BLE001
                return out
            try:
                if self.observe(b) != before_b:
                    out.append(Violation('no later mutation of either side is visible on the other', f'c11.shared:{mname}:{"sibling" if route == "sibling" else "copy"}',
                                         jcase, 'unchanged', 'changed', 'independence'))
                if class_state() != before_cls:
                    out.append(Violation('instances never mutate the class', f'c11.class-mutated:{mname}', jcase, 'unchanged', 'changed', 'own'))
            finally:
                for c_, sv in zip(classes, saved):       # keep cases independent even when the class was mutated
                    for k, v in sv.items():
                        cur = c_.__dict__[k]
                        if isinstance(cur, list):
                            cur[:] = v
                        elif isinstance(cur, dict):
                            cur.clear()
                            cur.update(v)
        return out


class Reindex(BoundedCheck):
    """C12: reindex on containers and models."""
    name = 'c12.reindex'
    props = ('C12',)
    bound_quick = 'old span of length 4 x new spans (identity, shifted, disjoint, permuted, shrunk, extended both ends, repeated labels) for range / list-str / np-int / pd-index / pd-period spans; float, int, bool, str variables; fill_value x per-variable fills x strict; containers and partly solved models; pandas mixin with default arguments'
    bound_thorough = 'old spans of length 1..5, all new spans of length <= 5 over a label pool of 7'
    required_covers = ('overlap', 'new-period', 'repeated-label', 'repeated-old-label', 'model-defaults', 'strict-unknown', 'falsy-fill')

    def cases(self, tier, seed):
        pool = {'range': lambda xs: [2000 + i for i in xs], 'list-str': lambda xs: [f'p{i}' for i in xs]}
        news = [[0, 1, 2, 3], [1, 2, 3, 4], [5, 6], [3, 1, 0, 2], [1, 2], [-1, 0, 1, 2, 3, 4], [3, 1, 1, 7, 3], []]
        fills = [dict(), dict(fill_value=9), dict(A=7.5), dict(fill_value=0, I=4), dict(fill_value=2, B=False, S='zz'), dict(iterations=0, status=''),
                 dict(nosuch=1), dict(fill_value=0.0, A=0.0), dict(size=1), dict(copy=0, A=1.0), dict(note=2),
                 # a per-variable keyword given as None asks for that variable's dtype default, whatever fill_value says
                 dict(fill_value=7, A=None, I=None), dict(fill_value=1, B=None, S=None, F32=None)]
        for sp in pool:
            for new in news:
                for fl in fills:
                    for strict in (None, True, False):
                        for target in ('container', 'model'):
                            yield {'span': sp, 'new': new, 'fills': fl, 'strict': strict, 'target': target}
        if tier == 'thorough':
            rnd = random.Random(seed)
            for _ in range(5000):
                yield {'span': rnd.choice(list(pool)), 'new': [rnd.randint(-1, 5) for _ in range(rnd.randint(0, 5))], 'fills': rnd.choice(fills),
                       'strict': rnd.choice([None, True, False]), 'target': rnd.choice(['container', 'model'])}
        # a label repeated in the OLD span: it addresses its first occurrence, exactly as obj[name, label] does
        for sp in pool:
            for old_ in ([0, 1, 1, 3], [2, 0, 2, 1], [4, 4, 4, 4]):
                for new in ([0, 1, 2, 3], [1, 2], [3, 1, 1, 7, 3], [4, 2]):
                    for fl in fills[:2]:
                        for target in ('container', 'model'):
                            yield {'span': sp, 'old': old_, 'new': new, 'fills': fl, 'strict': None, 'target': target}
        # the new span may be any of the supported span types: it becomes the result's span as it is
        for kind in ('numpy', 'pandas', 'tuple', 'range-object'):
            for new in ([0, 1, 2, 3], [1, 2, 3, 4], [2, 5]):
                for target in ('container', 'model'):
                    yield {'span': 'range', 'new': new, 'new_kind': kind, 'fills': {}, 'strict': None, 'target': target}
        yield {'span': 'range', 'new': [1, 2, 3, 4], 'fills': {}, 'strict': None, 'target': 'pandas-mixin'}
        yield {'span': 'range', 'new': [1, 2, 3, 4], 'fills': {'K': 7, 'Y': 2.5}, 'strict': None, 'target': 'pandas-mixin', 'per_variable': True}
        for st_obj in (True, False):
            for st_arg in (None, True, False):
                yield {'span': 'range', 'new': [1, 2, 3, 4], 'fills': {'nosuch': 1}, 'strict': st_arg, 'target': 'pandas-mixin', 'object_strict': st_obj}

    def check(self, case, res: BoundedResult):
        import fsic
        out = []
        res.nontrivial.add(repr(case))
        mk = {'range': lambda xs: [2000 + i for i in xs], 'list-str': lambda xs: [f'p{i}' for i in xs]}[case['span']]
        old = mk(case.get('old', [0, 1, 2, 3]))
        new = mk(case['new'])
        new_obj = new
        if case.get('new_kind') == 'numpy':
            new_obj = np.array(new)
        elif case.get('new_kind') == 'pandas':
            import pandas as pd
            new_obj = pd.Index(new)
        elif case.get('new_kind') == 'tuple':
            new_obj = tuple(new)
        elif case.get('new_kind') == 'range-object' and new == list(range(new[0], new[0] + len(new))):
            new_obj = range(new[0], new[0] + len(new))
        if case['target'] == 'pandas-mixin':
            from fsic.extensions.model import PandasIndexFeaturesMixin

            class PM(PandasIndexFeaturesMixin, fsic.BaseModel):
                ENDOGENOUS = ['Y']
                NAMES = ENDOGENOUS
            m = PM(old)
            m.add_variable('K', 3, dtype=int)
            if 'object_strict' in case:
                m.strict = case['object_strict']
                eff = m.strict if case['strict'] is None else case['strict']
                try:
                    m.reindex(new, strict=case['strict'], **case['fills'])
                    raised = False
                except KeyError:
                    raised = True
                if raised != bool(eff):
                    out.append(Violation('unknown variables in the fill keywords are rejected only under strict (pandas extension)', 'c12.pandas-mixin-strict', case,
                                         'KeyError' if eff else 'accepted', 'KeyError' if raised else 'accepted'))
                return out
            if case.get('per_variable'):
                r = m.reindex(new, **case['fills'])
                if r.K.tolist() != [3, 3, 3, 7] or r.Y.tolist()[-1] != 2.5:
                    out.append(Violation('each new period holds the per-variable keyword if given (pandas-based reindex)', 'c12.pandas-mixin-per-variable-fill', case,
                                         [[3, 3, 3, 7], 2.5], [r.K.tolist(), r.Y.tolist()[-1]], 'fill'))
                return out
            r = m.reindex(new)
            if r.K.tolist() != [3, 3, 3, 0]:
                out.append(Violation('pandas-based reindex with default arguments fills new periods with the dtype default', 'c12.pandas-mixin-int-fill', case,
                                     [3, 3, 3, 0], r.K.tolist(), 'dtype_default_fill'))
            return out
        if case['target'] == 'container':
            c = fsic.core.VectorContainer(old)
            c.add_variable('A', [1.5, 2.5, 3.5, 4.5])
        else:
            class M(fsic.BaseModel):
                ENDOGENOUS = ['A']
                NAMES = ENDOGENOUS

                def _evaluate(self, t, **kw):
                    pass
            c = M(old, A=[1.5, 2.5, 3.5, 4.5])
            c.solve(end=old[1])
            c.lags = 2
        c.add_variable('I', [1, 2, 3, 4], dtype=int)
        c.add_variable('B', [True, False, True, False], dtype=bool)
        c.add_variable('S', ['aa', 'bb', 'cc', 'dd'], dtype='<U2')
        # narrower and unsigned integer types and a narrower float: "all dtypes" is not only the platform defaults
        import numpy as _np
        c.add_variable('I16', [1, 2, 3, 4], dtype=_np.int16)
        c.add_variable('U8', [1, 2, 3, 4], dtype=_np.uint8)
        c.add_variable('F32', [0.5, 1.5, 2.5, 3.5], dtype=_np.float32)
        c.add_attribute('note', 'n')
        before = {k: c[k].copy() for k in c.index}
        fills = dict(case['fills'])
        fv = fills.pop('fill_value', None)
        strict = case['strict']
        eff_strict = c.strict if strict is None else strict
        unknown = [k for k in fills if k not in c.index]
        try:
            r = c.reindex(new_obj, fill_value=fv, strict=strict, **fills)
            raised = None
        except Exception as ex:  # noqa: BLE001
            raised = ex
            r = None
        if unknown and eff_strict:
            res.cover('strict-unknown')
            if not isinstance(raised, KeyError):
                out.append(Violation('unknown variables in the fill keywords are rejected under strict', 'c12.strict-unknown-accepted', case, 'KeyError', repr(raised)))
            return out
        if raised is not None:
            out.append(Violation('reindex returns a new object', f'c12.raises:{type(raised).__name__}', case, 'object', repr(raised)[:80]))
            return out
        if case.get('new_kind') and (type(r.span) is not type(new_obj)):
            out.append(Violation('the span of the result is the new span (of whatever supported span type it is)', f"c12.span-type:{case['new_kind']}", case, type(new_obj).__name__, type(r.span).__name__))
        if type(r) is not type(c) or list(r.span) != list(new) or list(r.index) != list(c.index):
            out.append(Violation('result is a new object of the same class with the new span and the same variable order', 'c12.shape', case,
                                 [type(c).__name__, list(new), list(c.index)], [type(r).__name__, list(r.span), list(r.index)], 'reindexed'))
            return out
        defaults = {'f': float('nan'), 'i': 0, 'u': 0, 'b': False, 'U': ''}
        if len(new) != len(set(map(repr, new))):
            res.cover('repeated-label')
        for k in c.index:
            kind = c[k].dtype.kind
            if r[k].dtype != c[k].dtype:
                out.append(Violation('dtypes carry over', 'c12.dtype', dict(case, var=k), str(c[k].dtype), str(r[k].dtype), 'dtype'))
                continue
            if k in fills:
                fill = fills[k] if fills[k] is not None else defaults[kind]
            elif case['target'] == 'model' and k == 'status':
                fill = '-'              # model bookkeeping: its own defaults unless a per-variable keyword is given
            elif case['target'] == 'model' and k == 'iterations':
                fill = -1
            elif fv is not None:
                fill = fv
            else:
                fill = defaults[kind]
            if case['target'] == 'model' and k in ('status', 'iterations'):
                res.cover('model-defaults')
            if k in fills and not fills[k] and fills[k] is not None:
                res.cover('falsy-fill')
            for i, lab in enumerate(new):
                if lab in old:
                    res.cover('overlap')
                    want = c[k][old.index(lab)]
                    if old.count(lab) > 1:
                        res.cover('repeated-old-label')
                        if c[k, lab] != want:       # the oracle's reading of "its old value" is the one label access gives
                            want = c[k, lab]
                else:
                    res.cover('new-period')
                    want = {'f': float, 'i': int, 'u': int, 'b': bool, 'U': str}[kind](fill)
                    if kind == 'U':
                        want = want[:c[k].dtype.itemsize // 4]
                got = r[k][i]
                ok = (got == want) or (kind == 'f' and math.isnan(float(got)) and math.isnan(float(want)))
                if not ok:
                    clause = 'each period present in both spans holds its old value' if lab in old else \
                        'each new period holds the per-variable keyword if given, else fill_value, else the dtype default (status - / iterations -1 for models)'
                    out.append(Violation(clause, 'c12.value:' + ('overlap' if lab in old else 'fill'), dict(case, var=k, position=i), repr(want), repr(got), 'reindex_value'))
                    break
        for k in before:
            if not same(c[k], before[k]):
                out.append(Violation('the original object is unchanged', 'c12.original-changed', dict(case, var=k), before[k].tolist(), c[k].tolist(), 'original'))
        if r.strict != c.strict:
            out.append(Violation('settings carry over (the strict setting of the result is that of the original, whatever strict= was passed for the keyword check)', 'c12.strict-setting', case,
                                 c.strict, r.strict))
        if getattr(r, 'note', None) != 'n' or (case['target'] == 'model' and r.lags != 2):
            out.append(Violation('lag/lead settings and attributes carry over', 'c12.attributes', case, ['n', 2], [getattr(r, 'note', None), getattr(r, 'lags', None)]))
        # shares nothing
        if len(new):
            r['A'][0] = -5.0
            if not same(c['A'], before['A']):
                out.append(Violation('the original shares nothing with the result', 'c12.shared', case, 'independent', 'shared'))
        return out
