"""Bounded run-time contracts for C17 (tracer), C18 (aliases), C19 (tabular export/import) on the real classes."""
from __future__ import annotations

import copy
import itertools
import math
import random
import signal
import warnings

import numpy as np

from props.solve_bounded import ALPHABET, TOL, _val
from verif.bounded import BoundedCheck, BoundedResult, Violation


def eq_arr(a, b):
    a, b = np.asarray(a), np.asarray(b)
    if a.shape != b.shape:
        return False
    if a.dtype.kind == 'f' or b.dtype.kind == 'f':
        try:
            a, b = a.astype(float), b.astype(float)
        except (TypeError, ValueError):
            return False
        return bool(np.all((a == b) | (np.isnan(a) & np.isnan(b))))
    return bool(np.all(a == b))


# ---------------------------------------------------------------------------------------------------------------
# C17
# ---------------------------------------------------------------------------------------------------------------
def traced_classes():
    import fsic
    from fsic.extensions.model import TracerMixin

    class Base(fsic.BaseModel):
        ENDOGENOUS = ['X', 'Y']
        EXOGENOUS = ['Z']
        NAMES = ENDOGENOUS + EXOGENOUS
        CHECK = ['X', 'Y']
        script = ()

        def _evaluate(self, t, *, errors='raise', catch_first_error=True, iteration=None, **kwargs):
            act = self.script[min(iteration, len(self.script)) - 1]
            if act == 'exc':
                raise ZeroDivisionError('scripted')
            if act == 'warn':
                self._X[t] = np.log(np.float64(0.0))
            else:
                self._X[t] = _val(act)
            self._Y[t] = self._Y[t] * 0.5 + 1.0

    class Traced(TracerMixin, Base):
        pass
    return Base, Traced


class TracerTwin(BoundedCheck):
    name = 'c17.tracer-twin'
    props = ('C17',)
    bound_quick = ('scripted models: all outcome scripts of length <= 2 over the C02/C06 alphabet x errors x failures x trace in {True, [names], name} x entry '
                   'in {solve, solve_period, solve_t}; repeated solves; plus 400 random cases with max_iter <= 5; parser-built model')
    bound_thorough = 'scripts of length <= 3; 6000 random cases'
    required_covers = ('solved', 'unsolved', 'raised', 'repeat', 'trace-off')

    def cases(self, tier, seed):
        L = 3 if tier == 'thorough' else 2
        for ma in range(1, L + 1):
            for script in itertools.product(ALPHABET, repeat=ma):
                for errors in ('raise', 'skip', 'ignore', 'replace'):
                    for failures in ('raise', 'ignore'):
                        for trace in (True, ['Y', 'X'], 'X', 'Long', ('Y', 'Long')):
                            yield dict(script=list(script), max_iter=ma, min_iter=0, errors=errors, failures=failures, trace=trace, entry='solve_t', cfe=True, repeat=False)
        rnd = random.Random(seed + 3)
        for _ in range(6000 if tier == 'thorough' else 400):
            ma = rnd.randint(1, 5)
            yield dict(script=[rnd.choice(ALPHABET) for _ in range(ma)], max_iter=ma, min_iter=rnd.randint(0, ma), errors=rnd.choice(['raise', 'skip', 'ignore', 'replace']),
                       failures=rnd.choice(['raise', 'ignore']), trace=rnd.choice([True, ['Y'], 'X', ['X', 'Y', 'Z'], 'Long', ('Long', 'X'), ('Y',)]), entry=rnd.choice(['solve', 'solve_period', 'solve_t']),
                       cfe=rnd.random() < 0.5, repeat=rnd.random() < 0.4)

    def run_one(self, cls, case, trace):
        m = cls(list(range(2000, 2005)), X=0.0, Y=0.0, Z=3.0)
        m.add_variable('Long', 5.0)        # a variable with a multi-character name (a single name given as a string is one name)
        m.script = tuple(case['script'])
        kw = dict(min_iter=case['min_iter'], max_iter=case['max_iter'], tol=TOL, failures=case['failures'], errors=case['errors'], catch_first_error=case['cfe'])
        if trace is not None:
            kw['trace'] = trace
        outs = []
        for rep in range(2 if case['repeat'] else 1):
            try:
                with warnings.catch_warnings():
                    warnings.simplefilter('ignore')
                    if case['entry'] == 'solve':
                        r = m.solve(start=2001, end=2002, **kw)
                    elif case['entry'] == 'solve_period':
                        r = m.solve_period(2002, **kw)
                    else:
                        r = m.solve_t(2, **kw)
                outs.append(('ret', repr(r)))
            except Exception as ex:  # noqa: BLE001
                outs.append(('exc', type(ex).__name__, type(ex.__cause__).__name__ if ex.__cause__ else None))
        return m, outs

    def check(self, case, res: BoundedResult):
        Base, Traced = traced_classes()
        out = []
        res.nontrivial.add(repr(case))
        plain, o1 = self.run_one(Base, case, None)
        traced, o2 = self.run_one(Traced, case, case['trace'])
        off, o3 = self.run_one(Traced, case, None)
        if case['repeat']:
            res.cover('repeat')
        res.cover('raised' if o1[-1][0] == 'exc' else ('solved' if '.' in plain.status else 'unsolved'))

        def bad(clause, sig, expected, observed, ob=''):
            out.append(Violation(clause, sig, case, expected, observed, ob))
        for label, other, oo in (('traced', traced, o2), ('trace-off', off, o3)):
            if oo != o1:
                bad('tracing changes neither return values nor raised exceptions', f'c17.outcome:{label}', o1, oo, 'parent_called_with_same_arguments')
            for k in ('X', 'Y', 'Z', 'status', 'iterations'):
                if not eq_arr(other[k], plain[k]):
                    bad('tracing changes nothing observable about the solution', f'c17.state:{label}:{k}', plain[k].tolist(), other[k].tolist(), 'non_interference')
        res.cover('trace-off')
        if any(not tr.is_empty() for tr in off['trace']):
            bad('with tracing off no trace is written', 'c17.trace-written-when-off', 'empty', 'non-empty', 'trace_only_if_requested')
        # a traced solve of one period writes that period's trace only
        if case['entry'] in ('solve_t', 'solve_period'):
            others = [i for i, tr in enumerate(traced['trace']) if i != 2 and not tr.is_empty()]
            if others:
                bad('the trace of a period holds the snapshots of that period only', 'c17.trace-of-another-period-written', [], others, 'snapshot')
        # label sequence and snapshots of the traced run (single solve of period index 2, default reset=False)
        if not case['repeat'] and case['entry'] in ('solve_t', 'solve_period'):
            tr = traced['trace'][2]
            names = [case['trace']] if isinstance(case['trace'], str) else (list(traced.names) if case['trace'] is True else list(case['trace']))
            k = int(traced.iterations[2])
            status = str(traced.status[2])
            if o2[-1][0] == 'exc' and o2[-1][1] in ('ValueError', 'IndexError'):
                return out
            pre_existing = o2[-1][0] == 'exc' and status == '-' and k == -1
            passes = k if status != '-' else None
            idx = list(tr.index)
            if status in ('.', 'F', 'S', 'E'):
                want = ['start', 'before', 0] + list(range(1, k + 1)) + (['end'] if status == '.' else [])
                if status == 'E' and o2[-1][2] is not None:
                    want = ['start', 'before', 0] + list(range(1, k))        # the raising pass stores nothing
                if idx != want:
                    bad('trace of a solved period holds start, before, 0, 1..k, end; an unsolved period stops after its last pass', 'c17.labels', want, idx, 'label_sequence')
                elif 'X' in names and len(idx) == tr.values.shape[1]:
                    # snapshot j holds the traced values after evaluation pass j (the scripted X of pass j); start / before / 0 hold the initial value
                    row = names.index('X')
                    for col, lab in enumerate(idx):
                        if isinstance(lab, int) and lab >= 1:
                            act = case['script'][lab - 1]
                            wantx = float('-inf') if act == 'warn' else {'nan': float('nan'), 'inf': float('inf')}.get(act, act)
                        elif lab == 'end':
                            continue
                        else:
                            wantx = 0.0
                        gotx = float(tr.values[row, col])
                        if isinstance(wantx, str) or not (gotx == wantx or (gotx != gotx and wantx != wantx)):
                            bad('snapshot j holds the traced variables after evaluation pass j', 'c17.snapshot-values', {'label': lab, 'want': wantx}, gotx, 'snapshot')
                            break
                if idx == want and status == '.':
                    final = tr.values[:, -1]
                    stored = np.array([traced[nm][2] for nm in names], dtype=float)
                    if list(tr.names) != names or not eq_arr(final, stored):
                        bad('the final snapshot equals the stored solution', 'c17.final-snapshot', stored.tolist(), final.tolist(), 'final_snapshot')
        # a traced model that is copied and whose copy is solved again with tracing (a scenario run) keeps its own traces: the snapshots
        # of the copy's run belong to the copy
        if not case['repeat'] and case['entry'] in ('solve_t', 'solve_period') and o2[-1][0] == 'ret':
            import copy as _copy
            kw = dict(min_iter=case['min_iter'], max_iter=case['max_iter'], tol=TOL, failures='ignore', errors='ignore', trace=case['trace'])
            mine = [(list(tr.index), np.array(tr.values, dtype=float, copy=True)) for tr in traced['trace']]
            for route, mk in (('copy()', lambda m: m.copy()), ('copy.deepcopy', _copy.deepcopy), ('copy.copy', _copy.copy)):
                dup = mk(traced)
                try:
                    with warnings.catch_warnings():
                        warnings.simplefilter('ignore')
                        dup.solve_t(2, **kw)
                except Exception:  # noqa: BLE001
                    pass
                now = [(list(tr.index), np.array(tr.values, dtype=float, copy=True)) for tr in traced['trace']]
                same = all(a[0] == b[0] and a[1].shape == b[1].shape and eq_arr(a[1], b[1]) for a, b in zip(mine, now))
                if not same:
                    bad('the trace of a solved period holds the snapshots of that solve (a traced solve of a copy writes the copy\'s traces)', f'c17.trace-shared-with-copy:{route}',
                        [x[0] for x in mine][2], [x[0] for x in now][2], 'snapshot')
                    break
        return out


# ---------------------------------------------------------------------------------------------------------------
# C18
# ---------------------------------------------------------------------------------------------------------------
class _Timeout(Exception):
    pass


def _alarm(signum, frame):
    raise _Timeout()


class AliasTwin(BoundedCheck):
    name = 'c18.alias-twin'
    props = ('C18',)
    bound_quick = ('all alias maps with <= 3 aliases over 3 variables (many-to-one, chains up to 3, self-maps, aliases of aliases), PREFERRED_NAMES subsets of size <= 2; '
                   'operations through every name/alias vs a canonical twin: constructor keyword, attribute get/set, item get/set, label and label-slice set, replace_values, evaluation, to_dataframe(use_aliases)')
    bound_thorough = 'alias maps with <= 4 aliases'
    required_covers = ('chain', 'many-to-one', 'self-map', 'preferred', 'constructor-keyword')

    ALIAS_NAMES = ['a1', 'a2', 'a3', 'a4']
    VARS = ['Y', 'C', 'G']

    def cases(self, tier, seed):
        k_max = 4 if tier == 'thorough' else 3
        for k in range(0, k_max + 1):
            names = self.ALIAS_NAMES[:k]
            for targets in itertools.product(self.VARS + self.ALIAS_NAMES[:k], repeat=k):
                amap = dict(zip(names, targets))
                for pref in ([], ['Y'], names[:1], names[:2] if k >= 2 else [], names[:1] + ['Y'], ['Y'] + names[:1], ['C'] + names[1:2]):
                    yield {'aliases': amap, 'preferred': list(pref)}
                if k and targets[0] in self.VARS:
                    # the first alias spelt like a private name (leading underscore): an alias like any other
                    yield {'aliases': {('_' + a if a == names[0] else a): ('_' + t if t == names[0] else t) for a, t in amap.items()}, 'preferred': []}
                if k and len(targets) == len(set(targets)):
                    # the same map with a variable listed under its own name as well (a self-map of a variable)
                    yield {'aliases': dict(amap, Y='Y'), 'preferred': []}
                    yield {'aliases': dict({'C': 'C'}, **amap), 'preferred': names[:1]}

    @staticmethod
    def resolve(amap, name, depth=0):
        seen = set()
        while name in amap and name not in seen:
            seen.add(name)
            if amap[name] == name:
                return name
            name = amap[name]
        return name

    @staticmethod
    def cyclic(amap):
        for a in amap:
            seen = {a}
            x = amap[a]
            while x in amap and amap[x] != x:
                if x in seen:
                    return True
                seen.add(x)
                x = amap[x]
            if x in seen and x != a and x in amap and amap[x] != x:
                return True
        return False

    def check(self, case, res: BoundedResult):
        import fsic
        from fsic.extensions import AliasMixin
        out = []
        amap, pref = case['aliases'], case['preferred']
        res.nontrivial.add(repr(case))

        class Base(fsic.BaseModel):
            ENDOGENOUS = ['Y', 'C']
            EXOGENOUS = ['G']
            NAMES = ENDOGENOUS + EXOGENOUS
            CHECK = ENDOGENOUS

            def _evaluate(self, t, **kw):
                self.Y[t] = self.C[t] + self.G[t]
                self.C[t] = 0.5 * self.Y[t]

        class Aliased(AliasMixin, Base):
            ALIASES = dict(amap)
            PREFERRED_NAMES = list(pref)

            def _evaluate(self, t, **kw):
                # generated-style solution code may use any name
                self.Y[t] = self.C[t] + self.G[t]
                self.C[t] = 0.5 * self.Y[t]
        if any(k == v for k, v in amap.items()):
            res.cover('self-map')
        if any(v in amap for v in amap.values()):
            res.cover('chain')
        if len(set(self.resolve(amap, a) for a in amap)) < len(amap):
            res.cover('many-to-one')
        if pref:
            res.cover('preferred')

        def bad(clause, sig, detail, expected, observed, ob=''):
            out.append(Violation(clause, sig, dict(case, detail=str(detail)), expected, observed, ob))
        span = list(range(2000, 2004))
        signal.signal(signal.SIGVTALRM, _alarm)          # 5 s of this process's processor time (not wall-clock: the machine may be busy)
        signal.setitimer(signal.ITIMER_VIRTUAL, 5.0)
        try:
            try:
                m = Aliased(span, G=2.0)
            except _Timeout:
                bad('a model with aliases (incl. self-maps and aliases of aliases) can be constructed', 'c18.constructor-hangs', amap, 'instance', 'no return within 5 s of processor time', 'variant')
                return out
            except ValueError as ex:
                cyc = self.cyclic({k: v for k, v in amap.items() if k != v})
                targets = [self.resolve({k: v for k, v in amap.items() if k != v}, p) for p in pref]
                if cyc or len(set(targets)) != len(targets):
                    return out           # circular aliases / ambiguous preferences are rejected
                bad('an acyclic alias map is accepted', 'c18.constructor-rejects', amap, 'instance', str(ex)[:60])
                return out
        finally:
            signal.setitimer(signal.ITIMER_VIRTUAL, 0)
        clean = {k: v for k, v in amap.items() if k != v}
        pref_targets = [self.resolve(clean, p) for p in pref]
        ambiguous = len(set(pref_targets)) != len(pref_targets)
        twin = Base(span, G=2.0)
        names = self.VARS + [a for a in amap if a not in self.VARS]
        # constructor keyword through each name
        for nm in names:
            tgt = self.resolve(clean, nm)
            if tgt not in self.VARS:
                continue
            res.cover('constructor-keyword')
            try:
                m2 = Aliased(span, **{nm: 7.0})
            except Exception as ex:  # noqa: BLE001
                bad('a constructor keyword given through an alias sets the underlying variable', f'c18.ctor-raises:{type(ex).__name__}', nm, tgt, str(ex)[:60])
                continue
            if m2[tgt].tolist() != [7.0] * 4:
                bad('a constructor keyword given through an alias sets the underlying variable', 'c18.ctor-keyword', nm, [7.0] * 4, m2[tgt].tolist(), 'constructor_keywords_resolved')
        ops = 0
        for nm in names:
            tgt = self.resolve(clean, nm)
            if tgt not in self.VARS:
                continue
            ops += 1
            v = 10.0 + ops
            steps = [
                ('setattr', lambda o, n_: setattr(o, n_, v)), ('setitem', lambda o, n_: o.__setitem__(n_, v + 1)),
                ('setlabel', lambda o, n_: o.__setitem__((n_, 2001), v + 2)), ('setslice', lambda o, n_: o.__setitem__((n_, slice(2002, 2003)), v + 3)),
                ('replace_values', lambda o, n_: o.replace_values(**{n_: [v, v + 1, v + 2, v + 3]})), ('inplace', lambda o, n_: getattr(o, n_).__setitem__(0, -v)),
            ]
            for sname, fn in steps:
                try:
                    fn(m, nm)
                    fn(twin, tgt)
                except Exception as ex:  # noqa: BLE001
                    bad('an operation through an alias has exactly the effect of the same operation on the underlying variable', f'c18.{sname}-raises:{type(ex).__name__}',
                        nm, tgt, str(ex)[:60], 'forwarded_with_resolved_name')
                    continue
                for var in self.VARS:
                    if not eq_arr(m[var], twin[var]):
                        bad('an operation through an alias has exactly the effect of the same operation on the underlying variable', f'c18.{sname}', (nm, var),
                            twin[var].tolist(), m[var].tolist(), 'forwarded_with_resolved_name')
                if not (eq_arr(getattr(m, nm), twin[tgt]) and eq_arr(m[nm], twin[tgt]) and eq_arr(m[nm, 2001:2002], twin[tgt, 2001:2002])):
                    bad('reads through an alias return the underlying variable', 'c18.read', nm, twin[tgt].tolist(), m[nm].tolist(), 'forwarded_with_resolved_name')
        extra = [k for k in m.__dict__ if k.startswith('_') and k[1:] in amap and k[1:] not in self.VARS]
        if extra or list(m.index) != list(twin.index):
            bad('aliases create no additional storage', 'c18.extra-storage', amap, list(twin.index), list(m.index) + extra, 'no_extra_storage')
        m.solve_t(1)
        twin.solve_t(1)
        for var in self.VARS:
            if not eq_arr(m[var], twin[var]):
                bad('generated solution code sees the same data', 'c18.solve', var, twin[var].tolist(), m[var].tolist())
        # export
        df0 = twin.to_dataframe()
        try:
            df = m.to_dataframe(use_aliases=True)
        except ValueError:
            groups = {}
            for a in clean:
                groups.setdefault(self.resolve(clean, a), []).append(a)
            amb = any(len(set(g + [t]) & set(pref)) > 1 for t, g in groups.items())
            if not amb:
                bad('export with use_aliases only renames columns', 'c18.export-rejects', amap, 'renamed table', 'ValueError')
            return out
        if ambiguous:
            bad('ambiguous preferences (two preferred names for one variable) are rejected', 'c18.ambiguous-preference-accepted', (amap, pref), 'ValueError', 'accepted', 'ambiguous_preferences_rejected')
            return out
        if df.shape != df0.shape or not all(eq_arr(df.iloc[:, i].values, df0.iloc[:, i].values) for i in range(df0.shape[1])):
            bad('exporting with use_aliases changes, drops or duplicates no data column', 'c18.export-data', amap, list(df0.columns), list(df.columns), 'rename_only')
        else:
            for i, col in enumerate(df0.columns):
                new = df.columns[i]
                cands = [a for a in clean if self.resolve(clean, a) == col and col in self.VARS]
                allowed = set(cands + [col])
                pref_here = [p for p in pref if p in allowed]
                if new not in allowed:
                    bad('use_aliases only renames a column to one of its own aliases', 'c18.export-name', (col, new), sorted(allowed), new, 'rename_only')
                elif len(pref_here) == 1 and new != pref_here[0]:
                    bad('the preferred name is chosen where one is declared', 'c18.export-preferred', (col, new), pref_here[0], new, 'preferred_name')
        # the export options keep their meaning under use_aliases: same data columns as the canonical twin's export with the same options
        m.add_variable('_hidden', 7.0)
        twin.add_variable('_hidden', 7.0)
        for flags in (dict(status=False), dict(iterations=False), dict(include_internal=True), dict(status=False, iterations=False, include_internal=True)):
            try:
                d0, d1 = twin.to_dataframe(**flags), m.to_dataframe(use_aliases=True, **flags)
            except ValueError:
                break
            if d1.shape != d0.shape or not all(eq_arr(d1.iloc[:, i].values, d0.iloc[:, i].values) for i in range(d0.shape[1])):
                bad('exporting with use_aliases changes, drops or duplicates no data column (whatever the other export options)', 'c18.export-options', (amap, sorted(flags)),
                    list(d0.columns), list(d1.columns), 'rename_only')
                break
        return out


# ---------------------------------------------------------------------------------------------------------------
# C19
# ---------------------------------------------------------------------------------------------------------------
class TabularRoundTrip(BoundedCheck):
    name = 'c19.round-trip'
    props = ('C19',)
    bound_quick = ('models with float/int/bool/str and underscore-prefixed variables (in several positions), solved and unsolved, over 8 span types; all flag '
                   'combinations (status, iterations, include_internal); linkers with 0-2 submodels; from_dataframe; symbol lists of the catalogue + 150 random programs')
    bound_thorough = '1500 random programs; spans of length 1..6'
    required_covers = ('model', 'linker', 'from_dataframe', 'symbols', 'internal-in-the-middle')

    def cases(self, tier, seed):
        from props.containers_bounded import span_catalogue
        for sname in list(span_catalogue(4)) + ['unsorted-int', 'unsorted-str']:
            if sname in ('list-mixed',):
                continue
            for flags in itertools.product((True, False), repeat=3):
                for layout in (0, 1, 2):
                    yield {'kind': 'model', 'span': sname, 'flags': list(flags), 'layout': layout}
        for k in (0, 1, 2):
            for flags in itertools.product((True, False), repeat=3):
                yield {'kind': 'linker', 'k': k, 'flags': list(flags)}
        from props.parser_bounded import programs
        from verif import grammar as G
        for name, p in programs(tier, seed, 1500 if tier == 'thorough' else 150, with_verbatim=True):
            yield {'kind': 'symbols', 'script': G.render_script(p)}
        yield {'kind': 'symbols', 'script': '```\nself.Q = 1\n```\nY = exp(X) + max(Z, 2)\n`self.R = 2`'}
        # text fields are carried as they are (blanks at either end included)
        yield {'kind': 'symbols', 'script': 'Y = X + 1   \nZ = Y\t\n```\n  self.Q = 1  \n```'}

    def check(self, case, res: BoundedResult):
        import fsic
        import fsic.tools
        import pandas as pd
        from props.containers_bounded import span_catalogue
        out = []
        res.nontrivial.add(repr(case))

        def bad(clause, sig, expected, observed, ob=''):
            out.append(Violation(clause, sig, case, expected, observed, ob))

        class M(fsic.BaseModel):
            ENDOGENOUS = ['Y']
            EXOGENOUS = ['X']
            NAMES = ENDOGENOUS + EXOGENOUS
            CHECK = ENDOGENOUS

            def _evaluate(self, t, **kw):
                self._Y[t] = self._X[t] + 1

        def build(span, layout):
            m = M(span, X=[float(i) for i in range(len(span))])
            order = [('K', 3, int), ('_hid', 1.5, float), ('B', True, bool), ('S', 'ab', '<U2'), ('_last', 2, int)]
            if layout == 1:
                order = order[1:] + order[:1]
                res.cover('internal-in-the-middle')
            if layout == 2:
                order = [order[1], order[0], order[4], order[2], order[3]]
                res.cover('internal-in-the-middle')
            for nm, v, dt in order:
                m.add_variable(nm, v, dtype=dt)
            m.solve(end=span[1])
            return m

        def check_table(m, df, st, it, internal, tag):
            names = [n_ for n_ in m.names if internal or not n_.startswith('_')]
            want_cols = names + (['status'] if st else []) + (['iterations'] if it else [])
            if list(df.columns) != want_cols:
                bad('one column per variable in model order, plus status / iterations when requested, underscore-prefixed only when requested',
                    f'c19.columns:{tag}', want_cols, list(df.columns), 'columns_in_model_order')
                return
            if len(df.index) != len(m.span) or any(a != b for a, b in zip(list(df.index), list(m.span))):
                bad('one row per period indexed by the span', f'c19.index:{tag}', list(m.span)[:3], list(df.index)[:3], 'index_is_span')
            for c in want_cols:
                src = m[c] if c in m.index else getattr(m, c)
                if not eq_arr(df[c].values, src):
                    bad('each column holds exactly that series\' values', f'c19.values:{tag}', src.tolist(), df[c].values.tolist(), 'values')
                elif src.dtype.kind in 'fib' and df[c].values.dtype.kind != src.dtype.kind:
                    bad('numeric and boolean dtypes are preserved', f'c19.dtype:{tag}', str(src.dtype), str(df[c].values.dtype), 'dtype')
        if case['kind'] == 'model':
            res.cover('model')
            extra_spans = {'unsorted-int': [2003, 2001, 2004, 2002], 'unsorted-str': ['scenario-b', 'baseline', 'scenario-a', 'zeta']}
            span = extra_spans[case['span']] if case['span'] in extra_spans else span_catalogue(4)[case['span']]
            m = build(span, case['layout'])
            st, it, internal = case['flags']
            names_before, index_before = list(m.names), list(m.index)
            m.to_dataframe(status=True, iterations=True, include_internal=True)
            df = m.to_dataframe(status=st, iterations=it, include_internal=internal)
            if list(m.names) != names_before or list(m.index) != index_before:
                bad('exporting does not alter the model', 'c19.export-mutates-model', names_before, list(m.names), 'export_does_not_alter_the_model')
            check_table(m, df, st, it, internal, 'model')
            df2 = fsic.tools.model_to_dataframe(m, status=st, iterations=it, include_internal=internal)
            if not df.equals(df2):
                bad('to_dataframe and model_to_dataframe agree', 'c19.method-vs-function', 'equal', 'different')
            # the table is a snapshot: later changes of the model do not reach it (and the round trip reproduces the exported values)
            snap = fsic.tools.model_to_dataframe(m, status=st, iterations=it, include_internal=internal)
            frozen = snap.copy(deep=True)
            values_before = {c: m[c].copy() for c in m.index}
            for c in m.index:
                if m[c].dtype.kind == 'f':
                    m[c][:] = m[c] + 1.0
                elif m[c].dtype.kind == 'i':
                    m[c][:] = m[c] + 1
            if not snap.equals(frozen):
                bad('each column holds exactly the series values at the time of the export (the table does not follow later changes of the model)',
                    'c19.table-follows-model', 'unchanged table', 'table changed with the model', 'values')
            for c in m.index:
                m[c][:] = values_before[c]
            # from_dataframe round trip on the data columns
            res.cover('from_dataframe')
            # (a value that is missing in the model - NaN - is a value like any other: it comes back as NaN)
            keep_x = m['X'].copy()
            m['X'][0] = float('nan')
            data = m.to_dataframe(status=False, iterations=False)
            data = data[[c for c in data.columns if c in ('Y', 'X')]]
            m3 = M.from_dataframe(data)
            if len(m3.span) != len(m.span) or any(a != b for a, b in zip(list(m3.span), list(m.span))):
                bad('from_dataframe reproduces the span', f'c19.from_dataframe-span:{case["span"]}', list(m.span)[:3], list(m3.span)[:3], 'span')
            for c in ('Y', 'X'):
                if not eq_arr(m3[c], m[c]):
                    bad('from_dataframe reproduces every value', 'c19.from_dataframe-values', m[c].tolist(), m3[c].tolist(), 'values')
            m['X'][:] = keep_x
            return out
        if case['kind'] == 'linker':
            res.cover('linker')
            span = list(range(4))
            subs = {f's{i}': build(span, i) for i in range(case['k'])}
            lk = fsic.BaseLinker(subs, name='top')
            st, it, internal = case['flags']
            tables = lk.to_dataframes(status=st, iterations=it, include_internal=internal)
            if list(tables.keys()) != ['top'] + list(subs.keys()):
                bad('linker export returns one table per submodel and one for the linker', 'c19.linker-keys', ['top'] + list(subs), list(tables.keys()), 'one_table_each')
                return out
            for k, sm in subs.items():
                check_table(sm, tables[k], st, it, internal, 'linker-submodel')
            check_table(lk, tables['top'], st, it, internal, 'linker')
            return out
        res.cover('symbols')
        try:
            symbols = fsic.parse_model(case['script'])
        except Exception:  # noqa: BLE001
            return out
        back = fsic.tools.dataframe_to_symbols(fsic.tools.symbols_to_dataframe(symbols))
        if len(back) != len(symbols):
            bad('symbols_to_dataframe followed by dataframe_to_symbols returns the original symbol list', 'c19.symbols-length', len(symbols), len(back))
            return out
        for a, b in zip(symbols, back):
            for f in a._fields:
                x, y = getattr(a, f), getattr(b, f)
                if x is None and isinstance(y, float) and math.isnan(y):
                    bad('symbol round trip returns the original symbol list (None fields stay None)', f'c19.symbols-none-becomes-nan:{f}', None, 'nan', 'inverse')
                    return out
                if x != y:
                    bad('symbol round trip returns the original symbol list', f'c19.symbols-field:{f}', repr(x), repr(y), 'inverse')
                    return out
        return out
