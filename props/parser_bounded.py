"""Bounded run-time contracts on the real parser / builder (C01, C03, C14, C15, C20): programs of the C01 grammar
(derivation trees = oracle) rendered under layouts, run through the REAL parse_model / build_model, compared with the
reference meaning of the tree.  Stand-in for the regex tokenisation that the deductive layer cannot reach.
"""
from __future__ import annotations

import ast
import itertools
import math
import random
import re
import warnings

import numpy as np

from verif import grammar as G
from verif.bounded import BoundedCheck, BoundedResult, Violation


def programs(tier: str, seed: int, n_random: int, *, max_eq: int = 4, with_verbatim: bool = False):
    out = [(f'small{i:02d}', p) for i, p in enumerate(G.small_programs())]
    rnd = random.Random(4242 + seed)
    for i in range(n_random):
        g = G.Gen(rnd, max_depth=rnd.choice([1, 2, 3]))
        p = g.program(rnd.randint(1, max_eq))
        if with_verbatim and rnd.random() < 0.25:
            frag = rnd.choice(["len('a  b')", "max( 1,  2 )", "( 1 +  2 )", "float('1.5')", "abs( -3 )", "len( 'x ( y )' )"])
            k = rnd.randrange(len(p))
            # the fragment stands after or before the other terms of the equation
            p[k] = G.Eq(p[k].lhs, G.Bin('+', p[k].rhs, G.Verb(frag)) if rnd.random() < 0.5 else G.Bin('+', G.Verb(frag), p[k].rhs))
        out.append((f'rand{i:04d}', p))
    return out


def _close(a, b):
    if isinstance(a, complex) or isinstance(b, complex):
        return True
    a, b = float(a), float(b)
    return a == b or (math.isnan(a) and math.isnan(b))


def random_data(rnd, names, n):
    return {nm: np.array([rnd.choice([0.5, 1.0, 1.5, 2.0, 2.5, 3.0]) + rnd.random() for _ in range(n)]) for nm in names}


def build(script, **kw):
    import fsic
    symbols = fsic.parse_model(script)
    return symbols, fsic.build_model(symbols, **kw)


class EvaluateDifferential(BoundedCheck):
    """C01: one evaluation pass of the built class == Gauss-Seidel pass over the tree, on random data, every feasible t."""
    name = 'c01.evaluate-differential'
    props = ('C01', 'C04', 'C20')
    concretises = ('<generated>.Model._evaluate',)
    bound_quick = 'catalogue + 250 seeded random programs (1-4 equations, depth <= 3, verbatim fragments), 2 layouts each, 2 random data sets (one of floats as arrays, one of whole numbers as Python lists), every feasible t'
    bound_thorough = 'catalogue + 4000 seeded random programs, 3 layouts each'
    required_covers = ('lag', 'lead', 'param', 'error', 'call', 'cond', 'verbatim', 'multi-equation')

    def cases(self, tier, seed):
        n = 4000 if tier == 'thorough' else 250
        rnd = random.Random(99 + seed)
        for name, p in programs(tier, seed, n, with_verbatim=True):
            if not p:
                continue
            for li in range(3 if tier == 'thorough' else 2):
                lay = G.PLAIN if li == 0 else G.Layout.random(rnd)
                yield {'script': G.render_script(p, lay), 'seed': rnd.randrange(10 ** 6)}

    def check(self, case, res: BoundedResult):
        script = case['script']
        p = G.parse_script(script)
        out = []
        jcase = {'script': script, 'seed': case['seed']}
        ref = G.classify(p)
        try:
            symbols, Model = build(script)
        except Exception as ex:  # noqa: BLE001
            out.append(Violation('a script of the documented grammar is accepted', f'c01.rejected:{type(ex).__name__}', jcase, 'accepted',
                                 f'{type(ex).__name__}: {str(ex)[:120]}', 'accepted'))
            return out
        ts = [v for q in p for v in [q.lhs] + G.terms(q.rhs)]
        if any(v.k < 0 for v in ts):
            res.cover('lag')
        if any(v.k > 0 for v in ts):
            res.cover('lead')
        if any(v.kind == 'param' for v in ts):
            res.cover('param')
        if any(v.kind == 'err' for v in ts):
            res.cover('error')
        if any(G.funcs(q.rhs) for q in p):
            res.cover('call')
        if 'if' in script:
            res.cover('cond')
        if '`' in script:
            res.cover('verbatim')
        if len(p) > 1:
            res.cover('multi-equation')
        res.nontrivial.add(script)
        lags, leads = ref['lags'], ref['leads']
        n = lags + leads + 3
        rnd = random.Random(case['seed'])
        for round_ in range(2):
            data = random_data(rnd, ref['names'], n)
            if round_ == 1:
                # second data set: whole numbers handed to the constructor as plain Python lists (the model's dtype still applies)
                data = {nm: np.array([float(rnd.randint(1, 4)) for _ in range(n)]) for nm in ref['names']}
            with warnings.catch_warnings():
                warnings.simplefilter('ignore')
                with np.errstate(all='ignore'):
                    for t in range(lags, n - leads):
                        try:
                            if round_ == 1:
                                m = Model(range(n), **{k: [int(x) for x in v] for k, v in data.items()})
                            else:
                                m = Model(range(n), **{k: v.copy() for k, v in data.items()})
                        except Exception as ex:  # noqa: BLE001
                            out.append(Violation('built class can be instantiated with the script\'s variables', 'c01.instantiate', jcase, 'instance',
                                                 f'{type(ex).__name__}: {ex}', 'instantiate'))
                            return out
                        try:
                            m._evaluate(t)
                        except Exception as ex:  # noqa: BLE001
                            want_exc = None
                            try:
                                G.reference_pass(p, data, t)
                            except Exception as ex2:  # noqa: BLE001
                                want_exc = type(ex2).__name__
                            if want_exc != type(ex).__name__:
                                sig = f'c01.evaluate-raises:{type(ex).__name__}' + (':private-name-mangling' if "_Model__" in str(ex) else '')
                                out.append(Violation('an evaluation pass computes the right-hand sides', sig, jcase,
                                                     want_exc or 'values', f'{type(ex).__name__}: {str(ex)[:100]}', 'assigns_its_right_hand_side'))
                                return out
                            continue
                        try:
                            want = G.reference_pass(p, data, t)
                        except Exception:  # noqa: BLE001
                            continue
                        for nm in ref['names']:
                            got = m[nm]
                            for i in range(n):
                                if not _close(got[i], want[nm][i]):
                                    out.append(Violation('each left-hand side is assigned the value of its right-hand side, reading every variable at the '
                                                         'written lag/lead; nothing else is written', 'c01.value', dict(jcase, t=t, cell=[nm, i]),
                                                         float(want[nm][i]), float(got[i]), 'assigns_its_right_hand_side'))
                                    return out
        return out


class Classification(BoundedCheck):
    """C03: classification, order, LAGS/LEADS, options lattice, default range, rejection of conflicting scripts."""
    name = 'c03.classification'
    props = ('C03',)
    bound_quick = 'catalogue + 250 random programs x layouts; conflicting scripts (variable/parameter, variable/error, two definitions); lags/leads/min_lags/min_leads in {None,0,1,2,3}^4 on 6 programs'
    bound_thorough = '3000 random programs; option lattice on 30 programs'
    required_covers = ('accepted', 'conflict:kinds', 'conflict:two-definitions', 'options', 'range')

    def cases(self, tier, seed):
        rnd = random.Random(7 + seed)
        progs = programs(tier, seed, 3000 if tier == 'thorough' else 250)
        for name, p in progs:
            yield {'kind': 'classify', 'script': G.render_script(p, G.Layout.random(rnd) if rnd.random() < 0.5 else G.PLAIN)}
        V_ = lambda n, k=0: G.Var('var', n, k)   # noqa: E731
        conflicts = [
            ('kinds', [G.Eq(V_('Y'), G.Bin('+', V_('a'), G.Var('param', 'a')))]),
            ('kinds', [G.Eq(V_('Y'), V_('X')), G.Eq(V_('Z'), G.Var('err', 'X', -1))]),
            ('kinds', [G.Eq(V_('Y'), G.Var('param', 'b')), G.Eq(V_('b'), V_('X'))]),
            ('kinds', [G.Eq(V_('Y'), G.Bin('*', G.Var('param', 'c'), G.Var('err', 'c')))]),
            ('two-definitions', [G.Eq(V_('Y'), V_('X')), G.Eq(V_('Y'), G.Bin('+', V_('X'), G.Num('1')))]),
            ('two-definitions', [G.Eq(V_('Y'), V_('X', -1)), G.Eq(V_('Z'), V_('Y')), G.Eq(V_('Y'), V_('X', -2))]),
        ]
        for kind, p in conflicts:
            yield {'kind': 'conflict', 'which': kind, 'script': G.render_script(p)}
        vals = [None, 0, 1, 2, 3]
        k = 30 if tier == 'thorough' else 6
        for name, p in [x for x in progs if x[1]][:k]:
            for lags, leads, ml, mld in itertools.product(vals, vals, [0, 1, 3], [0, 2]):
                yield {'kind': 'options', 'script': G.render_script(p), 'lags': lags, 'leads': leads, 'min_lags': ml, 'min_leads': mld}

    def check(self, case, res: BoundedResult):
        import fsic
        from fsic.exceptions import ParserError, SymbolError
        script = case['script']
        p = G.parse_script(script)
        out = []
        jcase = dict(case)
        res.nontrivial.add(repr(jcase))
        if case['kind'] == 'conflict':
            res.cover('conflict:' + case['which'])
            try:
                fsic.parse_model(script)
            except (SymbolError, ParserError):
                return out
            except Exception as ex:  # noqa: BLE001
                out.append(Violation('conflicting script is rejected with SymbolError / ParserError', f'c03.conflict-wrong-exception:{type(ex).__name__}',
                                     jcase, 'SymbolError|ParserError', type(ex).__name__))
                return out
            out.append(Violation('a name used as variable and parameter/error, or two different definitions, is rejected',
                                 f'c03.conflict-accepted:{case["which"]}', jcase, 'SymbolError|ParserError', 'accepted'))
            return out
        ref = G.classify(p)
        kw = {k: case[k] for k in ('lags', 'leads', 'min_lags', 'min_leads') if k in case}
        try:
            symbols, Model = build(script, **kw)
        except Exception as ex:  # noqa: BLE001
            out.append(Violation('a script of the documented grammar is accepted', f'c03.rejected:{type(ex).__name__}', jcase, 'accepted',
                                 f'{type(ex).__name__}: {str(ex)[:100]}'))
            return out
        res.cover('accepted')
        for attr, key in (('ENDOGENOUS', 'endogenous'), ('EXOGENOUS', 'exogenous'), ('PARAMETERS', 'parameter'), ('ERRORS', 'error'), ('NAMES', 'names')):
            if list(getattr(Model, attr)) != ref[key]:
                out.append(Violation('the four classes partition the variable list in order, each name once, first-appearance order',
                                     f'c03.{attr}', jcase, ref[key], list(getattr(Model, attr))))
        if case['kind'] == 'options':
            res.cover('options')
            exp_lags = case['lags'] if case['lags'] is not None else max(ref['lags'], case['min_lags'])
            exp_leads = case['leads'] if case['leads'] is not None else max(ref['leads'], case['min_leads'])
        else:
            exp_lags, exp_leads = ref['lags'], ref['leads']
        if (Model.LAGS, Model.LEADS) != (exp_lags, exp_leads):
            out.append(Violation('LAGS/LEADS: deepest lag / furthest lead; explicit lags=/leads= replace, min_* only raise', 'c03.LAGS_LEADS',
                                 jcase, [exp_lags, exp_leads], [Model.LAGS, Model.LEADS], 'class_header_lists_LAGS_LEADS'))
        if case['kind'] == 'classify' and ref['names']:
            res.cover('range')
            n = ref['lags'] + ref['leads'] + 4
            m = Model(range(100, 100 + n))
            got = [t for t, _ in m.iter_periods()]
            ks = [v.k for q in p for v in [q.lhs] + G.terms(q.rhs)]
            want = [t for t in range(n) if all(0 <= t + k < n for k in ks)]
            if got != want:
                out.append(Violation('default solution range = periods at which every equation reads inside the span', 'c03.default-range', jcase, want, got))
        return out


def sym_key(symbols):
    return [(s.name, int(s.type), s.lags, s.leads) for s in symbols]


def code_key(symbols):
    out = []
    for s in symbols:
        if s.code is None:
            out.append(None)
            continue
        try:
            out.append(ast.dump(ast.parse(s.code)))
        except SyntaxError:
            out.append('unparsable:' + s.code)
    return out


class LayoutMetamorphic(BoundedCheck):
    """C14: layout transformations change neither symbols nor the meaning of the code; statements parse independently;
    permutation only reorders; the normal form is a fixed point."""
    name = 'c14.layout'
    props = ('C14',)
    bound_quick = 'catalogue + 200 random programs; 6 random layouts each + the two fixed layouts space-before-index / space-after-sign; statement-wise merge; 3 permutations; normal-form round trip'
    bound_thorough = '2500 random programs; 12 layouts each; all permutations up to 4 statements'
    required_covers = ('layout', 'merge', 'permutation', 'normal-form')

    def cases(self, tier, seed):
        rnd = random.Random(31 + seed)
        for name, p in programs(tier, seed, 2500 if tier == 'thorough' else 200):
            if p:
                yield {'script': G.render_script(p), 'seed': rnd.randrange(10 ** 6)}
        # verbatim code: comments, blank lines and indentation inside a fenced block belong to the block's layout, not to its meaning
        base = '```\nif True:\n    self.Q = 1\n    self.R = 2\n```\nY = X + 1'
        for variant in ('```\nif True:\n    self.Q = 1  # set Q\n    self.R = 2\n```\nY = X + 1',
                        '```\nif True:  # always\n    self.Q = 1\n    self.R = 2   # and R\n```\nY = X + 1  # then Y',
                        '```\nif True:\n    self.Q = 1\n    self.R = 2\n```\n\nY = X + 1\n',
                        '# lead\n```\nif True:\n    self.Q = 1\n    self.R = 2\n```\nY   =   X+1',
                        '```  # begin\nif True:\n    self.Q = 1\n    self.R = 2\n```  # end\nY = X + 1',
                        '```\nif True:\n    self.Q = 1\n    self.R = 2\n```\n\n\nY = X + 1'):
            yield {'script': base, 'seed': 0, 'fenced_variant': variant}

    def check(self, case, res: BoundedResult):
        import fsic
        p = G.parse_script(case['script']) if not case.get('fenced_variant') else None
        rnd = random.Random(case['seed'])
        out = []
        base_script = G.render_script(p) if p is not None else case['script']
        jcase = {'script': base_script, 'seed': case['seed']}
        res.nontrivial.add(base_script)
        try:
            base = fsic.parse_model(base_script)
        except Exception as ex:  # noqa: BLE001
            out.append(Violation('a script of the documented grammar is accepted', f'c14.rejected:{type(ex).__name__}', jcase, 'accepted', str(ex)[:100]))
            return out
        bk, bc = sym_key(base), code_key(base)

        def compare(script, what, sig):
            try:
                got = fsic.parse_model(script)
            except Exception as ex:  # noqa: BLE001
                out.append(Violation(f'{what} does not change the parse', f'c14.{sig}:rejected:{type(ex).__name__}', dict(jcase, variant=script),
                                     'same symbols', f'{type(ex).__name__}: {str(ex)[:80]}', 'layout_invariant'))
                return
            if sym_key(got) != bk:
                out.append(Violation(f'{what} changes neither names, types, lags nor leads', f'c14.{sig}:symbols', dict(jcase, variant=script),
                                     bk, sym_key(got), 'layout_invariant'))
            elif code_key(got) != bc:
                # (for the two recorded layouts the defect is the detached index, whether it shows in the lag / lead lengths or only in the code)
                out.append(Violation(f'{what} does not change the meaning of the generated code', f'c14.{sig}:' + ('symbols' if sig == 'space-before-index' else 'code'), dict(jcase, variant=script),
                                     [s.code for s in base], [s.code for s in got], 'layout_invariant'))
        if case.get('fenced_variant'):
            compare(case['fenced_variant'], 'comments / blank lines around and inside a fenced block (indentation of its lines kept)', 'fenced-layout')
            return out
        res.cover('layout')
        for _ in range(6):
            compare(G.render_script(p, G.Layout.random(rnd)), 'whitespace / comments / blank lines / [0] / line breaks in parentheses', 'layout')
        # the two layouts Python allows but fsic mishandles (recorded findings): NAME [k] and [- k]
        has_idx = any(v.k != 0 for q in p for v in G.terms(q.rhs))
        if has_idx:
            s1 = re.sub(r'(\w|\}|>)\[', r'\1 [', base_script.split('=', 1)[0]) if False else None
            rhs_spaced = '\n'.join(ln.split('=', 1)[0] + '=' + re.sub(r'(\w|\}|>)\[', r'\1 [', ln.split('=', 1)[1]) for ln in base_script.splitlines())
            compare(rhs_spaced, 'a space between a name and its index bracket', 'space-before-index')
            neg = '\n'.join(ln.split('=', 1)[0] + '=' + re.sub(r'\[-(\d)', r'[- \1', ln.split('=', 1)[1]) for ln in base_script.splitlines())
            if neg != base_script:
                compare(neg, 'a space between the sign and the digits of an index', 'space-after-sign')
        # statements are parsed independently: parse(script) == merge of the parses of its statements
        res.cover('merge')
        merged = {}
        order = []
        try:
            for q in p:
                for s in fsic.parse_model(G.render_eq(q)):
                    if s.name in merged:
                        merged[s.name] = merged[s.name].combine(s)
                    else:
                        merged[s.name] = s
                        order.append(s.name)
            mk = sym_key([merged[k] for k in order])
            if mk != bk:
                out.append(Violation('parsing a script equals merging the parses of its statements', 'c14.merge', jcase, bk, mk, 'merge'))
        except Exception as ex:  # noqa: BLE001
            out.append(Violation('parsing a script equals merging the parses of its statements', f'c14.merge:raises:{type(ex).__name__}', jcase, bk, str(ex)[:80]))
        # reordering statements only reorders symbols
        if len(p) > 1:
            res.cover('permutation')
            for _ in range(3):
                q = list(p)
                rnd.shuffle(q)
                try:
                    got = fsic.parse_model(G.render_script(q))
                    if sorted(sym_key(got), key=repr) != sorted(bk, key=repr):
                        out.append(Violation('reordering statements only reorders symbols', 'c14.permutation', dict(jcase, variant=G.render_script(q)),
                                             sorted(bk, key=repr), sorted(sym_key(got), key=repr), 'permutation'))
                except Exception as ex:  # noqa: BLE001
                    out.append(Violation('reordering statements only reorders symbols', f'c14.permutation:raises:{type(ex).__name__}', jcase, 'same symbols', str(ex)[:80]))
        # normal form is a fixed point
        res.cover('normal-form')
        for s in base:
            if s.equation is None or '`' in s.equation:
                continue
            nf = re.sub(r'\[t([+-]\d+)\]', r'[\1]', s.equation).replace('[t]', '[0]')
            try:
                again = [x for x in fsic.parse_model(nf) if x.name == s.name]
                if not again or again[0].equation != s.equation or again[0].code != s.code:
                    out.append(Violation('feeding the normalised equation back reproduces equation and code', 'c14.normal-form', dict(jcase, normal_form=nf),
                                         [s.equation, s.code], [again[0].equation, again[0].code] if again else None, 'normal_form'))
            except Exception as ex:  # noqa: BLE001
                out.append(Violation('feeding the normalised equation back reproduces equation and code', f'c14.normal-form:raises:{type(ex).__name__}',
                                     dict(jcase, normal_form=nf), 'accepted', str(ex)[:80]))
        return out


class BuildVariants(BoundedCheck):
    """C15: build_model / exec of the definition text / CODE, typed and untyped, behave identically; converters; empty list."""
    name = 'c15.variants'
    props = ('C15',)
    bound_quick = 'catalogue + 80 random programs (incl. zero equations, verbatim-only) x {typed, untyped} x 4 lags/leads settings x {default, identity, wrapping} converters'
    bound_thorough = '1000 random programs x 9 settings'
    required_covers = ('typed', 'untyped', 'custom-converter', 'empty', 'verbatim-only')

    def cases(self, tier, seed):
        progs = programs(tier, seed, 1000 if tier == 'thorough' else 80)
        settings = [dict(), dict(lags=3), dict(leads=2, min_lags=1), dict(min_lags=2, min_leads=3)]
        if tier == 'thorough':
            settings += [dict(lags=0), dict(leads=0), dict(lags=1, leads=4), dict(min_leads=1), dict(lags=2, min_lags=5)]
        for name, p in progs:
            for st in settings:
                yield {'script': G.render_script(p), 'tree': True, 'settings': st}
        yield {'script': '`self.Q = 1`', 'tree': False, 'settings': {}}
        yield {'script': '`self.K[t] = self.K[t] + 1`\nY = K + 1\n`self.K[t] = self.K[t] + 1`', 'tree': True, 'settings': {}}
        yield {'script': '```\nself.Q = 1\nself.R = 2\n```\n`self.S = self.Q + 1`', 'tree': False, 'settings': {}}

    def check(self, case, res: BoundedResult):
        import fsic
        from fsic import BaseModel
        from typing import Any, List, Optional
        out = []
        script, st = case['script'], case['settings']
        jcase = {'script': script, 'settings': st}
        res.nontrivial.add(repr(jcase))
        symbols = fsic.parse_model(script)
        if not symbols:
            res.cover('empty')
        if symbols and all(s.name is None for s in symbols):
            res.cover('verbatim-only')
        calls = []

        def wrapping(sym):
            calls.append(sym)
            return '# begin {}\n{}\n# end'.format(sym.name, sym.code)

        def identity(sym):
            calls.append(sym)
            return sym.code
        variants = {}
        for typed in (True, False):
            res.cover('typed' if typed else 'untyped')
            for cname, conv in (('default', None), ('identity', identity), ('wrapping', wrapping)):
                if conv is not None:
                    res.cover('custom-converter')
                del calls[:]
                text = fsic.build_model_definition(symbols, converter=conv, with_type_hints=typed, **st)
                if conv is not None:
                    want = [s for s in symbols if s.equation is not None and s.code is not None and int(s.type) in (3, 8)]
                    if [id(x) for x in calls] != [id(x) for x in want]:
                        out.append(Violation('converter applied once per symbol with an equation, in symbol order', 'c15.converter-calls', jcase,
                                             [s.name for s in want], [s.name for s in calls], 'converter_applied_once'))
                    if conv is wrapping:
                        pos = [text.find('# begin {}\n'.format(s.name)) for s in want]
                        if any(q < 0 for q in pos) or pos != sorted(pos) or any(text.count('# begin {}\n'.format(s.name)) != sum(1 for x in want if x.name == s.name) for s in want):
                            out.append(Violation("converter's output is inserted verbatim, once per symbol, in order", 'c15.converter-output', jcase, 'in order, once', pos))
                # the text without type hints is executable in a namespace that provides BaseModel (and NumPy) only
                ns = {'BaseModel': BaseModel, 'np': np, 'List': List, 'Optional': Optional, 'Any': Any} if typed else {'BaseModel': BaseModel, 'np': np}
                exec(text, ns)
                built = fsic.build_model(symbols, converter=conv, with_type_hints=typed, **st)
                if built.CODE != text:
                    out.append(Violation('the CODE attribute is the definition text for the same options', 'c15.code-attribute', dict(jcase, typed=typed, converter=cname),
                                         text[:60], str(built.CODE)[:60]))
                ns2 = dict(ns)
                try:
                    exec(built.CODE, ns2)
                except Exception as ex:  # noqa: BLE001
                    out.append(Violation('the CODE attribute executes in a namespace that provides BaseModel', f'c15.code-exec:{type(ex).__name__}',
                                         dict(jcase, typed=typed, converter=cname), 'class', f'{type(ex).__name__}: {ex}'[:80]))
                    ns2 = dict(ns)
                variants[(typed, cname)] = [ns['Model'], built, ns2['Model']]
        ref_cls = variants[(True, 'default')][1]
        n = ref_cls.LAGS + ref_cls.LEADS + 3
        rnd = random.Random(len(script))
        data = random_data(rnd, ref_cls.NAMES, n)
        ref_vals = None
        for key, classes in variants.items():
            for cls in classes:
                for attr in ('ENDOGENOUS', 'EXOGENOUS', 'PARAMETERS', 'ERRORS', 'NAMES', 'CHECK', 'LAGS', 'LEADS'):
                    if getattr(cls, attr) != getattr(ref_cls, attr):
                        out.append(Violation('all build routes give the same variable lists and lag/lead lengths', f'c15.{attr}', dict(jcase, variant=str(key)),
                                             getattr(ref_cls, attr), getattr(cls, attr), 'templates_equal'))
                if not case['tree']:
                    continue
                with warnings.catch_warnings():
                    warnings.simplefilter('ignore')
                    with np.errstate(all='ignore'):
                        m = cls(range(n), **{k: v.copy() for k, v in data.items()})
                        try:
                            for t in range(cls.LAGS, n - cls.LEADS):
                                m._evaluate(t)
                            vals = m.values.copy()
                        except Exception as ex:  # noqa: BLE001
                            vals = type(ex).__name__
                if ref_vals is None:
                    ref_vals = vals
                elif not (isinstance(vals, str) and vals == ref_vals or (not isinstance(vals, str) and not isinstance(ref_vals, str)
                                                                         and np.array_equal(vals, ref_vals, equal_nan=True))):
                    out.append(Violation('all build routes evaluate identically', 'c15.evaluate', dict(jcase, variant=str(key)), 'same values', 'different'))
        if not symbols or all(s_.name is None for s_ in symbols):
            # no variables at all (empty symbol list, verbatim-only script): a valid model all the same - it solves, and its (empty) contents can be read and replaced
            for key, classes in variants.items():
                for cls in classes[:1] + classes[1:2]:
                    m = cls(range(cls.LAGS + cls.LEADS + 3))
                    try:
                        m.solve()
                        vals = m.values
                        if getattr(vals, 'size', None) != 0 or m.size != 0:
                            out.append(Violation('an empty symbol list yields a valid model (no variables: empty values)', 'c15.empty-values', dict(jcase, variant=str(key)), 0, getattr(vals, 'size', None)))
                        m.values = 0.0
                        m.copy()
                        m.to_dataframe()
                    except Exception as ex:  # noqa: BLE001
                        out.append(Violation('an empty symbol list yields a valid model that solves trivially', 'c15.empty-solve', dict(jcase, variant=str(key)), 'solves',
                                             f'{type(ex).__name__}: {ex}'[:80]))
                        break
        return out


class GraphEdges(BoundedCheck):
    """C20: nodes, equation attribute and edges of symbols_to_graph against the tree; perturbation test on the real class."""
    name = 'c20.graph'
    props = ('C20',)
    bound_quick = 'catalogue + 200 random programs; every (variable, offset) pair perturbed on random data'
    bound_thorough = '3000 random programs'
    required_covers = ('edge', 'no-edge', 'self-edge')
    concretises = ('fsic.tools.symbols_to_graph',)

    def cases(self, tier, seed):
        rnd = random.Random(17 + seed)
        for name, p in programs(tier, seed, 3000 if tier == 'thorough' else 200):
            if p:
                yield {'script': G.render_script(p, G.Layout.random(rnd) if rnd.random() < 0.3 else G.PLAIN), 'seed': rnd.randrange(10 ** 6)}
        V_ = lambda n, k=0: G.Var('var', n, k)   # noqa: E731
        yield {'script': 'Y = C + G + 0.25 * Y', 'seed': 1}
        yield {'script': 'C = {a}[-1] + <e>[1]', 'seed': 2}
        yield {'script': "Y = X + V['2005'] + W[`2001`]", 'seed': 3, 'named': True}
        # an offset on the left-hand side: the node is the left-hand-side term as written
        yield {'script': 'H[1] = H + YD - C[-1]', 'seed': 6, 'lhs': 'H[t+1]', 'fragments': ['H[t]', 'YD[t]', 'C[t-1]']}
        yield {'script': 'K[-1] = K[-2] * {d}[1]', 'seed': 7, 'lhs': 'K[t-1]', 'fragments': ['K[t-2]', 'd[t+1]']}
        # one statement assigning several left-hand-side terms: each of them is a node carrying the equation, with an edge from every right-hand-side term
        yield {'script': 'A,B = X + Z[-1], X - Z[-1]', 'seed': 8, 'lhs': ['A[t]', 'B[t]'], 'fragments': ['X[t]', 'Z[t-1]']}
        # several verbatim fragments in one equation: the terms between, before and after them are terms of the equation
        yield {'script': 'Y = `1.5 *` X + C[-1] `- 0.5` + G', 'seed': 4, 'fragments': ['X[t]', 'C[t-1]', 'G[t]']}
        yield {'script': 'Y = A `+ 2.0 *` B[1] `+ 3.0 *` {c} `+` <e>[-2]', 'seed': 5, 'fragments': ['A[t]', 'B[t+1]', 'c[t]', 'e[t-2]']}

    @staticmethod
    def label(v: G.Var) -> str:
        return f'{v.name}[t]' if v.k == 0 else (f'{v.name}[t+{v.k}]' if v.k > 0 else f'{v.name}[t{v.k}]')

    def check(self, case, res: BoundedResult):
        import fsic
        import fsic.tools
        script = case['script']
        out = []
        jcase = {'script': script}
        res.nontrivial.add(script)
        symbols = fsic.parse_model(script)
        g = fsic.tools.symbols_to_graph(symbols)
        if case.get('named'):
            # named-period terms are variable-like terms too: the variable read through a named period has an edge into y
            preds = set(g.predecessors('Y[t]')) if 'Y[t]' in g.nodes else set()
            for want in ("V['2005']", 'W[2001]', 'X[t]'):
                if want not in preds:
                    out.append(Violation('edge x -> y for exactly the variable, parameter and error terms on the right-hand side of y (named periods included)',
                                         'c20.edges:named-period', jcase, want, sorted(preds), 'edges'))
            return out
        if case.get('fragments'):
            lhs_all = case.get('lhs', 'Y[t]')
            lhs_all = lhs_all if isinstance(lhs_all, list) else [lhs_all]
            for lhs in lhs_all[1:]:
                pr = {x for x in (g.predecessors(lhs) if lhs in g.nodes else []) if re.fullmatch(r'[_A-Za-z]\w*\[t(?:[+-]\d+)?\]', x)}
                if lhs not in g.nodes or g.nodes[lhs].get('equation') != symbols[0].equation or pr != set(case['fragments']):
                    out.append(Violation('one node per left-hand-side term carrying the normalised equation, with an edge from every right-hand-side term', 'c20.node:several-lhs-terms', jcase,
                                         [lhs, sorted(case['fragments'])], [sorted(g.nodes)[:6], sorted(pr)], 'nodes'))
            lhs = lhs_all[0]
            preds = set(g.predecessors(lhs)) if lhs in g.nodes else set()
            if lhs not in g.nodes or g.nodes[lhs].get('equation') != symbols[0].equation:
                out.append(Violation('one node per left-hand-side term, as written, carrying the normalised equation', 'c20.node:lhs-offset', jcase, lhs, sorted(g.nodes)[:6], 'nodes'))
            if {x for x in preds if re.fullmatch(r'[_A-Za-z]\w*\[t(?:[+-]\d+)?\]', x)} != set(case['fragments']):
                out.append(Violation('edge x -> y for exactly the variable, parameter and error terms on the right-hand side of y (verbatim fragments are no terms, what stands between them is)',
                                     'c20.edges:fragments' if 'lhs' not in case else 'c20.edges:lhs-offset', jcase, sorted(case['fragments']), sorted(preds), 'edges'))
            return out
        p = G.parse_script(script)
        by_name = {}
        for q in p:
            by_name.setdefault(q.lhs.name, q)
        varlike = lambda node: re.fullmatch(r'[_A-Za-z]\w*\[t(?:[+-]\d+)?\]', node) is not None   # noqa: E731
        for nme, q in by_name.items():
            node = self.label(q.lhs)
            if node not in g.nodes:
                out.append(Violation('one node per left-hand-side term', 'c20.node-missing', jcase, node, sorted(g.nodes)[:8], 'nodes'))
                continue
            sym = next(s for s in symbols if s.name == nme)
            if g.nodes[node].get('equation') != sym.equation:
                out.append(Violation('node carries its normalised equation', 'c20.node-equation', jcase, sym.equation, g.nodes[node].get('equation')))
            want = {self.label(v) for v in G.terms(q.rhs)}
            got = {x for x in g.predecessors(node) if varlike(x)}
            if node in want:
                res.cover('self-edge')
            if got != want:
                out.append(Violation('edge x -> y for exactly the variable, parameter and error terms (with offsets) on the right-hand side of y',
                                     'c20.edges', dict(jcase, node=node), sorted(want), sorted(got), 'edges'))
        # perturbation: no edge => no influence; edge => read
        ref = G.classify(p)
        if any(nm.startswith('_') for nm in ref['names']):
            return out          # private-name mangling (recorded finding F24, reported by C01): the class cannot be evaluated
        Model = fsic.build_model(symbols)
        n = ref['lags'] + ref['leads'] + 3
        rnd = random.Random(case['seed'])
        data = random_data(rnd, ref['names'], n)
        t = ref['lags'] + 1
        with warnings.catch_warnings():
            warnings.simplefilter('ignore')
            with np.errstate(all='ignore'):
                for nme, q in by_name.items():
                    one = fsic.build_model([s for s in symbols if s.name == nme] +
                                           [s._replace(equation=None, code=None, type=fsic.parser.Type.EXOGENOUS) if int(s.type) == 3 else s
                                            for s in symbols if s.name != nme and s.name is not None and int(s.type) in (2, 3, 4, 5)])
                    base = one(range(n), **{k: v.copy() for k, v in data.items()})
                    base._evaluate(t)
                    y0 = base[nme][t + q.lhs.k]
                    node = self.label(q.lhs)
                    preds = set(g.predecessors(node)) if node in g.nodes else set()
                    for x in ref['names']:
                        for k in range(-ref['lags'], ref['leads'] + 1):
                            if x == nme and k == q.lhs.k:
                                continue
                            m2 = one(range(n), **{kk: v.copy() for kk, v in data.items()})
                            m2[x][t + k] += 0.37
                            m2._evaluate(t)
                            changed = not _close(m2[nme][t + q.lhs.k], y0)
                            lab = self.label(G.Var('var', x, k))
                            if lab in preds:
                                res.cover('edge')
                            else:
                                res.cover('no-edge')
                                if changed:
                                    out.append(Violation('a series with no edge into y cannot influence y', 'c20.influence-without-edge',
                                                         dict(jcase, node=node, perturbed=lab), 'unchanged', 'changed', 'no_edge_no_influence'))
        return out


# ---------------------------------------------------------------------------------------------------------------------
# tokenisation: the library's term_re against the documented term grammar, written here as an independent reference
# ---------------------------------------------------------------------------------------------------------------------
import keyword as _keyword
import re as _re_ref

_KW = '|'.join(_keyword.kwlist)
# The documented term grammar (README / parser module header): verbatim code in backticks; a reserved word followed by an index is invalid;
# reserved words; a function is a (possibly dotted, at any depth) name followed - after optional blanks - by an opening parenthesis;
# {parameter}, <error> and plain variable names, each optionally followed by an index in square brackets whose surrounding blanks
# are not part of the index.
REFERENCE_TERM_RE = _re_ref.compile(
    r'(?:(?P<_VERBATIM>[`](.+?)[`]))|'
    rf'(?:(?P<_INVALID>(?:{_KW})\s*\[.*?\]))|'
    rf'(?:\b(?P<_KEYWORD>{_KW})\b)|'
    r'(?:(?P<_FUNCTION>[_A-Za-z][_A-Za-z0-9.]*)\s*(?=\())|'
    r'(?:(?:\{\s*(?P<_PARAMETER>[_A-Za-z][_A-Za-z0-9]*)\s*\})|(?:\<\s*(?P<_ERROR>[_A-Za-z][_A-Za-z0-9]*)\s*\>)|(?:(?P<_VARIABLE>[_A-Za-z][_A-Za-z0-9]*)))'
    r'(?:\[\s*(?P<INDEX>.*?)\s*\])?'
)


class _Slow(Exception):
    pass


def _tokens(pattern, text):
    return [(m.span(), {k: v for k, v in m.groupdict().items() if v is not None}) for m in pattern.finditer(text)]


class TokeniserDifferential(BoundedCheck):
    """term_re cuts every text into the same terms (kind, name, index text) as the documented term grammar, and does so in time linear in
    practice (no input of a few dozen characters takes seconds)."""
    name = 'parser.tokeniser'
    props = ('C01', 'C03', 'C13', 'C14')
    bound_quick = ('all strings of length <= 5 over the 12 symbols {a, B, _, 1, ., (, [, ], space, {, <, `} (271 452 strings, sampled 1 in 3), a template family (names x dotted '
                   'depth 0-3 x blanks before the parenthesis x index texts with inner blanks x brace / angle forms), identifiers of 20-60 characters under a 2 s alarm')
    bound_thorough = 'all strings of length <= 6 over the same symbols'
    required_covers = ('short', 'template', 'long-identifier')
    ALPHA = ['a', 'B', '_', '1', '.', '(', '[', ']', ' ', '{', '<', '`']

    def cases(self, tier, seed):
        L = 6 if tier == 'thorough' else 5
        k = 0
        for n in range(1, L + 1):
            for tup in itertools.product(self.ALPHA, repeat=n):
                k += 1
                if tier == 'thorough' or n <= 4 or k % 3 == seed % 3:
                    yield {'kind': 'short', 'text': ''.join(tup)}
        names = ['X', 'x1', '_y', 'is_open', 'if', 'not', 'notx', 'lambda_', 'exp', 'np']
        for nm in names:
            for depth in range(0, 4):
                dotted = '.'.join([nm] + ['sub', 'linalg', 'norm'][:depth])
                for blanks in ('', ' ', '  ', '\t'):
                    yield {'kind': 'template', 'text': f'Y = {dotted}{blanks}(X, 2) + 1'}
            for ix in ('1', '-1', '+2', '- 1', "'2000'", '"2000Q1"', '`k`', 't', ''):
                for a in ('', ' ', '  '):
                    for b in ('', ' ', '  '):
                        for form in ('{nm}[{a}{ix}{b}]', '{{{a}{nm}{b}}}[{ix}]', '<{nm}>[{a}{ix}{b}]', '{nm} [{ix}]', '{nm}[{a}{ix}{b}] + {nm}'):
                            yield {'kind': 'template', 'text': 'Z = ' + form.format(nm=nm, ix=ix, a=a, b=b)}
        for n in (20, 27, 34, 45, 60):
            for stem in ('household_disposable_income_', 'a', 'a_1', 'Ab9_'):
                ident = (stem * n)[:n]
                for text in (f'{ident} = 1', f'Y = {ident} + {ident}[-1]', f'Y = np.{ident}(X) + {ident}', f'{{{ident}}} + <{ident}>'):
                    yield {'kind': 'long-identifier', 'text': text}

    def check(self, case, res: BoundedResult):
        import signal
        import fsic.parser as fp
        out = []
        text = case['text']
        res.cover(case['kind'])
        res.nontrivial.add(text)

        def on_alarm(signum, frame):
            raise _Slow()
        old = signal.signal(signal.SIGVTALRM, on_alarm)          # 2 s of this process's processor time (not wall-clock: the machine may be busy)
        signal.setitimer(signal.ITIMER_VIRTUAL, 2.0)
        try:
            got = _tokens(fp.term_re, text)
        except _Slow:
            out.append(Violation('tokenising a short text terminates promptly (parse_model terminates for every input)', 'parser.tokeniser-slow', case, '< 2 s of processor time', 'interrupted after 2 s of processor time'))
            return out
        finally:
            signal.setitimer(signal.ITIMER_VIRTUAL, 0)
            signal.signal(signal.SIGVTALRM, old)
        want = _tokens(REFERENCE_TERM_RE, text)
        if got != want:
            out.append(Violation('term_re cuts the text into the terms of the documented grammar (kind, name, index text)', 'parser.tokeniser-differs', case,
                                 [d for _, d in want][:4], [d for _, d in got][:4]))
        return out
