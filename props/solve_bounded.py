"""Bounded run-time contract for BaseModel.solve_t / solve_period on scripted models (C02, C04, C05, C06).

A scripted model replays a per-pass outcome script (finite value / NaN / +-inf / warning-raising operation /
exception) in its `_evaluate`.  The expected outcome is computed from the property statements (the same clauses
as contracts/c02_solve_t.py, rendered in Python).  Used as: conformance of the hook-interface contract, cover
witnesses, replay of counterexamples, and witness of the recorded findings.
"""
from __future__ import annotations

import itertools
import math
import random
import warnings

import numpy as np

from verif.bounded import BoundedCheck, BoundedResult, Violation

TOL = 0.25
ALPHABET = [0.0, 0.125, 0.25, 0.75, 'nan', 'inf', 'warn', 'exc']
YMODES = ('const', 'alt')       # second check variable: constant 1.0 after the first pass, or alternating 1.0 / 1.2 (moves by 0.2 < tol each pass)
SPAN = 5


def _val(a):
    return {'nan': float('nan'), 'inf': float('inf'), '-inf': float('-inf')}.get(a, a)


def make_model_class():
    import fsic

    class Scripted(fsic.BaseModel):
        ENDOGENOUS = ['X', 'Y']
        EXOGENOUS = ['Z']
        NAMES = ENDOGENOUS + EXOGENOUS
        CHECK = ['X', 'Y']
        script = ()
        ymode = 'const'
        log = None
        pre_exc = False
        post_exc = False

        def solve_t_before(self, t, *, errors='raise', catch_first_error=True, iteration=None, **kwargs):
            self.log.append(('before', iteration))
            if self.pre_exc:
                raise KeyError('pre-hook')

        def solve_t_after(self, t, *, errors='raise', catch_first_error=True, iteration=None, **kwargs):
            self.log.append(('after', iteration))
            if self.post_exc:
                raise KeyError('post-hook')

        def _evaluate(self, t, *, errors='raise', catch_first_error=True, iteration=None, **kwargs):
            self.log.append(('eval', iteration))
            act = self.script[iteration - 1]
            if act == 'exc':
                raise ZeroDivisionError('scripted')
            if act == 'warn':
                self._X[t] = np.log(np.float64(0.0))     # RuntimeWarning: divide by zero -> -inf
            else:
                self._X[t] = _val(act)
            self._Y[t] = 1.0 if self.ymode == 'const' or iteration % 2 else 1.2

    return Scripted


def finite_vec(v):
    return all(math.isfinite(x) for x in v)


def expected_outcome(case, as_is_replace=False):
    """Outcome prescribed by the properties C02 / C06 for a scripted run (see module docstring)."""
    mi, ma, errors, failures, cfe = case['min_iter'], case['max_iter'], case['errors'], case['failures'], case['cfe']
    n = SPAN
    t = case['t']
    nt = t if t >= 0 else t + n
    off = case['offset']
    h0 = _val(case['h0'])
    exp = {'status': '-', 'iterations': -1, 'result': None, 'exc': None, 'X': h0, 'passes': 0, 'pre': 0, 'post': 0, 'note': ''}
    if mi > ma:
        exp.update(exc='ValueError', note='min>max')
        return exp
    if off and not (0 <= nt + off < n):
        exp.update(exc='IndexError', note='offset')
        return exp
    H = [[h0, 0.0]]           # Y starts at 0.0
    if errors == 'raise' and not finite_vec(H[0]):
        exp.update(exc='SolutionError', note='pre-existing')
        return exp
    exp['pre'] = 1
    if case.get('pre_exc'):
        exp.update(exc='SolutionError', cause='KeyError', note='pre-hook')
        return exp
    x = h0
    local_prev = list(H[0])      # the solver's local copy of the previous check vector (differs from H only in the as-is 'replace' reading)
    for j in range(1, ma + 1):
        act = case['script'][j - 1]
        exp['passes'] = j
        if act == 'exc' or (act == 'warn' and errors == 'raise' and cfe):
            exp.update(exc='SolutionError', cause='ZeroDivisionError' if act == 'exc' else 'RuntimeWarning', note='evaluate', X=x)
            if errors == 'raise':
                exp.update(status='E', iterations=j)
            return exp
        x = float('-inf') if act == 'warn' else _val(act)
        H.append([x, 1.0 if case.get('ymode', 'const') == 'const' or j % 2 else 1.2])
        exp['X'] = x
        fin_prev, fin_cur = finite_vec(H[j - 1]), finite_vec(H[j])
        prev_vec = H[j - 1]
        if as_is_replace and errors == 'replace':
            # as-is reading of the code: non-finite entries of the *local* copy are zeroed (the model keeps them), so the next
            # pass is compared with zeros although it started from stored non-finite values (recorded finding)
            fin_prev = finite_vec(local_prev)
            prev_vec = local_prev
            local_prev = list(H[j])
            if fin_prev and not fin_cur and j < ma:
                local_prev = [v if math.isfinite(v) else 0.0 for v in H[j]]
        if fin_prev and not fin_cur:
            if errors == 'raise':
                exp.update(exc='SolutionError', status='E', iterations=j, note='numerical')
                return exp
            if errors == 'skip':
                exp.update(status='S', iterations=j, result=False)
                return exp
            if errors not in ('ignore', 'replace'):
                exp.update(exc='ValueError', note='invalid-errors')
                return exp
        if fin_prev and fin_cur and j >= mi and all(abs(a - b) < TOL for a, b in zip(H[j], prev_vec)):
            exp['post'] = 1
            if case.get('post_exc'):
                exp.update(exc='SolutionError', cause='KeyError', note='post-hook')
                return exp
            exp.update(status='.', iterations=j, result=True)
            return exp
    exp.update(status='F', iterations=ma, result=False)
    if failures == 'raise':
        exp.update(exc='NonConvergenceError', result=None)
    return exp


class SolveTScripted(BoundedCheck):
    name = 'solve_t.scripted'
    props = ('C02', 'C04', 'C05', 'C06')
    concretises = ('fsic.core.models.BaseModel.solve_t',)
    bound_quick = ('scripted models, one scripted check variable + one constant: all outcome scripts of length <= 2 over '
                   '{0, tol/2, tol, 3tol, nan, inf, warning-op, exception} x min_iter 0..max_iter+1 x errors in {raise,skip,ignore,replace,bogus} '
                   'x failures x catch_first_error x start finite/NaN; plus 1500 seeded random cases with max_iter 3..5, offsets in/out of span, '
                   'negative t, raising pre/post hooks, solve_period entry')
    bound_thorough = 'as quick with scripts of length <= 3 exhaustive and 20000 random cases with max_iter 3..6'
    required_covers = ('status:.', 'status:F', 'status:E', 'status:S', 'exc:ValueError', 'exc:IndexError', 'exc:SolutionError',
                       'exc:NonConvergenceError', 'note:pre-existing', 'note:evaluate', 'note:numerical', 'note:pre-hook', 'note:post-hook')

    def cases(self, tier, seed):
        exhaustive_len = 3 if tier == 'thorough' else 2
        for ma in range(0, exhaustive_len + 1):
            for script in itertools.product(ALPHABET, repeat=ma):
                for mi in range(0, ma + 2):
                    for errors in ('raise', 'skip', 'ignore', 'replace', 'bogus'):
                        for failures in ('raise', 'ignore'):
                            for cfe in (True, False):
                                for h0 in (0.0, 'nan'):
                                    yield dict(script=list(script), min_iter=mi, max_iter=ma, errors=errors, failures=failures, cfe=cfe,
                                               h0=h0, t=2, offset=0, entry='solve_t')
        # both check variables moving: each by less than tol, jointly (Euclidean norm) by more
        for script in itertools.product([0.0, 0.2, 0.4, 0.125], repeat=3):
            for mi in (0, 2):
                yield dict(script=list(script), min_iter=mi, max_iter=3, errors='raise', failures='ignore', cfe=True, h0=0.0, t=2, offset=0, entry='solve_t', ymode='alt')
        rnd = random.Random(seed * 7919 + 11)
        for _ in range(20000 if tier == 'thorough' else 1500):
            ma = rnd.randint(0, 6 if tier == 'thorough' else 5)
            yield dict(script=[rnd.choice(ALPHABET) for _ in range(ma)], min_iter=rnd.randint(0, ma + 1), max_iter=ma,
                       errors=rnd.choice(['raise', 'skip', 'ignore', 'replace', 'bogus']), failures=rnd.choice(['raise', 'ignore']),
                       cfe=rnd.random() < 0.5, h0=rnd.choice([0.0, 0.0, 'nan', 'inf']), t=rnd.choice([0, 2, 4, -1, -3, -5]),
                       offset=rnd.choice([0, 0, -1, 1, 2, -2, -7, 9]), entry=rnd.choice(['solve_t', 'solve_t', 'solve_period']),
                       pre_exc=rnd.random() < 0.07, post_exc=rnd.random() < 0.07, ymode=rnd.choice(YMODES))

    def check(self, case, res: BoundedResult):
        import fsic  # noqa: F401
        from fsic.exceptions import NonConvergenceError, SolutionError
        cls = make_model_class()
        h0 = _val(case['h0'])
        m = cls(list(range(2000, 2000 + SPAN)), X=h0, Y=0.0, Z=7.0)
        m.script = tuple(case['script'])
        m.ymode = case.get('ymode', 'const')
        m.log = []
        m.pre_exc = bool(case.get('pre_exc'))
        m.post_exc = bool(case.get('post_exc'))
        # distinctive bookkeeping in the other periods, to observe the frame
        m.status[:] = ['-', '.', '-', 'F', '-']
        m.iterations[:] = [-1, 3, -1, 9, -1]
        n = SPAN
        t = case['t']
        nt = t if t >= 0 else t + n
        if case['offset'] and 0 <= nt + case['offset'] < n:
            m.X[nt] = 5.0          # distinct value at t, so that the offset copy (from a period holding h0) is observable
        before = {k: m[k].copy() for k in ('X', 'Y', 'Z', 'status', 'iterations')}
        exp = expected_outcome(case)
        opts = dict(min_iter=case['min_iter'], max_iter=case['max_iter'], tol=TOL, offset=case['offset'], failures=case['failures'],
                    errors=case['errors'], catch_first_error=case['cfe'])
        exc = None
        result = None
        with warnings.catch_warnings():
            warnings.simplefilter('ignore')
            try:
                if case.get('entry') == 'solve_period':
                    result = m.solve_period(2000 + nt, **opts) if t >= 0 else m.solve_t(t, **opts)
                else:
                    result = m.solve_t(t, **opts)
            except Exception as ex:  # noqa: BLE001
                exc = ex
        out = []
        key = (case.get('ymode'), tuple(case['script']), case['min_iter'], case['errors'], case['failures'], case['cfe'], str(case['h0']), case['offset'],
               t, case.get('entry'), bool(case.get('pre_exc')), bool(case.get('post_exc')))
        res.nontrivial.add(key)
        res.cover('status:' + str(m.status[nt]))
        if exc is not None:
            res.cover('exc:' + type(exc).__name__)
        if exp['note']:
            res.cover('note:' + exp['note'])

        def bad(clause, sig, expected, observed, ob=''):
            out.append(Violation(clause, sig, case, expected, observed, ob))

        region = ''
        if case['errors'] == 'replace':
            alt = expected_outcome(case, as_is_replace=True)
            if any(alt[k] != exp[k] for k in ('status', 'iterations', 'result', 'exc', 'passes', 'post')):
                # the property and the as-is behaviour of 'replace' disagree on this input: if the code matches the as-is
                # reading, every mismatch below is the recorded finding, anything else is a new violation
                ename_ = type(exc).__name__ if exc is not None else None
                obs_it = int(m.iterations[nt])
                alt_it = alt['iterations'] if alt['status'] != '-' else int(before['iterations'][nt])
                if (str(m.status[nt]) == alt['status'] or alt['status'] == '-') and obs_it == alt_it and ename_ == alt['exc'] \
                        and (exc is not None or result is alt['result']):
                    out.append(Violation("errors='replace': a pass that starts from stored non-finite check values is judged for convergence",
                                         'solve_t.replace-judges-pass-from-nonfinite', case, {k: exp[k] for k in ('status', 'iterations', 'result', 'exc')},
                                         {'status': str(m.status[nt]), 'iterations': obs_it, 'result': result, 'exc': ename_},
                                         'solved:pass_from_nonfinite_not_judged'))
                    return out
        if exp['note'] == 'invalid-errors':
            # the property fixes no behaviour for an invalid `errors` value beyond the five statuses
            if str(m.status[nt]) not in ('-', '.', 'F', 'E', 'S'):
                bad('status is always one of - . F E S', 'solve_t.status-domain', 'one of five', str(m.status[nt]))
            return out
        ename = type(exc).__name__ if exc is not None else None
        if ename != exp['exc']:
            bad('exception class', f'solve_t.exception:{exp["exc"]}->{ename}', exp['exc'], f'{ename}: {exc}', 'only_documented_exceptions')
        elif exc is not None and exp.get('cause'):
            cause = type(exc.__cause__).__name__ if exc.__cause__ is not None else None
            if cause != exp['cause']:
                bad('SolutionError is chained to the original exception', 'solve_t.cause', exp['cause'], cause, 'chained')
        if exc is None and result is not exp['result']:
            bad('result flag', 'solve_t.result', exp['result'], result, 'result_true_iff_status_solved')
        if str(m.status[nt]) != exp['status'] and not (exp['status'] == '-' and str(m.status[nt]) == str(before['status'][nt])):
            bad('status recorded at t', f'solve_t.status:{exp["status"]}->{m.status[nt]}', exp['status'], str(m.status[nt]), 'status')
        exp_it = exp['iterations'] if exp['status'] != '-' else int(before['iterations'][nt])
        if int(m.iterations[nt]) != exp_it:
            bad('iterations recorded at t', 'solve_t.iterations', exp_it, int(m.iterations[nt]), 'iterations')
        # hooks: pre exactly once before the first pass, post exactly once after the converging pass
        pre = [i for i, e_ in enumerate(m.log) if e_[0] == 'before']
        post = [i for i, e_ in enumerate(m.log) if e_[0] == 'after']
        evals = [e_[1] for e_ in m.log if e_[0] == 'eval']
        if not region:
            if len(pre) != exp['pre'] or (pre and pre[0] != 0):
                bad('pre-solution hook runs exactly once, before the first pass', 'solve_t.pre-hook', exp['pre'], m.log[:4], 'pre_hook')
            if len(post) != exp['post'] or (post and post[0] != len(m.log) - 1):
                bad('post-solution hook runs exactly once, after the converging pass', 'solve_t.post-hook', exp['post'], m.log[-4:], 'post_hook')
            if evals != list(range(1, exp['passes'] + 1)):
                bad('evaluation passes are numbered 1..k', 'solve_t.passes', list(range(1, exp['passes'] + 1)), evals, 'passes')
        # frame (C04): other periods untouched; exogenous untouched everywhere; a rejected call changes nothing
        for k in ('X', 'Y', 'Z', 'status', 'iterations'):
            for i in range(n):
                if i == nt and k != 'Z':
                    continue
                a, b = m[k][i], before[k][i]
                if not (a == b or (isinstance(a, float) and math.isnan(a) and math.isnan(b))):
                    bad('solving period t changes nothing outside period t / no exogenous value', 'solve_t.frame', f'{k}[{i}]={b}', f'{k}[{i}]={a}',
                        'frame')
        if exp['note'] in ('min>max', 'offset', 'pre-existing'):
            a, b = float(m.X[nt]), float(before['X'][nt])
            if not (a == b or (math.isnan(a) and math.isnan(b))):
                sig = 'solve_t.rejected-call-changes-values' + (':offset-copy-before-nan-check' if exp['note'] == 'pre-existing' and case['offset'] else '')
                bad('a call rejected up front changes nothing', sig, b, a, 'rejected_call_changes_nothing')
        elif case['offset'] == 0 and (exc is None or exp['note'] in ('evaluate', 'numerical')) and exp['exc'] == ename:
            # also when the period fails: a pass that raised stores nothing (errors='raise' with catch_first_error stops at the first warning),
            # a pass whose non-finite result is detected after the pass has stored it
            a = float(m.X[nt])
            if not (a == exp['X'] or (math.isnan(a) and math.isnan(exp['X']))) and not region:
                bad('stored value after the last pass', 'solve_t.value', exp['X'], a, 'value')
        return out


# ---------------------------------------------------------------------------------------------------------------------
# C05: solve() against the ordered sequence of single-period solves, with a fault injected at every period in turn
# ---------------------------------------------------------------------------------------------------------------------
SPAN6 = 6
SPAN_KINDS = ('range', 'strings', 'pandas-index', 'period-index', 'numpy-with-repeated-label')
FAULTS = ('none', 'nan', 'exc', 'nonconv')


def make_span(kind):
    if kind == 'range':
        return list(range(2000, 2000 + SPAN6))
    if kind == 'strings':
        return [f'p{i}' for i in range(SPAN6)]
    if kind == 'numpy-with-repeated-label':
        return np.array([2000, 2001, 2002, 2003, 2004, 2002])          # 2002 has two positions: it names no single period
    import pandas as pd
    if kind == 'pandas-index':
        return pd.Index(list(range(2000, 2000 + SPAN6)))
    return pd.period_range(start='2000Q1', periods=SPAN6, freq='Q')


def make_period_scripted_class():
    import fsic

    class PeriodScripted(fsic.BaseModel):
        ENDOGENOUS = ['X', 'Y']
        EXOGENOUS = ['Z']
        NAMES = ENDOGENOUS + EXOGENOUS
        CHECK = ['X', 'Y']
        LAGS = 1
        LEADS = 1
        fault = ('none', -1)
        log = None

        def _evaluate(self, t, *, errors='raise', catch_first_error=True, iteration=None, **kwargs):
            self.log.append((int(t), iteration))
            kind, at = self.fault
            self._Y[t] = 1.0
            if t != at or kind == 'none':
                self._X[t] = 10.0 + t          # converges at the second pass (first if the value is already there)
            elif kind == 'nan':
                self._X[t] = float('nan')
            elif kind == 'exc':
                raise ZeroDivisionError('scripted')
            else:
                self._X[t] = float(iteration % 2)    # never converges

    return PeriodScripted


class SolveVsLoop(BoundedCheck):
    """Twin models: one runs solve(start, end, options), the other the per-period loop the property describes; everything observable
    must agree (values, statuses and iteration counts of every period, returned triple, exception class and message)."""
    name = 'c05.solve-vs-loop'
    props = ('C05',)
    bound_quick = ('scripted two-check-variable model with LAGS=LEADS=1 over a 6-period span of 4 span types (list of ints, list of str, pandas Index, '
                   'quarterly PeriodIndex); start/end in {default, every label, unknown label, (PeriodIndex) a year label covering several periods}; '
                   'fault in {none, NaN, exception, non-convergence} at every period position in turn; errors in raise/skip/ignore/replace; failures '
                   'raise/ignore; model fresh or carrying an earlier complete solution; empty span; quick = 4000 seeded samples of that grid')
    bound_thorough = 'the same grid enumerated completely (about 80000 cases)'
    required_covers = ('returned', 'raised-by-period', 'KeyError', 'empty-span', 'zero-periods', 'presolved', 'later-period-after-failure')

    def grid(self):
        for kind in SPAN_KINDS:
            labels = ['default'] + list(range(SPAN6)) + ['unknown'] + (['year'] if kind == 'period-index' else [])
            for s in labels:
                for e_ in labels:
                    for fk in FAULTS:
                        for at in (range(SPAN6) if fk != 'none' else [-1]):
                            for errors in ('raise', 'skip', 'ignore', 'replace'):
                                for failures in ('raise', 'ignore'):
                                    for pres in (False, True):
                                        yield dict(span=kind, start=s, end=e_, fault=[fk, at], errors=errors, failures=failures, presolved=pres)

    def cases(self, tier, seed):
        yield dict(span='empty', start='default', end='default', fault=['none', -1], errors='raise', failures='raise', presolved=False)
        if tier == 'thorough':
            yield from self.grid()
            return
        rnd = random.Random(seed * 104729 + 5)
        for _ in range(4000):
            kind = rnd.choice(SPAN_KINDS)
            labels = ['default'] * 3 + list(range(SPAN6)) + ['unknown'] + (['year'] if kind == 'period-index' else [])
            fk = rnd.choice(FAULTS)
            yield dict(span=kind, start=rnd.choice(labels), end=rnd.choice(labels), fault=[fk, rnd.randrange(SPAN6) if fk != 'none' else -1],
                       errors=rnd.choice(['raise', 'skip', 'ignore', 'replace']), failures=rnd.choice(['raise', 'ignore']), presolved=rnd.random() < 0.5)

    @staticmethod
    def _label(span, kind, which):
        if which == 'default':
            return None
        if which == 'unknown':
            return 'nosuch' if kind == 'strings' else (1990 if kind != 'period-index' else '1990Q1')
        if which == 'year':
            return '2000'
        return span[which]

    def check(self, case, res: BoundedResult):
        from fsic.exceptions import SolutionError
        cls = make_period_scripted_class()
        out = []
        key = json_key(case)
        res.nontrivial.add(key)

        def bad(clause, sig, expected, observed):
            out.append(Violation(clause, sig, case, expected, observed, 'solve'))

        if case['span'] == 'empty':
            res.cover('empty-span')
            try:
                m = cls([])
                m.log = []
                m.solve()
                bad('an empty span raises SolutionError', 'solve.empty-span', 'SolutionError', 'returned')
            except SolutionError:
                pass
            except Exception as ex:  # noqa: BLE001
                bad('an empty span raises SolutionError', 'solve.empty-span', 'SolutionError', type(ex).__name__)
            return out

        kind = case['span']
        span = make_span(kind)
        opts = dict(max_iter=4, errors=case['errors'], failures=case['failures'])

        def fresh():
            m = cls(span, X=0.0, Y=0.0, Z=7.0)
            m.log = []
            m.fault = ('none', -1)
            if case['presolved']:
                with warnings.catch_warnings():
                    warnings.simplefilter('ignore')
                    for p in range(SPAN6):
                        try:
                            m.solve_t(p, max_iter=7, failures='ignore', errors='ignore')
                        except Exception:  # noqa: BLE001
                            pass
                m.iterations[:] = [11, 12, 13, 14, 15, 16]
                m.X[:] = [100.0 + i for i in range(SPAN6)]
                m.log = []
            m.fault = tuple(case['fault'])
            return m

        a, b = fresh(), fresh()
        start, end = self._label(span, kind, case['start']), self._label(span, kind, case['end'])
        kw = {}
        if start is not None:
            kw['start'] = start
        if end is not None:
            kw['end'] = end

        # reference: the statement's reading - positions of the labels (defaults: first period with enough lags, last with enough leads), then
        # the single-period solver on each position in turn with the same options
        def position(label, default):
            if label is None:
                return default
            hits = [i for i, x in enumerate(span) if x == label or (kind == 'period-index' and str(x) == str(label))]
            return hits[0] if len(hits) == 1 else None
        ps, pe = position(start, 1), position(end, SPAN6 - 2)
        ref_exc, ref_triple = None, ([], [], [])
        with warnings.catch_warnings():
            warnings.simplefilter('ignore')
            if ps is None or pe is None:
                ref_exc = KeyError('label')
            else:
                for p in range(ps, pe + 1):
                    try:
                        flag = b.solve_t(p, **opts)
                    except Exception as ex:  # noqa: BLE001
                        ref_exc = ex
                        break
                    ref_triple[0].append(span[p])
                    ref_triple[1].append(p)
                    ref_triple[2].append(flag)
            got_exc, got = None, None
            try:
                got = a.solve(**kw, **opts)
            except Exception as ex:  # noqa: BLE001
                got_exc = ex
        if case['presolved']:
            res.cover('presolved')
        if ref_exc is None:
            res.cover('returned' if ref_triple[1] else 'zero-periods')
        elif isinstance(ref_exc, KeyError) and (ps is None or pe is None):
            res.cover('KeyError')
        else:
            res.cover('raised-by-period')
            if b.log and b.log[-1][0] < (pe if pe is not None else -1):
                res.cover('later-period-after-failure')
        en = lambda x: type(x).__name__ if x is not None else None   # noqa: E731
        if en(got_exc) != en(ref_exc):
            bad('solve() raises exactly when, and what, the per-period loop raises (KeyError for a label without a single position)',
                f'solve.exception:{en(ref_exc)}->{en(got_exc)}', en(ref_exc), f'{en(got_exc)}: {got_exc}')
        elif got_exc is not None and not (ps is None or pe is None) and str(got_exc) != str(ref_exc):
            bad('the exception of the failing period propagates unchanged', 'solve.exception-message', str(ref_exc), str(got_exc))
        if got_exc is None and ref_exc is None:
            ok = isinstance(got, tuple) and len(got) == 3
            if ok:
                labels, indexes, solved = got
                ok = [str(x) for x in labels] == [str(x) for x in ref_triple[0]] and list(indexes) == ref_triple[1] and list(solved) == ref_triple[2] \
                    and all(isinstance(i, int) for i in indexes) and all(isinstance(f, bool) for f in solved)
            if not ok:
                bad('returned (labels, positions, solved flags) equal the per-period calls', 'solve.triple', [str(x) for x in ref_triple[0]] + ref_triple[1] + ref_triple[2], str(got)[:300])
        if a.log != b.log:
            bad('solve() visits exactly the periods from start to end, in span order, each as the single-period solver does', 'solve.visits',
                sorted({t for t, _ in b.log}), sorted({t for t, _ in a.log}))
        for k in ('X', 'Y', 'Z', 'status', 'iterations'):
            va, vb = a[k], b[k]
            for i in range(SPAN6):
                x, y = va[i], vb[i]
                if not (x == y or (isinstance(x, float) and math.isnan(x) and math.isnan(y))):
                    bad('the effect of solve() on the model is that of the per-period loop (earlier periods kept, failing period per policy, later periods untouched)',
                        f'solve.state:{k}', f'{k}[{i}]={y}', f'{k}[{i}]={x}')
                    break
        return out


def json_key(case):
    import json
    return json.dumps(case, sort_keys=True, default=str)


# ---------------------------------------------------------------------------------------------------------------------
# C02 on equation systems of the C01 grammar: the real solver against an independent Gauss-Seidel loop over the derivation tree
# ---------------------------------------------------------------------------------------------------------------------
class SolveGrammarDifferential(BoundedCheck):
    """solve_t of the class built from a random program of the C01 grammar (contractive, divergent or oscillating as it happens), against a
    reference loop written from the statement: passes in symbol order over the derivation tree, stop at the first pass >= min_iter in which
    every endogenous value at t moved by less than tol, at most max_iter passes.  Runs in which the reference meets a non-finite value are
    left to the policy checks (C06)."""
    name = 'c02.grammar-systems'
    props = ('C02',)
    bound_quick = 'catalogue + 150 seeded random programs x 2 data sets x (min_iter, max_iter, tol) in {(0,1),(0,4),(2,4),(0,60),(3,60)} x {1e-6, 0.05} at a middle and a negative period position'
    bound_thorough = '2000 random programs'
    required_covers = ('solved', 'failed', 'min_iter-binding')

    def cases(self, tier, seed):
        from props.parser_bounded import programs
        from verif import grammar as G
        rnd = random.Random(4242 + seed)
        for name, p in programs(tier, seed, 2000 if tier == 'thorough' else 150):
            if p:
                yield {'script': G.render_script(p), 'seed': rnd.randrange(10 ** 6)}

    def check(self, case, res: BoundedResult):
        import fsic
        from verif import grammar as G
        out = []
        script = case['script']
        p = G.parse_script(script)
        ref = G.classify(p)
        if any(nm.startswith('_') for nm in ref['names']):
            return out          # private-name mangling (recorded finding F24, reported by C01)
        try:
            Model = fsic.build_model(fsic.parse_model(script))
        except Exception:  # noqa: BLE001
            return out          # acceptance of the grammar is C01's clause
        n = ref['lags'] + ref['leads'] + 3
        rnd = random.Random(case['seed'])
        endo = ref['endogenous']
        from props.parser_bounded import random_data
        for _ in range(2):
            data = random_data(rnd, ref['names'], n)
            for (mi, ma) in ((0, 1), (0, 4), (2, 4), (0, 60), (3, 60)):
                for tol in (1e-6, 0.05):
                    for t in (ref['lags'] + 1, ref['lags'] + 1 - n):
                        nt = t % n
                        d = {k: v.copy() for k, v in data.items()}
                        prev = [d[e][nt] for e in endo]
                        status, its, finite = 'F', ma, all(math.isfinite(x) for x in prev)
                        with warnings.catch_warnings():
                            warnings.simplefilter('ignore')
                            with np.errstate(all='ignore'):
                                try:
                                    for it in range(1, ma + 1):
                                        d = G.reference_pass(p, d, nt)
                                        cur = [d[e][nt] for e in endo]
                                        if not all(math.isfinite(x) for x in cur):
                                            finite = False
                                            break
                                        if it >= mi and all(abs(a - b) < tol for a, b in zip(cur, prev)):
                                            status, its = '.', it
                                            break
                                        prev = cur
                                except Exception:  # noqa: BLE001
                                    finite = False
                                if not finite:
                                    continue
                                m = Model(range(n), **{k: v.copy() for k, v in data.items()})
                                try:
                                    flag = m.solve_t(t, min_iter=mi, max_iter=ma, tol=tol, failures='ignore', errors='raise')
                                except Exception as ex:  # noqa: BLE001
                                    out.append(Violation('a run without non-finite values and without failures=raise does not raise', f'c02.grammar.raises:{type(ex).__name__}',
                                                         dict(case, t=t, min_iter=mi, max_iter=ma, tol=tol), status, f'{type(ex).__name__}: {ex}'[:90]))
                                    return out
                        res.nontrivial.add((script, mi, ma, tol, t))
                        res.cover('solved' if status == '.' else 'failed')
                        if status == '.' and its == mi and mi > 1:
                            res.cover('min_iter-binding')
                        jcase = dict(case, t=t, min_iter=mi, max_iter=ma, tol=tol)
                        if str(m.status[nt]) != status or int(m.iterations[nt]) != its or flag is not (status == '.'):
                            out.append(Violation('solved at the first pass >= min_iter in which every check variable moved by less than tol, failed after max_iter passes otherwise; '
                                                 'iterations is the pass count and the result flag is True iff solved', 'c02.grammar.outcome', jcase,
                                                 [status, its, status == '.'], [str(m.status[nt]), int(m.iterations[nt]), flag]))
                            return out
                        for nm in ref['names']:
                            if not np.allclose(m[nm], d[nm], rtol=1e-12, atol=0.0, equal_nan=True):
                                out.append(Violation('the values after solving are those of the last pass', 'c02.grammar.values', dict(jcase, var=nm), d[nm].tolist(), m[nm].tolist()))
                                return out
        return out
