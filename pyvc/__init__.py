"""pyvc - verification-condition generator over the Python ast of real fsic functions.

See /verif/DESIGN.md section 3.  Modules:
  ctx       path context: decisions (re-execution DFS), path condition, obligations, ghost state
  values    symbolic value domain (ints, bools, floats, strings, sequences, 1-D arrays, objects)
  interp    the ast interpreter (concrete values stay concrete; symbolic values fork paths)
  libspec   assumed contracts of external code (CPython built-ins, NumPy, warnings, copy, ...)
  extract   source extraction (function ast by qualified name, hashes, what is dropped)
  solve     obligation discharge (z3 in-process, cvc5 / z3-4.8 on the SMT-LIB2 dump), parallel
"""
