"""Contract registry and the driver that turns (function, contract) into obligations.

A contract is sidecar Python (no annotation in /repo).  For a function it gives
  * scenarios : finite case split of the *shapes* of the inputs (dynamic types, None-ness, option
                constants); inside a scenario every value is symbolic.  The union of the scenarios is
                the precondition; each scenario must be reachable (cover).
  * setup(ctx, scenario) -> Call(args, kwargs, self_obj, entry)   builds symbolic inputs and assumes `requires`
  * post(ctx, call, outcome)                                       emits `ensures` / `raises` / `frame` obligations
  * loops     : {ordinal: LoopSpec}                                invariants (and variants) keyed by loop ordinal
  * calls     : {qualname: callable}                               contracts applied at call sites instead of the body
"""
from __future__ import annotations

import time
import traceback
from dataclasses import dataclass, field
from typing import Any, Callable, Dict, List, Optional, Sequence, Tuple

from .ctx import CheckerError, Ctx, Obligation, OutOfSubset, PathEnd, explore
from .extract import FuncInfo, get_function
from .interp import Interp, PyRaise, exc_class


@dataclass
class LoopSpec:
    invariant: Callable            # (interp, frame, k) -> [(label, z3 Bool)]
    props: Tuple[str, ...] = ()
    havoc: Optional[Callable] = None          # (interp, frame) -> None: havoc heap state the body may change
    variant: Optional[Callable] = None        # (interp, frame) -> z3 Int (while loops)
    local_types: Optional[Dict[str, Callable]] = None   # locals unbound at entry that must be typed in the cut
    bind_prev: Optional[Callable] = None      # (interp, frame, k): set up ghost facts after havoc, before assuming inv
    after_exhaustion: Optional[Callable] = None


@dataclass
class Outcome:
    kind: str                      # 'return' | 'raise'
    value: Any = None              # return value
    exc: Any = None                # SExc / real exception


@dataclass
class Call:
    args: Sequence[Any]
    kwargs: Dict[str, Any]
    self_obj: Any = None
    entry: Dict[str, Any] = field(default_factory=dict)   # entry-state snapshot for `old(...)`


class FunctionContract:
    qualname: str = ''
    props: Tuple[str, ...] = ()
    loops: Dict[int, LoopSpec] = {}

    def scenarios(self) -> List[str]:
        return ['default']

    def setup(self, interp: Interp, scenario: str) -> Call:
        raise NotImplementedError

    def post(self, interp: Interp, scenario: str, call: Call, out: Outcome) -> None:
        raise NotImplementedError


class Registry:
    def __init__(self):
        self.contracts: Dict[str, FunctionContract] = {}
        self._loops: Dict[Tuple[str, int], LoopSpec] = {}
        self._calls: Dict[str, Callable] = {}
        self.active_loops_of: Optional[str] = None

    def add(self, c: FunctionContract):
        self.contracts[c.qualname] = c
        return c

    def loop_spec(self, qualname: str, ordinal: int, st=None) -> Optional[LoopSpec]:
        """Loop contracts are keyed by static ordinal (int) or by role (a predicate over the loop statement's ast, see pyvc.roles)."""
        if st is not None:
            for (qn, k), spec in self._loops.items():
                if qn == qualname and callable(k) and k(st):
                    return spec
        return self._loops.get((qualname, ordinal))

    def call_spec(self, qualname: str, obj=None) -> Optional[Callable]:
        return self._calls.get(qualname)

    def set_loops(self, qualname: str, loops: Dict[int, LoopSpec]):
        for k, v in loops.items():
            if callable(k):
                # a role predicate replaces an earlier registration of the same role (each path re-registers its own closures)
                for old in [kk for kk in self._loops if kk[0] == qualname and callable(kk[1]) and kk[1].__name__ == k.__name__]:
                    del self._loops[old]
            self._loops[(qualname, k)] = v

    def set_calls(self, calls: Dict[str, Callable]):
        self._calls.update(calls)

    def clear_local(self):
        self._loops.clear()
        self._calls.clear()


@dataclass
class FunctionReport:
    qualname: str
    sha256: str = ''
    obligations: List[Obligation] = field(default_factory=list)
    paths: int = 0
    scenarios: Dict[str, Dict[str, Any]] = field(default_factory=dict)
    out_of_subset: List[str] = field(default_factory=list)
    covers: set = field(default_factory=set)
    assumptions: set = field(default_factory=set)
    outcomes: Dict[str, int] = field(default_factory=dict)
    seconds: float = 0.0
    errors: List[str] = field(default_factory=list)


def generate(contract: FunctionContract, *, max_paths: int = 20000, scenarios: Optional[Sequence[str]] = None) -> FunctionReport:
    """Symbolically execute the real function under its contract; collect named obligations."""
    fi = get_function(contract.qualname)
    rep = FunctionReport(qualname=contract.qualname, sha256=fi.sha256())
    t0 = time.time()
    seen = {}
    for scen in (scenarios if scenarios is not None else contract.scenarios()):
        registry = Registry()
        registry.set_loops(contract.qualname, getattr(contract, 'loops', {}) or {})
        for qn, lp in (getattr(contract, 'extra_loops', {}) or {}).items():
            registry.set_loops(qn, lp)
        registry.set_calls(getattr(contract, 'calls', {}) or {})
        reached = {'n': 0}

        def run(ctx: Ctx, scen=scen):
            ctx.current_fn = contract.qualname
            ctx.default_props = tuple(contract.props)
            interp = Interp(ctx, registry)
            call = contract.setup(interp, scen)
            ctx.inputs = call.entry.get('inputs')
            if not ctx.feasible():
                raise CheckerError(f'{contract.qualname}[{scen}]: precondition is unsatisfiable')
            reached['n'] += 1
            try:
                if call.self_obj is not None:
                    v = interp.call_function(fi, [call.self_obj] + list(call.args), call.kwargs, self_obj=call.self_obj)
                else:
                    # a nested function under contract sees the free variables its contract binds in an enclosing frame
                    v = interp.call_function(fi, list(call.args), call.kwargs, closure_frame=(call.entry or {}).get('closure_frame'))
                out = Outcome('return', value=v)
            except PyRaise as pr:
                out = Outcome('raise', exc=pr.exc)
            ctx.current_fn = contract.qualname
            contract.post(interp, scen, call, out)
            return out

        # library models that a contract's setup replaces (recording stubs for exec/eval/np.full/...) are local to this scenario: the table is
        # restored afterwards, so that nothing leaks into the next task of the same worker process
        from . import libspec as _L
        saved_models = dict(_L._MODELS)
        try:
            results, stats = explore(run, scenario=scen, max_paths=max_paths)
        except OutOfSubset as ex:
            rep.out_of_subset.append(f'[{scen}] {ex}')
            continue
        finally:
            _L._MODELS.clear()
            _L._MODELS.update(saved_models)
        rep.paths += stats['paths']
        rep.scenarios[scen] = stats
        for ctx, out in results:
            rep.assumptions |= ctx.assumptions_used
            rep.covers |= ctx.covers
            if out is not None:
                key = out.kind if out.kind == 'return' else f'raise:{getattr(exc_class(out.exc), "__name__", "?")}'
                rep.outcomes[f'{scen}:{key}'] = rep.outcomes.get(f'{scen}:{key}', 0) + 1
            occ: Dict[Tuple, int] = {}
            for ob in ctx.obligations:
                k0 = ob.key()
                occ[k0] = occ.get(k0, 0) + 1
                k = k0 + (occ[k0],)
                if k in seen:
                    continue
                seen[k] = ob
                rep.obligations.append(ob)
    rep.seconds = time.time() - t0
    return rep
