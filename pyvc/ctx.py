"""Path context: one instance per explored path.

Exploration is by *re-execution*: the interpreter runs the function from its entry following a
prefix of recorded decisions; at the first undecided fork it takes branch 0 and schedules the other
branches.  No state copying is needed and the interpreter can be written as a plain recursive
evaluator using Python exceptions for control flow.
"""
from __future__ import annotations

import itertools
import time
from dataclasses import dataclass, field
from typing import Any, Callable, Dict, List, Optional, Sequence, Tuple

import z3


class PathEnd(Exception):
    """The current path is infeasible or was cut (e.g. after an inv-preserve obligation)."""


class OutOfSubset(Exception):
    """The function uses a construct the verifier does not model: hard report, never a silent havoc."""


class CheckerError(Exception):
    """Internal inconsistency of the machinery (exit 3)."""


@dataclass
class Obligation:
    name: str                 # <qualname>/<kind>/<label>@<line>
    kind: str                 # ensures | raises | frame | inv-init | inv-preserve | variant | safety | pre-at-call | own | lemma
    props: Tuple[str, ...]    # property ids this obligation serves
    hyps: List[Any]           # z3 Bool list (path condition at the point of the obligation)
    goal: Any                 # z3 Bool
    scenario: str = ''
    path: Tuple[int, ...] = ()
    line: int = 0
    note: str = ''
    # filled in by the solver
    status: str = 'open'      # discharged | failed | undecided
    backend: str = ''
    seconds: float = 0.0
    model: Optional[str] = None

    def key(self):
        return (self.scenario, self.name, self.path)


def has_fp(e) -> bool:
    """Does the term mention floating-point sorts?  (Such conjuncts are kept out of the cheap pruning solver.)"""
    seen = set()
    stack = [e]
    while stack:
        x = stack.pop()
        i = x.get_id()
        if i in seen:
            continue
        seen.add(i)
        k = x.sort().kind()
        if k in (z3.Z3_FLOATING_POINT_SORT, z3.Z3_ROUNDING_MODE_SORT):
            return True
        if z3.is_app(x):
            stack.extend(x.children())
        elif z3.is_quantifier(x):
            stack.append(x.body())
    return False


def has_quantifier(e) -> bool:
    seen = set()
    stack = [e]
    while stack:
        x = stack.pop()
        i = x.get_id()
        if i in seen:
            continue
        seen.add(i)
        if z3.is_quantifier(x):
            return True
        if z3.is_app(x):
            stack.extend(x.children())
    return False


class Ctx:
    _uid = itertools.count()

    def __init__(self, prefix: Sequence[int] = (), *, scenario: str = '', prune_timeout_ms: int = 1000):
        self.prefix = tuple(prefix)
        self.trace: List[int] = []
        self.arity: List[int] = []
        self.labels: List[str] = []
        self.pc: List[Any] = []
        self.obligations: List[Obligation] = []
        self.ghost: Dict[str, Any] = {}
        self.scenario = scenario
        self.assumptions_used: set = set()   # libspec ids / interface assumptions touched on this path
        self.covers: set = set()             # cover labels reached on this path
        self._names: Dict[str, int] = {}
        self._solver = z3.Solver()
        self._solver.set('timeout', prune_timeout_ms)
        self.in_lambda = 0                   # >0 while evaluating an element expression under a bound index
        self.current_fn = ''
        self.default_props: Tuple[str, ...] = ()
        self.notes: List[str] = []
        self.decided: Dict[str, bool] = {}    # simplified condition (s-expression) -> branch taken on this path
        self.inputs: Optional[Dict[str, Any]] = None   # named symbolic inputs (for counterexample read-back)

    # ---- fresh symbols -----------------------------------------------------------------------
    def fresh_name(self, base: str) -> str:
        k = self._names.get(base, 0)
        self._names[base] = k + 1
        return base if k == 0 else f'{base}!{k}'

    def fresh(self, base: str, sort) -> Any:
        return z3.Const(self.fresh_name(base), sort)

    # ---- path condition ----------------------------------------------------------------------
    def assume(self, b) -> None:
        if isinstance(b, bool):
            if not b:
                raise PathEnd()
            return
        b = z3.simplify(b) if not z3.is_quantifier(b) else b
        if z3.is_true(b):
            return
        if z3.is_false(b):
            raise PathEnd()
        self.pc.append(b)
        if not has_quantifier(b) and not has_fp(b):
            self._solver.add(b)

    def _feasible(self, b) -> bool:
        """Cheap pruning only: quantifier-free conjuncts, short budget; unknown counts as feasible."""
        if has_quantifier(b) or has_fp(b):
            return True
        self._solver.push()
        try:
            self._solver.add(b)
            return self._solver.check() != z3.unsat
        finally:
            self._solver.pop()

    def feasible(self) -> bool:
        return self._solver.check() != z3.unsat

    def _next_choice(self, n: int, label: str) -> int:
        i = len(self.trace)
        c = self.prefix[i] if i < len(self.prefix) else 0
        if c >= n:
            raise CheckerError(f'decision replay mismatch at {label}: {c} >= {n}')
        self.trace.append(c)
        self.arity.append(n)
        self.labels.append(label)
        return c

    def decide(self, cond, label: str = '') -> bool:
        """Fork on a symbolic boolean (z3 Bool or Python bool)."""
        if isinstance(cond, bool):
            return cond
        cond = z3.simplify(cond)
        if z3.is_true(cond):
            return True
        if z3.is_false(cond):
            return False
        if self.in_lambda:
            # Under a bound variable a fork is impossible; the condition must be settled by the path condition.
            if not self._feasible(z3.Not(cond)):
                return True
            if not self._feasible(cond):
                return False
            raise OutOfSubset(f'data-dependent branch under a bound index: {label}')
        ft = self._feasible(cond)
        ff = self._feasible(z3.Not(cond))
        if ft and not ff:
            self.assume(cond)
            return True
        if ff and not ft:
            self.assume(z3.Not(cond))
            return False
        if not ft and not ff:
            raise PathEnd()
        c = self._next_choice(2, label)
        self.decided[cond.sexpr()] = (c == 0)
        if c == 0:
            self.assume(cond)
            return True
        self.assume(z3.Not(cond))
        return False

    def choose(self, n: int, label: str = '') -> int:
        """Non-deterministic choice among n alternatives (loop cut variants, 'callee raises or not', ...)."""
        if n == 1:
            return 0
        return self._next_choice(n, label)

    # ---- obligations ---------------------------------------------------------------------------
    def prove(self, goal, label: str, kind: str, *, props: Optional[Sequence[str]] = None, line: int = 0,
              note: str = '', assume_after: bool = True) -> None:
        if isinstance(goal, bool):
            goal = z3.BoolVal(goal)
        elif not has_quantifier(goal):
            goal = z3.simplify(goal)      # syntactically equal sides reduce to True without a solver call
        name = f'{self.current_fn}/{kind}/{label}' + (f'@L{line}' if line else '')
        ob = Obligation(name=name, kind=kind, props=tuple(props if props is not None else self.default_props),
                        hyps=list(self.pc), goal=goal, scenario=self.scenario, path=tuple(self.trace), line=line,
                        note=note)
        ob.inputs = self.inputs
        ob.path_labels = [f'{l}={c}' for l, c in zip(self.labels, self.trace)]
        self.obligations.append(ob)
        if assume_after:
            try:
                self.assume(goal)
            except PathEnd:
                # goal is literally false on this path: obligation recorded, nothing further to explore
                raise

    def cover(self, label: str) -> None:
        self.covers.add(label)

    def use(self, assumption_id: str) -> None:
        self.assumptions_used.add(assumption_id)


def explore(run: Callable[[Ctx], Any], *, scenario: str = '', max_paths: int = 20000,
            on_path: Optional[Callable[[Ctx, Any], None]] = None):
    """Depth-first enumeration of all paths of `run`.  Returns (list of (ctx, result), stats)."""
    stack: List[Tuple[int, ...]] = [()]
    out = []
    n = 0
    t0 = time.time()
    ended = 0
    while stack:
        prefix = stack.pop()
        n += 1
        if n > max_paths:
            raise CheckerError(f'path explosion in scenario {scenario!r}: more than {max_paths} paths')
        ctx = Ctx(prefix, scenario=scenario)
        try:
            res = run(ctx)
        except PathEnd:
            res = None
            ended += 1
        for i in range(len(prefix), len(ctx.trace)):
            for alt in range(ctx.trace[i] + 1, ctx.arity[i]):
                stack.append(tuple(ctx.trace[:i]) + (alt,))
        out.append((ctx, res))
        if on_path:
            on_path(ctx, res)
    return out, {'paths': n, 'cut_or_infeasible': ended, 'seconds': time.time() - t0}
