"""Source extraction: the verified text is the ast of the function as it stands in /repo now.

What extraction drops (DESIGN 4.1): docstrings, type annotations, comments and pragmas (they are not
in the ast), and the *text* of exception messages (the interpreter does not evaluate the arguments of
an exception constructor in symbolic mode).  Nothing is rewritten.
"""
from __future__ import annotations

import ast
import hashlib
import importlib
import inspect
import os
from typing import Any, Dict, List, Optional, Tuple

REPO = os.environ.get('FSIC_REPO', '/repo')

_file_cache: Dict[str, Tuple[str, ast.Module]] = {}


def parse_file(path: str) -> Tuple[str, ast.Module]:
    path = os.path.realpath(path)
    if path not in _file_cache:
        with open(path, encoding='utf-8') as f:
            src = f.read()
        _file_cache[path] = (src, ast.parse(src, filename=path))
    return _file_cache[path]


class FuncInfo:
    """A function under analysis: its ast node, the module whose globals it sees, and its owner class."""

    def __init__(self, node, module, qualname: str, owner=None, real=None, path: str = ''):
        self.node = node
        self.module = module            # real imported module (globals)
        self.qualname = qualname        # e.g. fsic.core.models.BaseModel.solve_t
        self.owner = owner              # defining class (for super()), or None
        self.real = real                # the real function object, when known
        self.path = path

    @property
    def name(self):
        return self.node.name if hasattr(self.node, 'name') else '<lambda>'

    def sha256(self) -> str:
        return hashlib.sha256(ast.dump(strip_docstrings(self.node), include_attributes=False).encode()).hexdigest()

    def __repr__(self):
        return f'FuncInfo({self.qualname})'


def strip_docstrings(node):
    """Return a copy of the function ast without docstrings and annotations (for hashing / reporting only)."""
    import copy
    node = copy.deepcopy(node)
    for n in ast.walk(node):
        if isinstance(n, (ast.FunctionDef, ast.AsyncFunctionDef, ast.ClassDef, ast.Module)):
            if n.body and isinstance(n.body[0], ast.Expr) and isinstance(getattr(n.body[0], 'value', None), ast.Constant) \
                    and isinstance(n.body[0].value.value, str):
                n.body = n.body[1:] or [ast.Pass()]
        if isinstance(n, (ast.FunctionDef, ast.AsyncFunctionDef)):
            n.returns = None
            for a in n.args.args + n.args.kwonlyargs + n.args.posonlyargs + [x for x in (n.args.vararg, n.args.kwarg) if x]:
                a.annotation = None
    return node


def _find(body: List[ast.stmt], parts: List[str]):
    name = parts[0]
    role = None
    if '@' in name:                      # 'values@setter': the function decorated with @values.setter
        name, role = name.split('@', 1)
    for st in body:
        if isinstance(st, (ast.FunctionDef, ast.ClassDef, ast.AsyncFunctionDef)) and st.name == name:
            if role is not None and not any(isinstance(d, ast.Attribute) and d.attr == role and isinstance(d.value, ast.Name) and d.value.id == name
                                            for d in getattr(st, 'decorator_list', [])):
                continue
            if len(parts) == 1:
                return st
            return _find(st.body, parts[1:])
    return None


def get_function(qualname: str) -> FuncInfo:
    """qualname = '<module>.<Class>.<method>' or '<module>.<func>' or '...<func>.<nested func>'."""
    parts = qualname.split('.')
    module = None
    for k in range(len(parts) - 1, 0, -1):
        try:
            module = importlib.import_module('.'.join(parts[:k]))
            rest = parts[k:]
            break
        except ImportError:
            continue
    if module is None:
        raise KeyError(qualname)
    path = inspect.getsourcefile(module)
    _, tree = parse_file(path)
    node = _find(tree.body, rest)
    if node is None:
        raise KeyError(f'{qualname}: not found in {path}')
    owner = None
    real = None
    obj: Any = module
    role = None
    if '@' in rest[-1]:
        role = rest[-1].split('@', 1)[1]
        rest = rest[:-1] + [rest[-1].split('@', 1)[0]]
    try:
        for p in rest:
            prev = obj
            obj = inspect.getattr_static(obj, p) if inspect.isclass(obj) else getattr(obj, p)
            if inspect.isclass(prev):
                owner = prev
        real = obj
    except AttributeError:
        # nested function: owner is the closest enclosing class, if any
        obj = module
        for p in rest:
            nxt = getattr(obj, p, None)
            if nxt is None:
                break
            if inspect.isclass(nxt):
                owner = nxt
            obj = nxt
    if isinstance(real, (staticmethod, classmethod)):
        real = real.__func__
    if isinstance(real, property):
        real = {'setter': real.fset, 'deleter': real.fdel}.get(role, real.fget)
    return FuncInfo(node, module, qualname, owner=owner, real=real, path=path)


_by_code: Dict[Any, FuncInfo] = {}


def from_real(func) -> Optional[FuncInfo]:
    """FuncInfo for a real Python function object defined in a file under REPO (None otherwise)."""
    func = inspect.unwrap(func) if callable(func) else func
    code = getattr(func, '__code__', None)
    if code is None:
        return None
    if code in _by_code:
        return _by_code[code]
    path = code.co_filename
    if not os.path.realpath(path).startswith(os.path.realpath(REPO) + os.sep):
        return None
    module = inspect.getmodule(func)
    _, tree = parse_file(path)
    target = None
    for n in ast.walk(tree):
        if isinstance(n, (ast.FunctionDef, ast.Lambda)) and getattr(n, 'lineno', -1) == code.co_firstlineno \
                and getattr(n, 'name', '<lambda>') == code.co_name:
            target = n
            break
        # decorated functions: co_firstlineno is the decorator line
        if isinstance(n, ast.FunctionDef) and n.decorator_list and n.decorator_list[0].lineno == code.co_firstlineno \
                and n.name == code.co_name:
            target = n
            break
    if target is None:
        return None
    qn = f'{module.__name__}.{func.__qualname__}'
    owner = None
    parts = func.__qualname__.split('.')
    if len(parts) >= 2 and '<locals>' not in parts:
        obj = module
        for p in parts[:-1]:
            obj = getattr(obj, p, None)
        if inspect.isclass(obj):
            owner = obj
    fi = FuncInfo(target, module, qn, owner=owner, real=func, path=path)
    _by_code[code] = fi
    return fi
