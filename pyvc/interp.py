"""The ast interpreter: concrete values are computed by CPython itself, symbolic values by `values`/`libspec`.

Control flow uses Python exceptions (_Break, _Continue, _Return, PyRaise); forks are resolved by
`Ctx.decide/choose` under re-execution (see ctx.py).  Anything not handled raises OutOfSubset.
"""
from __future__ import annotations

import ast
import builtins
import inspect
import types
from typing import Any, Callable, Dict, List, Optional, Sequence as Seq, Tuple

import z3

from . import values as V
from .ctx import Ctx, OutOfSubset, PathEnd, CheckerError
from .extract import FuncInfo, from_real
from .values import (ANY_EXCEPTION, SArr, SBool, SExc, SFloat, SInt, SObj, SSeq, SStr, Sym, Unbound, VarView,
                     is_sym, simplify_value, truth, z3_of)


class _Break(Exception):
    pass


class _Continue(Exception):
    pass


class _Return(Exception):
    def __init__(self, value):
        self.value = value


class PyRaise(Exception):
    """A Python exception propagating through the interpreted code (exc: SExc or a real exception instance)."""

    def __init__(self, exc):
        self.exc = exc


def exc_class(exc):
    return exc.cls if isinstance(exc, SExc) else type(exc)


def exc_matches(ctx: Ctx, exc, classes) -> bool:
    """Does `except classes` catch exc?  Forks when it cannot be determined (unknown subclass)."""
    if not isinstance(classes, tuple):
        classes = (classes,)
    cls = exc_class(exc)
    if cls is ANY_EXCEPTION:
        # an instance of some unknown subclass of Exception
        for c in classes:
            if c in (Exception, BaseException, object):
                return True
        for c in classes:
            if isinstance(c, type) and issubclass(c, Exception):
                # could be, could not be
                return ctx.choose(2, f'unknown-exception-is-{c.__name__}') == 0
        return False
    return any(isinstance(c, type) and issubclass(cls, c) for c in classes)


class Closure:
    def __init__(self, node, frame: 'Frame', defaults, kwdefaults, name: str):
        self.node = node
        self.frame = frame
        self.defaults = defaults
        self.kwdefaults = kwdefaults
        self.name = name


class BoundMethod:
    def __init__(self, obj, fi: FuncInfo):
        self.obj = obj
        self.fi = fi

    def __repr__(self):
        return f'BoundMethod({self.obj!r}.{self.fi.name})'


class SymMethod:
    """Method of a symbolic builtin-like value (str, list, array), resolved by libspec at call time."""

    def __init__(self, recv, name: str):
        self.recv = recv
        self.name = name


class SuperProxy:
    def __init__(self, obj, after_cls):
        self.obj = obj
        self.after = after_cls


class DictProxy:
    """`obj.__dict__` of a symbolic object."""

    def __init__(self, obj: SObj):
        self.obj = obj


class Frame:
    def __init__(self, fi: FuncInfo, parent: Optional['Frame'] = None):
        self.fi = fi
        self.locals: Dict[str, Any] = {}
        self.parent = parent            # enclosing function frame (closures)
        self.globals = fi.module.__dict__
        self.self_obj = None
        self.loop_ordinal = 0


import itertools as _itertools  # noqa: E402

_HIGHER_ORDER = (sorted, min, max, map, filter, _itertools.groupby)


def contains_sym(v, depth=0) -> bool:
    if isinstance(v, (Sym, BoundMethod, SymMethod, Closure, DictProxy, SuperProxy)):
        return True
    if depth > 4:
        return False
    if isinstance(v, (list, tuple, set, frozenset)):
        return any(contains_sym(x, depth + 1) for x in v)
    if isinstance(v, dict):
        return any(contains_sym(k, depth + 1) or contains_sym(x, depth + 1) for k, x in v.items())
    if isinstance(v, slice):
        return any(contains_sym(x, depth + 1) for x in (v.start, v.stop, v.step))
    return False


class Interp:
    def __init__(self, ctx: Ctx, registry=None, *, concrete: bool = False):
        from . import libspec
        self.ctx = ctx
        self.lib = libspec
        self.registry = registry        # contracts.Registry (loop specs, call specs) or None
        self.concrete = concrete
        self.call_depth = 0

    # =========================================================================================
    # function calls
    # =========================================================================================
    def call_function(self, fi: FuncInfo, args: Seq[Any], kwargs: Dict[str, Any], *, closure_frame: Optional[Frame] = None,
                      self_obj=None, defaults=None, kwdefaults=None):
        node = fi.node
        fr = Frame(fi, parent=closure_frame)
        fr.self_obj = self_obj
        self.bind_args(fr, node, args, kwargs, defaults, kwdefaults, fi)
        if isinstance(node, ast.Lambda):
            return self.eval(node.body, fr)
        self.call_depth += 1
        if self.call_depth > 40:
            raise OutOfSubset('recursion depth')
        saved = self.ctx.current_fn
        if not hasattr(self, 'frame_stack'):
            self.frame_stack = []
        self.frame_stack.append(fr)
        try:
            self.exec_block(node.body, fr)
        except _Return as r:
            return r.value
        finally:
            self.frame_stack.pop()
            self.call_depth -= 1
            self.ctx.current_fn = saved
        return None

    def bind_args(self, fr: Frame, node, args, kwargs, defaults, kwdefaults, fi: FuncInfo):
        a = node.args
        params = [p.arg for p in a.posonlyargs + a.args]
        if defaults is None:
            if fi.real is not None and getattr(fi.real, '__code__', None) is not None:
                defaults = fi.real.__defaults__ or ()
                kwdefaults = fi.real.__kwdefaults__ or {}
            else:
                # no real function object (generated source): evaluate the default expressions in the module namespace
                gfr = Frame(fi)
                defaults = tuple(self.eval(d, gfr) for d in a.defaults)
                kwdefaults = {p.arg: self.eval(d, gfr) for p, d in zip(a.kwonlyargs, a.kw_defaults) if d is not None}
        kwargs = dict(kwargs)
        args = list(args)
        n = len(params)
        for i, p in enumerate(params):
            if i < len(args):
                if p in kwargs:
                    self.raise_(TypeError, f'multiple values for argument {p}')
                fr.locals[p] = args[i]
            elif p in kwargs:
                fr.locals[p] = kwargs.pop(p)
            else:
                d = i - (n - len(defaults))
                if d < 0:
                    self.raise_(TypeError, f'missing argument {p}')
                fr.locals[p] = defaults[d]
        if a.vararg:
            fr.locals[a.vararg.arg] = tuple(args[n:])
        elif len(args) > n:
            self.raise_(TypeError, 'too many positional arguments')
        for p in a.kwonlyargs:
            if p.arg in kwargs:
                fr.locals[p.arg] = kwargs.pop(p.arg)
            elif p.arg in (kwdefaults or {}):
                fr.locals[p.arg] = kwdefaults[p.arg]
            else:
                self.raise_(TypeError, f'missing keyword-only argument {p.arg}')
        if a.kwarg:
            fr.locals[a.kwarg.arg] = kwargs
        elif kwargs:
            self.raise_(TypeError, f'unexpected keyword arguments {sorted(kwargs)}')

    def raise_(self, cls, origin='', *, cause=None, real_args=()):
        if self.concrete:
            raise PyRaise(cls(*real_args))
        raise PyRaise(SExc(cls, origin=origin, cause=cause))

    # =========================================================================================
    # statements
    # =========================================================================================
    def exec_block(self, stmts, fr: Frame):
        for st in stmts:
            self.exec(st, fr)

    def exec(self, st, fr: Frame):
        m = getattr(self, 'st_' + type(st).__name__, None)
        if m is None:
            raise OutOfSubset(f'statement {type(st).__name__} at line {st.lineno} of {fr.fi.qualname}')
        return m(st, fr)

    def st_Pass(self, st, fr):
        pass

    def st_Expr(self, st, fr):
        if isinstance(st.value, ast.Constant):
            return   # docstring
        self.eval(st.value, fr)

    def st_Assign(self, st, fr):
        v = self.eval(st.value, fr)
        for t in st.targets:
            self.assign(t, v, fr)

    def st_AnnAssign(self, st, fr):
        if st.value is not None:
            self.assign(st.target, self.eval(st.value, fr), fr)

    def st_AugAssign(self, st, fr):
        t = st.target
        op = type(st.op).__name__
        if isinstance(t, ast.Name):
            cur = self.load_name(t.id, fr, t)
            self.store_name(t.id, self.binop(op, cur, self.eval(st.value, fr), st), fr)
        elif isinstance(t, ast.Subscript):
            obj = self.eval(t.value, fr)
            idx = self.eval_index(t.slice, fr)
            cur = self.getitem(obj, idx, t)
            self.setitem(obj, idx, self.binop(op, cur, self.eval(st.value, fr), st), t)
        elif isinstance(t, ast.Attribute):
            obj = self.eval(t.value, fr)
            cur = self.getattr(obj, t.attr, t)
            self.setattr(obj, t.attr, self.binop(op, cur, self.eval(st.value, fr), st), t)
        else:
            raise OutOfSubset('augmented assignment target')

    def st_Delete(self, st, fr):
        for t in st.targets:
            if isinstance(t, ast.Name):
                fr.locals.pop(t.id, None)
            else:
                raise OutOfSubset('del of non-name')

    def st_If(self, st, fr):
        c = self.eval(st.test, fr)
        if self.ctx.decide(truth(c), f'if@L{st.lineno}'):
            self.exec_block(st.body, fr)
        else:
            self.exec_block(st.orelse, fr)

    def st_Assert(self, st, fr):
        c = self.eval(st.test, fr)
        if not self.ctx.decide(truth(c), f'assert@L{st.lineno}'):
            self.raise_(AssertionError, f'assert@L{st.lineno}')

    def st_Return(self, st, fr):
        raise _Return(self.eval(st.value, fr) if st.value is not None else None)

    def st_Break(self, st, fr):
        raise _Break()

    def st_Continue(self, st, fr):
        raise _Continue()

    def st_Import(self, st, fr):
        import importlib
        for a in st.names:
            mod = importlib.import_module(a.name)
            if a.asname:
                fr.locals[a.asname] = mod
            else:
                fr.locals[a.name.split('.')[0]] = importlib.import_module(a.name.split('.')[0])

    def st_ImportFrom(self, st, fr):
        import importlib
        pkg = fr.fi.module.__package__ if st.level else None
        mod = importlib.import_module(('.' * st.level) + (st.module or ''), pkg)
        for a in st.names:
            fr.locals[a.asname or a.name] = getattr(mod, a.name)

    def st_FunctionDef(self, st, fr):
        defaults = tuple(self.eval(d, fr) for d in st.args.defaults)
        kwd = {a.arg: self.eval(d, fr) for a, d in zip(st.args.kwonlyargs, st.args.kw_defaults) if d is not None}
        fr.locals[st.name] = Closure(st, fr, defaults, kwd, st.name)

    def st_Raise(self, st, fr):
        if st.exc is None:
            cur = getattr(fr, 'handling', None)
            if cur is None:
                raise OutOfSubset('bare raise outside handler')
            raise PyRaise(cur)
        exc = self.eval(st.exc, fr)
        if isinstance(exc, type) and issubclass(exc, BaseException):
            exc = exc() if self.concrete else SExc(exc, origin=f'L{st.lineno}')
        cause = self.eval(st.cause, fr) if st.cause is not None else None
        if isinstance(exc, SExc):
            exc.origin = exc.origin or f'L{st.lineno}'
            exc.line = st.lineno
            if st.cause is not None:
                exc.cause = cause
        elif isinstance(exc, BaseException):
            if st.cause is not None:
                exc.__cause__ = cause
        else:
            raise OutOfSubset('raise of a non-exception value')
        raise PyRaise(exc)

    def st_Try(self, st, fr):
        try:
            self._try_core(st, fr)
        except (PyRaise, _Return, _Break, _Continue):
            if st.finalbody:
                self.exec_block(st.finalbody, fr)
            raise
        else:
            if st.finalbody:
                self.exec_block(st.finalbody, fr)

    def _try_core(self, st, fr):
        try:
            self.exec_block(st.body, fr)
        except PyRaise as pr:
            for h in st.handlers:
                classes = self.eval(h.type, fr) if h.type is not None else BaseException
                if exc_matches(self.ctx, pr.exc, classes):
                    if h.name:
                        fr.locals[h.name] = pr.exc
                    saved = getattr(fr, 'handling', None)
                    fr.handling = pr.exc
                    try:
                        # implicit exception context (__context__) is not modelled; explicit `from` is
                        self.exec_block(h.body, fr)
                    finally:
                        fr.handling = saved
                        if h.name:
                            fr.locals.pop(h.name, None)
                    return
            raise
        else:
            self.exec_block(st.orelse, fr)

    def st_With(self, st, fr):
        if len(st.items) != 1:
            raise OutOfSubset('with: several items')
        item = st.items[0]
        cm = self.eval(item.context_expr, fr)
        if isinstance(cm, Sym) or hasattr(cm, 'vc_enter'):
            entered = cm.vc_enter(self)
            exit_fn = lambda et: cm.vc_exit(self, et)   # noqa: E731
        else:
            entered = cm.__enter__()
            exit_fn = None
        if item.optional_vars is not None:
            self.assign(item.optional_vars, entered, fr)
        try:
            self.exec_block(st.body, fr)
        except PyRaise as pr:
            if exit_fn is not None:
                suppress = exit_fn(pr.exc)
            else:
                e = pr.exc if isinstance(pr.exc, BaseException) else None
                suppress = cm.__exit__(type(e) if e else None, e, None)
            if not suppress:
                raise
        except (_Return, _Break, _Continue):
            if exit_fn is not None:
                exit_fn(None)
            else:
                cm.__exit__(None, None, None)
            raise
        else:
            if exit_fn is not None:
                exit_fn(None)
            else:
                cm.__exit__(None, None, None)

    # ---- loops ---------------------------------------------------------------------------------
    _ordinals: Dict[int, Dict[int, int]] = {}

    def loop_ordinal(self, fr: Frame, st) -> int:
        """Static ordinal of a loop statement within its function (source order; nested defs have their own numbering)."""
        fn = fr.fi.node
        key = id(fn)
        if key not in self._ordinals:
            table: Dict[int, int] = {}

            def walk(body):
                for s_ in body:
                    if isinstance(s_, (ast.For, ast.While)):
                        table[id(s_)] = len(table)
                    for fld in ('body', 'orelse', 'finalbody', 'handlers'):
                        sub = getattr(s_, fld, None)
                        if not sub or isinstance(s_, (ast.FunctionDef, ast.ClassDef, ast.AsyncFunctionDef)):
                            continue
                        for h in sub:
                            if isinstance(h, ast.ExceptHandler):
                                walk(h.body)
                        walk([x for x in sub if isinstance(x, ast.stmt)])
            walk(fn.body if not isinstance(fn, ast.Lambda) else [])
            self._ordinals[key] = table
        return self._ordinals[key].get(id(st), -1)

    def st_While(self, st, fr):
        ordinal = self.loop_ordinal(fr, st)
        spec = self.registry.loop_spec(fr.fi.qualname, ordinal, st) if self.registry else None
        if spec is not None and not self.concrete:
            return self.loop_cut_while(st, fr, spec, ordinal)
        n = 0
        while True:
            c = self.eval(st.test, fr)
            if not self.ctx.decide(truth(c), f'while@L{st.lineno}'):
                self.exec_block(st.orelse, fr)
                return
            n += 1
            if n > 10000 and self.concrete:
                raise CheckerError('concrete while loop did not terminate in 10000 iterations')
            if n > 64 and not self.concrete:
                raise OutOfSubset(f'while loop at L{st.lineno} without an invariant does not terminate by unrolling')
            try:
                self.exec_block(st.body, fr)
            except _Break:
                return
            except _Continue:
                continue

    def st_For(self, st, fr):
        ordinal = self.loop_ordinal(fr, st)
        it = self.eval(st.iter, fr)
        items = self.lib.concrete_iter(self, it)
        if items is not None:
            for x in items:
                self.assign(st.target, x, fr)
                try:
                    self.exec_block(st.body, fr)
                except _Break:
                    return
                except _Continue:
                    continue
            self.exec_block(st.orelse, fr)
            return
        spec = self.registry.loop_spec(fr.fi.qualname, ordinal, st) if self.registry else None
        if spec is None:
            raise OutOfSubset(f'for loop #{ordinal} at L{st.lineno} of {fr.fi.qualname} over a symbolic iterable has no invariant')
        self.loop_cut_for(st, fr, it, spec, ordinal)

    def assigned_names(self, stmts) -> List[str]:
        names: List[str] = []

        def tgt(t):
            if isinstance(t, ast.Name):
                if t.id not in names:
                    names.append(t.id)
            elif isinstance(t, (ast.Tuple, ast.List)):
                for e in t.elts:
                    tgt(e)
            elif isinstance(t, ast.Starred):
                tgt(t.value)

        class Vis(ast.NodeVisitor):
            def visit_Assign(s, n):
                for t in n.targets:
                    tgt(t)
                s.generic_visit(n)

            def visit_AugAssign(s, n):
                tgt(n.target)
                s.generic_visit(n)

            def visit_AnnAssign(s, n):
                if n.value is not None:
                    tgt(n.target)
                s.generic_visit(n)

            def visit_For(s, n):
                tgt(n.target)
                s.generic_visit(n)

            def visit_With(s, n):
                for i in n.items:
                    if i.optional_vars is not None:
                        tgt(i.optional_vars)
                s.generic_visit(n)

            def visit_ExceptHandler(s, n):
                s.generic_visit(n)

            def visit_FunctionDef(s, n):
                if n.name not in names:
                    names.append(n.name)

            def visit_Lambda(s, n):
                pass

            def visit_NamedExpr(s, n):
                tgt(n.target)
                s.generic_visit(n)

        v = Vis()
        for s_ in stmts:
            v.visit(s_)
        return names

    def loop_cut_for(self, st, fr: Frame, it, spec, ordinal: int):
        """Cut a `for` loop over a symbolic iterable at its head by the contract's invariant.

        k = number of completed iterations; the iterable yields element(k) for 0 <= k < count.
        Variants: 0 = zero-trip; 1 = arbitrary iteration (inv assumed, body run once, inv re-proved, path cut
        unless the body breaks/returns/raises); 2 = exhaustion after >= 1 iterations.
        """
        ctx = self.ctx
        count, element = self.lib.symbolic_iter(self, it)
        props = spec.props
        ln = st.lineno
        # inv-init: holds with k = 0 on the entry state
        for label, f in spec.invariant(self, fr, z3.IntVal(0)):
            ctx.prove(f, f'L{ordinal}:{label}', 'inv-init', props=props, line=ln)
        variant = ctx.choose(3, f'for@L{ln}')
        if variant == 0:
            ctx.assume(count <= 0)
            # loop variable is not bound by a zero-trip loop (it keeps any earlier binding)
            self.exec_block(st.orelse, fr)
            return
        ctx.assume(count > 0)
        body_names = self.assigned_names(st.body) + self.assigned_names([ast.Assign(targets=[st.target], value=ast.Constant(0), lineno=ln)])
        self.havoc_locals(fr, body_names, spec, f'L{ordinal}')
        if spec.havoc is not None:
            spec.havoc(self, fr)
        k = ctx.fresh(f'k!L{ordinal}', V.INT)
        if variant == 1:
            ctx.assume(z3.And(k >= 0, k < count))
            if k is not None and spec.bind_prev is not None:
                spec.bind_prev(self, fr, k)
            for label, f in spec.invariant(self, fr, k):
                ctx.assume(f)
            self.assign(st.target, element(k), fr)
            try:
                self.exec_block(st.body, fr)
            except _Break:
                return                      # leaves the loop, skipping `else`
            except _Continue:
                pass
            for label, f in spec.invariant(self, fr, k + 1):
                ctx.prove(f, f'L{ordinal}:{label}', 'inv-preserve', props=props, line=ln)
            raise PathEnd()
        # exhaustion: k == count, loop variable holds the last element
        ctx.assume(k == count)
        if spec.bind_prev is not None:
            spec.bind_prev(self, fr, k)
        for label, f in spec.invariant(self, fr, k):
            ctx.assume(f)
        self.assign(st.target, element(count - 1), fr)
        if spec.after_exhaustion is not None:
            spec.after_exhaustion(self, fr, k)
        self.exec_block(st.orelse, fr)

    def loop_cut_while(self, st, fr: Frame, spec, ordinal: int):
        ctx = self.ctx
        props = spec.props
        ln = st.lineno
        for label, f in spec.invariant(self, fr, None):
            ctx.prove(f, f'L{ordinal}:{label}', 'inv-init', props=props, line=ln)
        body_names = self.assigned_names(st.body)
        self.havoc_locals(fr, body_names, spec, f'L{ordinal}')
        if spec.havoc is not None:
            spec.havoc(self, fr)
        for label, f in spec.invariant(self, fr, None):
            ctx.assume(f)
        v0 = spec.variant(self, fr) if spec.variant is not None else None
        c = self.eval(st.test, fr)
        if not ctx.decide(truth(c), f'while@L{ln}'):
            self.exec_block(st.orelse, fr)
            return
        try:
            self.exec_block(st.body, fr)
        except _Break:
            return
        except _Continue:
            pass
        for label, f in spec.invariant(self, fr, None):
            ctx.prove(f, f'L{ordinal}:{label}', 'inv-preserve', props=props, line=ln)
        if v0 is not None:
            v1 = spec.variant(self, fr)
            ctx.prove(z3.And(v0 >= 0, v1 < v0), f'L{ordinal}:decreases', 'variant', props=props, line=ln)
        else:
            ctx.prove(z3.BoolVal(False), f'L{ordinal}:no-variant-given', 'variant', props=props, line=ln)
        raise PathEnd()

    def havoc_locals(self, fr: Frame, names: List[str], spec, tag: str):
        for nme in names:
            cur = fr.locals.get(nme, None)
            if nme not in fr.locals or isinstance(cur, Unbound):
                if spec.local_types and nme in spec.local_types:
                    fr.locals[nme] = spec.local_types[nme](self, fr)
                else:
                    fr.locals[nme] = Unbound(maybe=True)
                continue
            fr.locals[nme] = self.lib.fresh_like(self, cur, f'{nme}!{tag}')

    # =========================================================================================
    # assignment targets
    # =========================================================================================
    def assign(self, t, v, fr: Frame):
        if isinstance(t, ast.Name):
            self.store_name(t.id, v, fr)
        elif isinstance(t, ast.Attribute):
            self.setattr(self.eval(t.value, fr), self.mangle(t.attr, fr), v, t)
        elif isinstance(t, ast.Subscript):
            obj = self.eval(t.value, fr)
            self.setitem(obj, self.eval_index(t.slice, fr), v, t)
        elif isinstance(t, (ast.Tuple, ast.List)):
            items = self.lib.concrete_iter(self, v)
            if items is None:
                raise OutOfSubset('unpacking a symbolic-length value')
            items = list(items)
            star = [i for i, e in enumerate(t.elts) if isinstance(e, ast.Starred)]
            if star:
                s = star[0]
                after = len(t.elts) - s - 1
                if len(items) < len(t.elts) - 1:
                    self.raise_(ValueError, 'not enough values to unpack')
                for e, x in zip(t.elts[:s], items[:s]):
                    self.assign(e, x, fr)
                self.assign(t.elts[s].value, list(items[s:len(items) - after]), fr)
                for e, x in zip(t.elts[s + 1:], items[len(items) - after:]):
                    self.assign(e, x, fr)
            else:
                if len(items) != len(t.elts):
                    self.raise_(ValueError, 'unpack arity', real_args=('unpack arity',))
                for e, x in zip(t.elts, items):
                    self.assign(e, x, fr)
        else:
            raise OutOfSubset(f'assignment target {type(t).__name__}')

    def store_name(self, name: str, v, fr: Frame):
        fr.locals[name] = v

    def load_name(self, name: str, fr: Frame, node=None):
        f = fr
        first = True
        while f is not None:
            if name in f.locals:
                v = f.locals[name]
                if isinstance(v, Unbound):
                    if v.maybe:
                        raise OutOfSubset(f'local {name!r} may be unbound after a loop cut (line {getattr(node, "lineno", "?")})')
                    break
                return v
            if first and not getattr(f, 'is_comp', False) and name in self._local_names(f):
                # a local of this function that is not bound on this path
                self.raise_(UnboundLocalError, f'{name}@L{getattr(node, "lineno", 0)}', real_args=(name,))
            if not getattr(f, 'is_comp', False):
                first = False
            f = f.parent
        else:
            if name in fr.globals:
                return fr.globals[name]
            if hasattr(builtins, name):
                return getattr(builtins, name)
            self.raise_(NameError, name, real_args=(name,))
        self.raise_(UnboundLocalError, f'{name}@L{getattr(node, "lineno", 0)}', real_args=(name,))

    _locals_cache: Dict[int, set] = {}

    def _local_names(self, fr: Frame) -> set:
        key = id(fr.fi.node)
        if key not in self._locals_cache:
            node = fr.fi.node
            if isinstance(node, ast.Lambda):
                names = set()
            else:
                names = set(self.assigned_names(node.body))
            a = node.args
            for p in a.posonlyargs + a.args + a.kwonlyargs:
                names.add(p.arg)
            if a.vararg:
                names.add(a.vararg.arg)
            if a.kwarg:
                names.add(a.kwarg.arg)
            # names bound by except handlers / comprehensions are handled where they occur
            for n in ast.walk(node):
                if isinstance(n, ast.ExceptHandler) and n.name:
                    names.add(n.name)
            self._locals_cache[key] = names
        return self._locals_cache[key]

    # =========================================================================================
    # expressions
    # =========================================================================================
    def eval(self, e, fr: Frame):
        m = getattr(self, 'ex_' + type(e).__name__, None)
        if m is None:
            raise OutOfSubset(f'expression {type(e).__name__} at line {getattr(e, "lineno", "?")} of {fr.fi.qualname}')
        return m(e, fr)

    def ex_Constant(self, e, fr):
        return e.value

    def ex_Name(self, e, fr):
        return self.load_name(e.id, fr, e)

    def ex_Tuple(self, e, fr):
        return tuple(self._elts(e.elts, fr))

    def ex_List(self, e, fr):
        return list(self._elts(e.elts, fr))

    def ex_Set(self, e, fr):
        return set(self._elts(e.elts, fr))

    def _elts(self, elts, fr):
        out = []
        for x in elts:
            if isinstance(x, ast.Starred):
                items = self.lib.concrete_iter(self, self.eval(x.value, fr))
                if items is None:
                    raise OutOfSubset('starred symbolic iterable')
                out.extend(items)
            else:
                out.append(self.eval(x, fr))
        return out

    def ex_Dict(self, e, fr):
        d = {}
        for k, v in zip(e.keys, e.values):
            if k is None:
                m = self.eval(v, fr)
                if isinstance(m, dict):
                    d.update(m)
                else:
                    raise OutOfSubset('** of a non-dict in a dict display')
            else:
                kk = self.eval(k, fr)
                if is_sym(kk):
                    raise OutOfSubset('symbolic dict key in display')
                d[kk] = self.eval(v, fr)
        return d

    def ex_Slice(self, e, fr):
        return slice(self.eval(e.lower, fr) if e.lower else None, self.eval(e.upper, fr) if e.upper else None,
                     self.eval(e.step, fr) if e.step else None)

    def eval_index(self, s, fr):
        return self.eval(s, fr)

    def ex_JoinedStr(self, e, fr):
        parts = []
        for v in e.values:
            if isinstance(v, ast.Constant):
                parts.append(('c', v.value))
            else:
                x = self.eval(v.value, fr)
                if v.format_spec is not None or v.conversion not in (-1, 115):
                    if is_sym(x):
                        raise OutOfSubset('format spec / conversion on a symbolic value')
                    spec = self.eval(v.format_spec, fr) if v.format_spec is not None else ''
                    if v.conversion == 114:
                        x = repr(x)
                    elif v.conversion == 97:
                        x = ascii(x)
                    parts.append(('c', format(x, spec)))
                    continue
                parts.extend(self.lib.str_parts(self, x))
        return simplify_value(SStr(parts))

    def ex_FormattedValue(self, e, fr):
        return self.ex_JoinedStr(ast.JoinedStr(values=[e]), fr)

    def ex_BinOp(self, e, fr):
        a = self.eval(e.left, fr)
        b = self.eval(e.right, fr)
        return self.binop(type(e.op).__name__, a, b, e)

    def binop(self, op, a, b, node=None):
        if not contains_sym(a) and not contains_sym(b):
            return self.real_call(lambda: V.binop(op, a, b))
        return self.lib.binop(self, op, a, b, node)

    def ex_UnaryOp(self, e, fr):
        a = self.eval(e.operand, fr)
        op = type(e.op).__name__
        if not contains_sym(a):
            return self.real_call(lambda: V.unaryop(op, a))
        return V.unaryop(op, a)

    def ex_BoolOp(self, e, fr):
        is_and = isinstance(e.op, ast.And)
        v = None
        for i, x in enumerate(e.values):
            v = self.eval(x, fr)
            if i == len(e.values) - 1:
                break
            t = self.ctx.decide(truth(v), f'boolop@L{e.lineno}')
            if is_and and not t:
                return v
            if not is_and and t:
                return v
        return v

    def ex_IfExp(self, e, fr):
        if self.ctx.decide(truth(self.eval(e.test, fr)), f'ifexp@L{e.lineno}'):
            return self.eval(e.body, fr)
        return self.eval(e.orelse, fr)

    def ex_Compare(self, e, fr):
        left = self.eval(e.left, fr)
        result = True
        for op, rn in zip(e.ops, e.comparators):
            right = self.eval(rn, fr)
            r = self.compare(type(op).__name__, left, right, e)
            if len(e.ops) == 1:
                return r
            if not self.ctx.decide(truth(r), f'cmpchain@L{e.lineno}'):
                return False if not is_sym(r) else r
            result = r
            left = right
        return result

    def compare(self, op, a, b, node=None):
        if op in ('Is', 'IsNot'):
            same = self.lib.identical(a, b)
            return same if op == 'Is' else (not same)
        if op in ('In', 'NotIn'):
            r = self.lib.contains(self, b, a, node)
            if op == 'In':
                return r
            return V.unaryop('Not', r)
        if not contains_sym(a) and not contains_sym(b):
            return self.real_call(lambda: V._CMP[op](a, b))
        return self.lib.compare(self, op, a, b, node)

    @staticmethod
    def mangle(name: str, fr: Frame) -> str:
        """Private-name mangling of `__x` inside a class body (CPython compile-time rule)."""
        if name.startswith('__') and not name.endswith('__'):
            f = fr
            while f is not None:
                cls_name = getattr(f.fi, 'mangle_class', None) or (f.fi.owner.__name__ if f.fi.owner is not None else None)
                if cls_name:
                    return '_' + cls_name.lstrip('_') + name
                f = f.parent
        return name

    def ex_Attribute(self, e, fr):
        return self.getattr(self.eval(e.value, fr), self.mangle(e.attr, fr), e)

    def ex_Subscript(self, e, fr):
        obj = self.eval(e.value, fr)
        idx = self.eval_index(e.slice, fr)
        return self.getitem(obj, idx, e)

    def ex_Lambda(self, e, fr):
        defaults = tuple(self.eval(d, fr) for d in e.args.defaults)
        return Closure(e, fr, defaults, {}, '<lambda>')

    def ex_NamedExpr(self, e, fr):
        v = self.eval(e.value, fr)
        self.assign(e.target, v, fr)
        return v

    def ex_Starred(self, e, fr):
        raise OutOfSubset('starred expression outside a call or display')

    # ---- comprehensions --------------------------------------------------------------------------
    def ex_ListComp(self, e, fr):
        return self.comprehension(e, fr, 'list')

    def ex_GeneratorExp(self, e, fr):
        return self.comprehension(e, fr, 'gen')

    def ex_SetComp(self, e, fr):
        r = self.comprehension(e, fr, 'list')
        if isinstance(r, list):
            return set(r)
        raise OutOfSubset('set comprehension over a symbolic iterable')

    def ex_DictComp(self, e, fr):
        if len(e.generators) != 1:
            raise OutOfSubset('nested dict comprehension')
        g = e.generators[0]
        it = self.eval(g.iter, fr)
        items = self.lib.concrete_iter(self, it)
        if items is None:
            return self.lib.symbolic_dictcomp(self, e, fr, it)
        sub = self.child_frame(fr)
        out = {}
        for x in items:
            self.assign(g.target, x, sub)
            if all(self.ctx.decide(truth(self.eval(c, sub)), f'comp-if@L{e.lineno}') for c in g.ifs):
                k = self.eval(e.key, sub)
                if is_sym(k):
                    k = simplify_value(k)
                    if is_sym(k):
                        # keys that are symbolic strings: an ordered list of pairs (insertion order; duplicate keys are the caller's precondition)
                        if isinstance(out, dict):
                            out = self.lib.SymDict(list(out.items()))
                if isinstance(out, dict):
                    out[k] = self.eval(e.value, sub)
                else:
                    out.pairs.append((k, self.eval(e.value, sub)))
        return out

    def child_frame(self, fr: Frame) -> Frame:
        sub = Frame(fr.fi, parent=fr)
        sub.globals = fr.globals
        sub.self_obj = fr.self_obj
        sub.is_comp = True
        return sub

    def comprehension(self, e, fr: Frame, kind: str):
        if len(e.generators) != 1:
            # nested generators: only over concrete iterables
            def rec(gens, sub):
                if not gens:
                    return [self.eval(e.elt, sub)]
                g = gens[0]
                items = self.lib.concrete_iter(self, self.eval(g.iter, sub))
                if items is None:
                    raise OutOfSubset('nested comprehension over a symbolic iterable')
                out = []
                for x in items:
                    self.assign(g.target, x, sub)
                    if all(self.ctx.decide(truth(self.eval(c, sub)), 'comp-if') for c in g.ifs):
                        out.extend(rec(gens[1:], sub))
                return out
            return rec(e.generators, self.child_frame(fr))
        g = e.generators[0]
        it = self.eval(g.iter, fr)
        items = self.lib.concrete_iter(self, it)
        sub = self.child_frame(fr)
        if items is not None:
            out = []
            for x in items:
                self.assign(g.target, x, sub)
                if all(self.ctx.decide(truth(self.eval(c, sub)), f'comp-if@L{e.lineno}') for c in g.ifs):
                    out.append(self.eval(e.elt, sub))
            return out
        return self.lib.symbolic_comprehension(self, e, g, sub, it)

    # ---- calls --------------------------------------------------------------------------------------
    def ex_Call(self, e, fr):
        # super() needs the frame
        if isinstance(e.func, ast.Name) and e.func.id == 'super' and not e.args:
            if fr.fi.owner is None or fr.self_obj is None:
                f = fr
                while f is not None and (f.fi.owner is None or f.self_obj is None):
                    f = f.parent
                if f is None:
                    raise OutOfSubset('super() outside a method')
                return self.make_super(f.self_obj, f.fi.owner)
            return self.make_super(fr.self_obj, fr.fi.owner)
        func = self.eval(e.func, fr)
        # exception constructors: message text is dropped in symbolic mode (DESIGN 4.1)
        if isinstance(func, type) and issubclass(func, BaseException) and not self.concrete:
            # ... but the argument expressions are still evaluated: building the message can itself raise (an index into an empty list,
            # a missing attribute) and that exception, not the intended one, is what propagates
            for a in list(e.args) + [k.value for k in e.keywords]:
                try:
                    self.eval(a.value if isinstance(a, ast.Starred) else a, fr)
                except OutOfSubset:
                    pass            # formatting of a symbolic value that the encoder does not model: the text is dropped as before
            exc = SExc(func, origin=f'L{e.lineno}')
            exc.line = e.lineno
            # keep a first argument that is a plain name (e.g. KeyError(period)) for contracts that talk about it
            if len(e.args) == 1 and isinstance(e.args[0], ast.Name):
                exc.args = (self.eval(e.args[0], fr),)
            return exc
        args = []
        for a in e.args:
            if isinstance(a, ast.Starred):
                items = self.lib.concrete_iter(self, self.eval(a.value, fr))
                if items is None:
                    raise OutOfSubset('*args of a symbolic iterable')
                args.extend(items)
            else:
                args.append(self.eval(a, fr))
        kwargs = {}
        for k in e.keywords:
            if k.arg is None:
                m = self.eval(k.value, fr)
                if not isinstance(m, dict):
                    raise OutOfSubset('** of a non-dict')
                for kk, vv in m.items():
                    if kk in kwargs:
                        self.raise_(TypeError, 'duplicate keyword')
                    kwargs[kk] = vv
            else:
                kwargs[k.arg] = self.eval(k.value, fr)
        return self.call(func, args, kwargs, e, fr)

    def make_super(self, obj, owner):
        if isinstance(obj, SObj):
            return SuperProxy(obj, owner)
        return super(owner, obj)

    def call(self, func, args, kwargs, node=None, fr: Optional[Frame] = None):
        ctx = self.ctx
        if isinstance(func, staticmethod):
            func = func.__func__          # staticmethod objects are callable (Python >= 3.10) and call their function
        if isinstance(func, Closure):
            fi = FuncInfo(func.node, func.frame.fi.module, func.frame.fi.qualname + '.' + func.name,
                          owner=func.frame.fi.owner)
            spec = self.registry.call_spec(fi.qualname) if self.registry else None
            if spec is not None and not self.concrete and not getattr(func, 'inlining', False):
                func.inlining = True
                try:
                    return spec(self, func, args, kwargs, node)
                finally:
                    func.inlining = False
            return self.call_function(fi, args, kwargs, closure_frame=func.frame, defaults=func.defaults,
                                      kwdefaults=func.kwdefaults, self_obj=func.frame.self_obj)
        if isinstance(func, BoundMethod):
            spec = self.registry.call_spec(func.fi.qualname, func.obj) if self.registry else None
            if spec is not None and not self.concrete:
                return spec(self, func.obj, args, kwargs, node)
            return self.call_function(func.fi, [func.obj] + list(args), kwargs, self_obj=func.obj)
        if isinstance(func, SymMethod):
            return self.lib.call_method(self, func.recv, func.name, args, kwargs, node)
        if isinstance(func, Sym):
            raise OutOfSubset(f'call of a symbolic value {func!r}')
        if hasattr(func, 'vc_call'):
            return func.vc_call(self, args, kwargs, node)
        # higher-order library functions given a function of the code under analysis (sorted(xs, key=lambda ...), itertools.groupby, map,
        # filter, min/max with key): the library function itself runs for real, calling back into the interpreter for the callable
        if (func in _HIGHER_ORDER or isinstance(func, (types.BuiltinMethodType, types.BuiltinFunctionType, types.MethodType))) and callable(func) \
                and any(isinstance(a, (Closure, BoundMethod)) for a in list(args) + list(kwargs.values())):
            def wrap(f):
                return (lambda *a, **k: self.call(f, list(a), dict(k), node)) if isinstance(f, (Closure, BoundMethod)) else f
            wa = [wrap(a) for a in args]
            wk = {k: wrap(v) for k, v in kwargs.items()}
            if not contains_sym(wa) and not contains_sym(wk):
                r = self.real_call(lambda: func(*wa, **wk))
                if func in (map, filter) or func is _itertools.groupby:
                    # materialise lazily evaluated results now (the callbacks belong to this point of the path)
                    r = self.real_call(lambda: [(k_, list(g_)) for k_, g_ in r] if func is _itertools.groupby else list(r))
                return r
        # locals() / globals(): the calling frame's name bindings (a snapshot, as in CPython) / the globals of the function's module
        if func is builtins.locals and not args and getattr(self, 'frame_stack', None):
            return dict(self.frame_stack[-1].locals)
        if func is builtins.globals and not args and getattr(self, 'frame_stack', None):
            mod = self.frame_stack[-1].fi.module
            return vars(mod) if mod is not None and not isinstance(mod, dict) else (mod if isinstance(mod, dict) else {})
        # real callable
        if not contains_sym(args) and not contains_sym(kwargs):
            fi = from_real(func) if (inspect.isfunction(func) and not self.concrete) else None
            if fi is not None and self.registry is not None:
                spec = self.registry.call_spec(fi.qualname)
                if spec is not None:
                    return spec(self, None, args, kwargs, node)
            model = self.lib.lookup(func)
            if model is not None and (getattr(model, 'always', False) or func in getattr(self.ctx, 'force_models', ())) and not self.concrete:
                return model(self, args, kwargs, node)
            return self.real_call(lambda: func(*args, **kwargs))
        model = self.lib.lookup(func)
        if model is not None:
            return model(self, args, kwargs, node)
        # a real fsic function given symbolic arguments: use its call contract or interpret its source
        target = func
        self_obj = None
        if inspect.ismethod(func):
            target = func.__func__
            self_obj = func.__self__
        fi = from_real(target) if inspect.isfunction(target) else None
        if fi is not None:
            spec = self.registry.call_spec(fi.qualname) if self.registry else None
            if spec is not None:
                return spec(self, self_obj, args, kwargs, node)
            if self_obj is not None:
                return self.call_function(fi, [self_obj] + list(args), kwargs, self_obj=self_obj)
            return self.call_function(fi, args, kwargs)
        if isinstance(func, type):
            r = self.lib.construct(self, func, args, kwargs, node)
            if r is not NotImplemented:
                return r
        raise OutOfSubset(f'call of {getattr(func, "__qualname__", func)!r} with symbolic arguments has no contract '
                          f'(line {getattr(node, "lineno", "?")})')

    def real_call(self, thunk):
        """Run real Python; a real exception becomes a PyRaise."""
        try:
            return thunk()
        except (PyRaise, _Return, _Break, _Continue, PathEnd, OutOfSubset, CheckerError):
            raise
        except Exception as ex:  # noqa: BLE001
            raise PyRaise(ex)

    # ---- attributes ---------------------------------------------------------------------------------
    def getattr(self, obj, name: str, node=None):
        if isinstance(obj, SObj):
            return self.getattr_sobj(obj, name, node)
        if isinstance(obj, SuperProxy):
            return self.lookup_class_attr(obj.obj, name, after=obj.after, node=node)
        if isinstance(obj, DictProxy):
            return self.lib._dictproxy_attr(self, obj, name, node)
        if isinstance(obj, Sym):
            return self.lib.getattr(self, obj, name, node)
        if isinstance(obj, (list, dict, tuple, set)) and contains_sym(obj):
            return self.lib.getattr_container(self, obj, name, node)
        return self.real_call(lambda: getattr(obj, name))

    def getattr_sobj(self, obj: SObj, name: str, node=None):
        if name == '__dict__':
            return DictProxy(obj)
        if name == '__class__':
            return obj.cls
        # data descriptors (properties) on the class take precedence over the instance dict
        static = self._static_attr(obj.cls, name)
        if isinstance(static, property):
            fi = from_real(static.fget)
            if fi is None:
                raise OutOfSubset(f'property {name} without source')
            spec = self.registry.call_spec(fi.qualname, obj) if self.registry else None
            if spec is not None:
                return spec(self, obj, [], {}, node)
            return self.call_function(fi, [obj], {}, self_obj=obj)
        if name in obj.fields:
            return obj.fields[name]
        if issubclass(obj.cls, tuple) and hasattr(obj.cls, '_fields') and name in ('_replace', '_asdict', '_fields'):
            if name == '_fields':
                return obj.cls._fields
            return SymMethod(obj, name)
        if name.startswith('_') and obj.varstore is not None and name[1:] in getattr(obj, 'known_vars', ()):
            vv = obj.varstore.view(z3.StringVal(name[1:]))
            hook = getattr(obj, 'on_var_access', None)
            if hook is not None:
                vv = hook(name[1:], vv)
            return vv
        if static is not _MISSING:
            return self.lookup_class_attr(obj, name, node=node)
        ga = self._static_attr(obj.cls, '__getattr__')
        if ga is not _MISSING:
            fi = from_real(ga)
            return self.call(BoundMethod(obj, fi), [name], {}, node)
        self.raise_(AttributeError, f'{name}')

    def _static_attr(self, cls, name, after=None):
        mro = cls.__mro__
        if after is not None:
            mro = mro[mro.index(after) + 1:]
        for c in mro:
            if name in c.__dict__:
                return c.__dict__[name]
        return _MISSING

    def lookup_class_attr(self, obj: SObj, name: str, after=None, node=None):
        static = self._static_attr(obj.cls, name, after=after)
        if static is _MISSING:
            if after is not None and name in ('__getattribute__',):
                return SymMethod(obj, '__getattribute__')
            if after is not None and name in ('__setattr__',):
                return SymMethod(obj, 'object.__setattr__')
            if after is not None and name == '__init__':
                return SymMethod(obj, 'object.__init__')
            self.raise_(AttributeError, name)
        if isinstance(static, staticmethod):
            return static.__func__
        if isinstance(static, classmethod):
            raise OutOfSubset('classmethod on a symbolic object')
        if isinstance(static, property):
            fi = from_real(static.fget)
            return self.call_function(fi, [obj], {}, self_obj=obj)
        if inspect.isfunction(static):
            fi = from_real(static)
            if fi is None:
                raise OutOfSubset(f'method {name} has no source under the repository')
            return BoundMethod(obj, fi)
        if static is object.__init__:
            return SymMethod(obj, 'object.__init__')
        if static is object.__setattr__:
            return SymMethod(obj, 'object.__setattr__')
        if static is object.__getattribute__:
            return SymMethod(obj, '__getattribute__')
        return static    # plain class attribute (shared object!)

    def setattr(self, obj, name: str, v, node=None):
        if isinstance(obj, SObj):
            static = self._static_attr(obj.cls, name)
            if isinstance(static, property):
                if static.fset is None:
                    self.raise_(AttributeError, f'no setter {name}')
                fi = from_real(static.fset)
                self.call_function(fi, [obj, v], {}, self_obj=obj)
                return
            sa = self._static_attr(obj.cls, '__setattr__')
            if sa is not _MISSING and sa is not object.__setattr__:
                fi = from_real(sa)
                self.call(BoundMethod(obj, fi), [name, v], {}, node)
                return
            obj.fields[name] = v
            return
        if isinstance(obj, Sym):
            return self.lib.setattr(self, obj, name, v, node)
        self.real_call(lambda: setattr(obj, name, v))

    # ---- subscripts ---------------------------------------------------------------------------------
    def getitem(self, obj, idx, node=None):
        if not contains_sym(obj) and not contains_sym(idx):
            return self.real_call(lambda: obj[idx])
        if isinstance(obj, SObj):
            gi = self._static_attr(obj.cls, '__getitem__')
            if gi is _MISSING:
                self.raise_(TypeError, 'not subscriptable')
            return self.call(BoundMethod(obj, from_real(gi)), [idx], {}, node)
        return self.lib.getitem(self, obj, idx, node)

    def setitem(self, obj, idx, v, node=None):
        if not contains_sym(obj) and not contains_sym(idx) and not contains_sym(v):
            return self.real_call(lambda: obj.__setitem__(idx, v))
        if isinstance(obj, SObj):
            si = self._static_attr(obj.cls, '__setitem__')
            if si is _MISSING:
                self.raise_(TypeError, 'no item assignment')
            return self.call(BoundMethod(obj, from_real(si)), [idx, v], {}, node)
        return self.lib.setitem(self, obj, idx, v, node)


class _Missing:
    pass


_MISSING = _Missing()
