"""Assumed contracts of external code (DESIGN section 5).

Every model here is an *assumption* about CPython / NumPy / the standard library, not a proof.
Each one registers an id through `interp.ctx.use(<id>)` when it is applied on a path, so that the
evidence lists exactly the assumptions a proof rests on.  The bounded layer runs conformance checks
of these contracts against the real libraries (verif `conformance`).
"""
from __future__ import annotations

import builtins
import copy as _copy
import itertools
import warnings as _warnings
from collections.abc import Sequence as _Sequence
from typing import Any, Callable, Dict, List, Optional

import numpy as np
import z3

from . import values as V
from .ctx import OutOfSubset, PathEnd
from .values import (ANY_EXCEPTION, BOOL, F64, INT, STR, SArr, SBool, SExc, SFloat, SInt, SObj, SSeq, SStr, Sym,
                     VarView, is_sym, kind_of, norm_index, simplify_value, slice_bounds, sstr, truth, wrap, z3_of)

ASSUMPTIONS: Dict[str, str] = {}    # id -> statement


def A(aid: str, text: str) -> str:
    ASSUMPTIONS[aid] = text
    return aid


# ---------------------------------------------------------------------------------------------
# symbolic iterables
# ---------------------------------------------------------------------------------------------
class SRange(Sym):
    def __init__(self, start, stop, step=1):
        self.start = V.to_int_term(start)
        self.stop = V.to_int_term(stop)
        if is_sym(step) or step != 1:
            raise OutOfSubset('symbolic range with a step other than 1')
        self.step = 1

    @property
    def count(self):
        return z3.If(self.stop > self.start, self.stop - self.start, z3.IntVal(0))

    def __repr__(self):
        return f'SRange({self.start},{self.stop})'


class SEnumerate(Sym):
    def __init__(self, inner, start=0):
        self.inner = inner
        self.start = start


class SZip(Sym):
    def __init__(self, parts):
        self.parts = parts


class SGenSeq(Sym):
    """Immutable sequence given by a count and an element function (elements may be tuples of values)."""

    def __init__(self, count, element):
        self.length = count
        self.element = element

    def at(self, i):
        return self.element(i)


class SOptList(Sym):
    """`[None] * n` with symbolic n: a list whose slots are filled by later item stores.

    isset[i] tells whether slot i has been assigned; arr holds the assigned values (sort fixed by the first store).
    """
    mutable = True

    def __init__(self, length, kind=None, arr=None, isset=None):
        self.length = length
        self.elem_kind = kind
        self.arr = arr
        self.isset = isset if isset is not None else z3.K(INT, z3.BoolVal(False))

    def at(self, i):
        raise OutOfSubset('reading a slot of a [None] * n list')


class SDict(Sym):
    """Insertion-ordered dict with symbolic size: keys Seq (distinct) + value function over keys.

    keys : SSeq of str (distinct, insertion order); vals : z3 Array key-sort -> value-sort
    """
    mutable = True

    def __init__(self, keys: SSeq, vals, val_kind: str):
        self.keys = keys
        self.vals = vals
        self.val_kind = val_kind


class SDictView(Sym):
    def __init__(self, d, which: str):
        self.d = d
        self.which = which


def _concrete_len(length) -> Optional[int]:
    if isinstance(length, int):
        return length
    e = z3.simplify(length)
    if z3.is_int_value(e):
        return e.as_long()
    return None


def concrete_iter(interp, it):
    """Items of `it` if its length is concretely known, else None."""
    if isinstance(it, (SSeq, SArr, VarView)):
        n = _concrete_len(it.length)
        if n is None:
            return None
        return [simplify_value(it.at(z3.IntVal(i))) for i in range(n)]
    if isinstance(it, SRange):
        n = _concrete_len(z3.simplify(it.count))
        if n is None:
            return None
        return [simplify_value(SInt(it.start + i)) for i in range(n)]
    if isinstance(it, SGenSeq):
        n = _concrete_len(it.length)
        if n is None:
            return None
        return [it.element(z3.IntVal(i)) for i in range(n)]
    if isinstance(it, SObj):
        d = _iter_delegate(interp, it)
        return concrete_iter(interp, d)
    if isinstance(it, SEnumerate):
        inner = concrete_iter(interp, it.inner)
        if inner is None:
            return None
        return [(simplify_value(V.binop('Add', it.start, i)) if is_sym(it.start) else it.start + i, x)
                for i, x in enumerate(inner)]
    if isinstance(it, SZip):
        parts = [concrete_iter(interp, p) for p in it.parts]
        if any(p is None for p in parts):
            return None
        return list(zip(*parts))
    if isinstance(it, SStr):
        if it.is_concrete():
            return list(it.concrete())
        return None
    if isinstance(it, (SDict, SDictView)):
        d = it if isinstance(it, SDict) else it.d
        ks = concrete_iter(interp, d.keys)
        if ks is None:
            return None
        if isinstance(it, SDict) or it.which == 'keys':
            return ks
        vs = [wrap(z3.Select(d.vals, z3_of(k))) for k in ks]
        return vs if it.which == 'values' else list(zip(ks, vs))
    if isinstance(it, Sym):
        raise OutOfSubset(f'iteration over {type(it).__name__}')
    try:
        return iter(it)
    except TypeError:
        interp.raise_(TypeError, 'not iterable')


def symbolic_iter(interp, it):
    """(count, element(k)) of a symbolic iterable."""
    if isinstance(it, (SSeq, SArr, VarView)):
        return it.length, (lambda k: it.at(k))
    if isinstance(it, SRange):
        return it.count, (lambda k: SInt(it.start + k))
    if isinstance(it, SGenSeq):
        return it.length, it.element
    if isinstance(it, SObj):
        return symbolic_iter(interp, _iter_delegate(interp, it))
    if isinstance(it, SEnumerate):
        c, el = symbolic_iter(interp, it.inner)
        return c, (lambda k: (SInt(V.to_int_term(it.start) + k), el(k)))
    if isinstance(it, SZip):
        subs = [symbolic_iter(interp, p) if isinstance(p, Sym) else (z3.IntVal(len(p)), (lambda k, p=p: _select_concrete(p, k)))
                for p in it.parts]
        count = subs[0][0]
        for c, _ in subs[1:]:
            count = z3.If(c < count, c, count)
        return count, (lambda k: tuple(el(k) for _, el in subs))
    if isinstance(it, (SDict, SDictView)):
        d = it if isinstance(it, SDict) else it.d
        which = 'keys' if isinstance(it, SDict) else it.which
        if which == 'keys':
            return d.keys.length, (lambda k: d.keys.at(k))
        if which == 'values':
            return d.keys.length, (lambda k: wrap(z3.Select(d.vals, d.keys.at(k).e)))
        return d.keys.length, (lambda k: (d.keys.at(k), wrap(z3.Select(d.vals, z3_of(d.keys.at(k))))))
    raise OutOfSubset(f'symbolic iteration over {type(it).__name__}')


def _iter_delegate(interp, obj):
    """Iteration over an instance whose class defines `__iter__` as `yield from <expr>`: the value of <expr>."""
    import ast as _ast
    from .extract import from_real
    from .interp import Frame, _MISSING
    it = interp._static_attr(obj.cls, '__iter__')
    if it is _MISSING:
        interp.raise_(TypeError, 'not iterable')
    fi = from_real(it)
    body = [st for st in fi.node.body if not (isinstance(st, _ast.Expr) and isinstance(st.value, _ast.Constant))]
    if len(body) == 1 and isinstance(body[0], _ast.Expr) and isinstance(body[0].value, _ast.YieldFrom):
        fr = Frame(fi)
        fr.self_obj = obj
        fr.locals[fi.node.args.args[0].arg] = obj
        return interp.eval(body[0].value.value, fr)
    raise OutOfSubset(f'generator {fi.qualname} is not of the form `yield from <expr>`')


def _select_concrete(seq, k):
    raise OutOfSubset('zip of a concrete sequence with a symbolic one')


def fresh_like(interp, v, name: str):
    ctx = interp.ctx
    if isinstance(v, (bool, SBool)):
        return SBool(ctx.fresh(name, BOOL))
    if isinstance(v, (int, SInt)):
        return SInt(ctx.fresh(name, INT))
    if isinstance(v, (float, SFloat)):
        return SFloat(ctx.fresh(name, F64))
    if isinstance(v, (str, SStr)):
        return SStr(ctx.fresh(name, STR))
    if isinstance(v, SArr):
        srt = V._SORT_OF_KIND[v.dtype]
        return SArr(ctx.fresh(name + '.len', INT), ctx.fresh(name + '.data', z3.ArraySort(INT, srt)), v.dtype)
    if isinstance(v, SSeq):
        srt = V._SORT_OF_KIND[v.elem_kind]
        return SSeq(v.kind, ctx.fresh(name + '.len', INT), ctx.fresh(name + '.data', z3.ArraySort(INT, srt)), v.elem_kind)
    if isinstance(v, SOptList):
        if v.elem_kind is None:
            raise OutOfSubset(f'havoc of an untyped [None] * n list ({name}): give local_types in the loop contract')
        return SOptList(v.length, v.elem_kind, ctx.fresh(name + '.data', z3.ArraySort(INT, V._SORT_OF_KIND[v.elem_kind])),
                        ctx.fresh(name + '.isset', z3.ArraySort(INT, BOOL)))
    if v is None:
        return None
    if isinstance(v, dict):
        return {k: fresh_like(interp, x, f'{name}.{k}') for k, x in v.items()}
    if isinstance(v, (list, tuple, set)) or isinstance(v, Sym):
        return V.Opaque(f'havocked {type(v).__name__} {name}')
    raise OutOfSubset(f'cannot havoc a local of type {type(v).__name__} ({name})')


def str_parts(interp, x):
    if isinstance(x, SStr):
        return x.parts
    if isinstance(x, SInt):
        return [('i', x.e)]
    if isinstance(x, SBool):
        return [('s', z3.If(x.e, z3.StringVal('True'), z3.StringVal('False')))]
    if isinstance(x, Sym):
        raise OutOfSubset(f'str() of {type(x).__name__}')
    return [('c', str(x))]


# ---------------------------------------------------------------------------------------------
# operators on non-scalar symbolic values
# ---------------------------------------------------------------------------------------------
def binop(interp, op, a, b, node=None):
    ctx = interp.ctx
    if isinstance(a, (SArr, VarView)) and isinstance(b, (SArr, VarView)):
        # NumPy broadcasting of two 1-D arrays: equal lengths (length-1 broadcasting is not modelled)
        ok = a.length == b.length
        if not ctx.decide(ok, f'broadcast@L{getattr_lineno(node)}'):
            ctx.use(A('numpy.broadcast', 'element-wise operators on 1-D arrays of different lengths (neither of length 1) raise ValueError'))
            one = z3.Or(a.length == 1, b.length == 1)
            if ctx.decide(one, 'broadcast-len1'):
                raise OutOfSubset('broadcasting with a length-1 array')
            interp.raise_(ValueError, 'broadcast')
    if isinstance(a, VarView):
        a = SArr(a.length, a.arr, 'float')
    if isinstance(b, VarView):
        b = SArr(b.length, b.arr, 'float')
    if isinstance(a, (list, tuple)) and isinstance(b, (list, tuple)) and op == 'Add':
        return a + b
    if isinstance(a, list) and op == 'Mult' and isinstance(b, int):
        return a * b
    if isinstance(a, list) and op == 'Mult' and isinstance(b, SInt) and a == [None]:
        return SOptList(z3.If(b.e > 0, b.e, z3.IntVal(0)))
    if op == 'Mod' and isinstance(a, (str, SStr)):
        raise OutOfSubset('%-formatting')
    return V.binop(op, a, b)


def compare(interp, op, a, b, node=None):
    if isinstance(a, VarView):
        a = SArr(a.length, a.arr, 'float')
    if isinstance(b, VarView):
        b = SArr(b.length, b.arr, 'float')
    if isinstance(a, (tuple, list)) and isinstance(b, (tuple, list)) and op in ('Eq', 'NotEq'):
        if len(a) != len(b):
            return op == 'NotEq'
        conj = True
        terms = []
        for x, y in zip(a, b):
            r = x is y if (isinstance(x, type) or isinstance(y, type)) else compare(interp, 'Eq', x, y, node)
            if isinstance(r, bool):
                if not r:
                    return op == 'NotEq'
            else:
                terms.append(truth(r))
        if not terms:
            return op == 'Eq'
        e = z3.And(*terms) if len(terms) > 1 else terms[0]
        return simplify_value(SBool(e if op == 'Eq' else z3.Not(e)))
    if isinstance(a, type) or isinstance(b, type):
        if op == 'Eq':
            return a is b
        if op == 'NotEq':
            return a is not b
    if (a is None) != (b is None):
        if op == 'Eq':
            return False
        if op == 'NotEq':
            return True
    if isinstance(a, SObj) or isinstance(b, SObj):
        # NamedTuple-like symbolic objects compare field-wise
        if isinstance(a, SObj) and isinstance(b, SObj) and a.cls is b.cls and issubclass(a.cls, tuple) and op in ('Eq', 'NotEq'):
            fields = a.cls._fields
            return compare(interp, op, tuple(a.fields[f] for f in fields), tuple(b.fields[f] for f in fields), node)
        raise OutOfSubset('comparison of symbolic objects')
    return V.compare(op, a, b)


def identical(a, b) -> bool:
    return a is b


def contains(interp, container, item, node=None):
    ctx = interp.ctx
    if not is_sym(container) and not is_sym(item) and not interp.__class__.__module__ == '':
        from .interp import contains_sym, DictProxy
        if isinstance(container, DictProxy):
            return _dictproxy_contains(interp, container, item)
        if not contains_sym(container):
            return interp.real_call(lambda: item in container)
    from .interp import DictProxy
    if isinstance(container, DictProxy):
        return _dictproxy_contains(interp, container, item)
    if isinstance(container, (list, tuple, set, frozenset)):
        terms = []
        for x in container:
            r = compare(interp, 'Eq', x, item, node)
            if isinstance(r, bool):
                if r:
                    return True
            else:
                terms.append(truth(r))
        if not terms:
            return False
        return simplify_value(SBool(z3.Or(*terms) if len(terms) > 1 else terms[0]))
    if isinstance(container, dict):
        return contains(interp, list(container.keys()), item, node)
    if isinstance(container, (SSeq, SArr)):
        n = _concrete_len(container.length)
        it = z3_of(item)
        if n is not None and n <= 8:
            if n == 0:
                return False
            return simplify_value(SBool(z3.Or(*[z3.Select(container.arr, i) == it for i in range(n)])))
        return SBool(V.exists_range(0, container.length, lambda i: z3.Select(container.arr, i) == it, 'in'))
    if isinstance(container, (SDict, SDictView)):
        d = container if isinstance(container, SDict) else container.d
        return contains(interp, d.keys, item, node)
    if isinstance(container, (SStr, str)):
        return simplify_value(SBool(z3.Contains(z3_of(container), z3_of(item))))
    if isinstance(container, SRange):
        i = V.to_int_term(item)
        return simplify_value(SBool(z3.And(container.start <= i, i < container.stop)))
    raise OutOfSubset(f'`in` on {type(container).__name__}')


def _dictproxy_contains(interp, dp, item):
    if is_sym(item):
        raise OutOfSubset('symbolic key in __dict__ membership')
    return item in dp.obj.fields


# ---------------------------------------------------------------------------------------------
# attributes / methods of symbolic builtin-like values
# ---------------------------------------------------------------------------------------------
def getattr(interp, obj, name, node=None):
    from .interp import SymMethod
    if isinstance(obj, (SArr, VarView)):
        if name == 'shape':
            return (simplify_value(SInt(obj.length)),)
        if name == 'ndim':
            return 1
        if name == 'size':
            return simplify_value(SInt(obj.length))
        if name == 'dtype':
            return _DTYPES[obj.dtype]
        if name in ('copy', 'astype', 'flatten', 'nonzero', 'reshape', 'any', 'all', 'tolist'):
            return SymMethod(obj, name)
        if name == 'nbytes':
            raise OutOfSubset('nbytes')
    if isinstance(obj, SSeq):
        if name in ('append', 'index', 'copy', 'count', 'extend'):
            return SymMethod(obj, name)
    if isinstance(obj, SStr):
        return SymMethod(obj, name)
    if isinstance(obj, SExc):
        if name == 'name':
            return obj.name
        if name == 'args':
            return obj.args
        if name == '__cause__':
            return obj.cause
    if isinstance(obj, (SDict,)):
        if name in ('items', 'keys', 'values', 'get', 'update', 'copy'):
            return SymMethod(obj, name)
    if isinstance(obj, SInt) and name in ('real', 'numerator'):
        return obj
    if isinstance(obj, SRange):
        if name == 'start':
            return simplify_value(SInt(obj.start))
        if name == 'stop':
            return simplify_value(SInt(obj.stop))
        if name == 'step':
            return 1
    raise OutOfSubset(f'attribute {name!r} of {type(obj).__name__} (line {getattr_lineno(node)})')


def getattr_lineno(node):
    return builtins.getattr(node, 'lineno', '?')


def getattr_container(interp, obj, name, node=None):
    return builtins.getattr(obj, name)


def setattr(interp, obj, name, v, node=None):
    raise OutOfSubset(f'attribute store on {type(obj).__name__}')


_DTYPES = {'float': np.dtype('float64'), 'int': np.dtype('int64'), 'bool': np.dtype('bool'), 'str': np.dtype('<U1')}


def call_method(interp, recv, name, args, kwargs, node=None):
    ctx = interp.ctx
    if isinstance(recv, (SArr, VarView)):
        if name == 'copy':
            ctx.use(A('numpy.ndarray.copy', 'ndarray.copy() returns a fresh array with equal shape, dtype and elements'))
            return SArr(recv.length, recv.arr, recv.dtype)
        if name == 'flatten':
            ctx.use(A('numpy.ndarray.flatten', 'flatten() of a 1-D array returns a fresh equal 1-D array'))
            return SArr(recv.length, recv.arr, recv.dtype)
        if name == 'astype':
            tgt = _dtype_kind(args[0] if args else kwargs.get('dtype'))
            ctx.use(A('numpy.ndarray.astype', 'astype(dtype) keeps the shape; float->float is the identity on elements'))
            if tgt == recv.dtype:
                return SArr(recv.length, recv.arr, recv.dtype)
            if tgt == 'float' and recv.dtype in ('int', 'bool'):
                return recv.map(lambda x: V.to_float_term(wrap(x)), 'float') if isinstance(recv, SArr) else None
            srt = V._SORT_OF_KIND[tgt]
            return SArr(recv.length, ctx.fresh('astype', z3.ArraySort(INT, srt)), tgt)
        if name == 'any':
            return model_np_any(interp, [recv], {}, node)
        if name == 'all':
            return model_np_all(interp, [recv], {}, node)
    if isinstance(recv, SSeq):
        if name == 'append':
            if recv.kind != 'list':
                interp.raise_(AttributeError, 'append')
            recv.arr = z3.Store(recv.arr, recv.length, z3_of(args[0]))
            recv.length = recv.length + 1
            return None
        if name == 'copy':
            return SSeq(recv.kind, recv.length, recv.arr, recv.elem_kind)
        if name == 'index':
            ctx.use(A('list.index', 'seq.index(x) returns the least i with seq[i] == x and raises ValueError when there is none'))
            x = z3_of(args[0])
            found = V.exists_range(0, recv.length, lambda i: z3.Select(recv.arr, i) == x, 'idx')
            n = _concrete_len(recv.length)
            if n is not None and n <= 8:
                found = z3.Or(*[z3.Select(recv.arr, i) == x for i in range(n)]) if n else z3.BoolVal(False)
            if not ctx.decide(found, f'index-found@L{getattr_lineno(node)}'):
                interp.raise_(ValueError, 'list.index')
            r = ctx.fresh('index', INT)
            ctx.assume(z3.And(r >= 0, r < recv.length, z3.Select(recv.arr, r) == x))
            ctx.assume(V.forall_range(0, r, lambda i: z3.Select(recv.arr, i) != x, 'idxmin'))
            return SInt(r)
    if isinstance(recv, SStr):
        return str_method(interp, recv, name, args, kwargs, node)
    if isinstance(recv, SDict):
        if name in ('items', 'keys', 'values'):
            return SDictView(recv, name)
        if name == 'get':
            k = z3_of(args[0])
            default = args[1] if len(args) > 1 else None
            present = truth(contains(interp, recv.keys, args[0], node))
            if ctx.decide(present, 'dict.get-present'):
                return wrap(z3.Select(recv.vals, k))
            return default
    if isinstance(recv, SObj):
        if name == 'object.__init__':
            return None
        if name == 'object.__setattr__':
            recv.fields[args[0]] = args[1]
            return None
        if name == '__getattribute__':
            nm = args[0]
            if isinstance(nm, SStr):
                nm = simplify_value(nm)
            if isinstance(nm, SStr):
                # '_' + <symbolic name>: the variable store
                return interp.getitem(__import__('pyvc.interp', fromlist=['DictProxy']).DictProxy(recv), nm, node)
            return object_getattribute(interp, recv, nm, node)
    raise OutOfSubset(f'method {name!r} of {type(recv).__name__} (line {getattr_lineno(node)})')


def object_getattribute(interp, obj: SObj, name: str, node=None):
    """object.__getattribute__(obj, name): like normal lookup but without the __getattr__ fallback."""
    from .interp import _MISSING
    static = interp._static_attr(obj.cls, name)
    if isinstance(static, property):
        return interp.getattr_sobj(obj, name, node)
    if name in obj.fields:
        return obj.fields[name]
    if name.startswith('_') and obj.varstore is not None and name[1:] in builtins.getattr(obj, 'known_vars', ()):
        return obj.varstore.view(z3.StringVal(name[1:]))
    if static is not _MISSING:
        return interp.lookup_class_attr(obj, name, node=node)
    interp.raise_(AttributeError, name)


def str_method(interp, s: SStr, name, args, kwargs, node=None):
    ctx = interp.ctx
    if name in ('startswith', 'endswith'):
        p = args[0]
        f = z3.PrefixOf if name == 'startswith' else z3.SuffixOf
        if isinstance(p, tuple):
            return simplify_value(SBool(z3.Or(*[f(z3_of(x), s.e) for x in p])))
        return simplify_value(SBool(f(z3_of(p), s.e)))
    if name == 'lower' or name == 'upper':
        raise OutOfSubset(f'str.{name} on a symbolic string')
    raise OutOfSubset(f'str.{name} on a symbolic string (line {getattr_lineno(node)})')


def _dtype_kind(dt) -> str:
    if dt is float or dt is np.float64 or dt == np.dtype('float64'):
        return 'float'
    if dt is int or dt == np.dtype('int64'):
        return 'int'
    if dt is bool or dt == np.dtype('bool'):
        return 'bool'
    if dt is str or (isinstance(dt, np.dtype) and dt.kind == 'U'):
        return 'str'
    if isinstance(dt, str) and dt in ('float', 'int', 'bool', 'str'):
        return dt
    raise OutOfSubset(f'dtype {dt!r}')


# ---------------------------------------------------------------------------------------------
# item access
# ---------------------------------------------------------------------------------------------
def _index_term(idx):
    if isinstance(idx, (int, SInt, bool, SBool)) or kind_of(idx) == 'int':
        return V.to_int_term(idx)
    return None


def _bounds_fork(interp, arr, i, node, what='index'):
    """Python index check: -n <= i < n, else IndexError.  Returns the normalised index."""
    n = arr.length
    ok = z3.And(i >= -n, i < n)
    if not interp.ctx.decide(ok, f'{what}-in-range@L{getattr_lineno(node)}'):
        interp.ctx.use(A('python.index', 'indexing a sequence or 1-D array outside -n <= i < n raises IndexError'))
        interp.raise_(IndexError, f'{what}@L{getattr_lineno(node)}', real_args=('index out of range',))
    ctx = interp.ctx
    if not ctx._feasible(i < 0):
        return z3.simplify(i)
    if not ctx._feasible(i >= 0):
        return z3.simplify(i + n)
    return z3.simplify(norm_index(i, n))


def getitem(interp, obj, idx, node=None):
    from .interp import DictProxy
    ctx = interp.ctx
    if isinstance(obj, DictProxy):
        return dictproxy_get(interp, obj, idx, node)
    if isinstance(obj, (SArr, VarView, SSeq)):
        it = _index_term(idx)
        if it is not None:
            j = _bounds_fork(interp, obj, it, node)
            return simplify_value(obj.at(j))
        if isinstance(idx, slice):
            if idx.step is not None and not (not is_sym(idx.step) and idx.step == 1):
                return getitem_step_slice(interp, obj, idx, node)
            lo, hi = slice_bounds(None if idx.start is None else V.to_int_term(idx.start),
                                  None if idx.stop is None else V.to_int_term(idx.stop), obj.length)
            ln = z3.If(hi > lo, hi - lo, z3.IntVal(0))
            j = z3.Int('j!sl')
            data = z3.Lambda([j], z3.Select(obj.arr, lo + j))
            if isinstance(obj, SSeq):
                return SSeq(obj.kind, z3.simplify(ln), data, obj.elem_kind)
            return SArr(z3.simplify(ln), data, obj.dtype)
        raise OutOfSubset(f'index of type {type(idx).__name__} on an array')
    if isinstance(obj, SStr):
        raise OutOfSubset('indexing a symbolic string')
    if isinstance(obj, SDict):
        present = truth(contains(interp, obj.keys, idx, node))
        if not ctx.decide(present, f'key-present@L{getattr_lineno(node)}'):
            interp.raise_(KeyError, 'key')
        return wrap(z3.Select(obj.vals, z3_of(idx)))
    if isinstance(obj, dict):
        # real dict, symbolic key
        keys = list(obj.keys())
        for k in keys:
            r = compare(interp, 'Eq', k, idx, node)
            if ctx.decide(truth(r), f'dictkey=={k!r}'):
                return obj[k]
        interp.raise_(KeyError, 'key')
    if isinstance(obj, (list, tuple)):
        it = _index_term(idx)
        if it is None:
            raise OutOfSubset('symbolic slice of a concrete sequence')
        n = len(obj)
        for k in range(-n, n):
            if ctx.decide(it == k, f'listidx=={k}'):
                return obj[k]
        interp.raise_(IndexError, 'list index')
    raise OutOfSubset(f'subscript of {type(obj).__name__} (line {getattr_lineno(node)})')


def _const_step(step):
    if is_sym(step):
        st = simplify_value(step)
        if is_sym(st):
            raise OutOfSubset('slice with a symbolic step')
        step = st
    if not isinstance(step, int) or isinstance(step, bool) or step <= 0:
        raise OutOfSubset('slice with a non-positive or non-integer step')
    return step


def getitem_step_slice(interp, obj, idx, node):
    """a[lo:hi:s] for a concrete positive step (CPython slice.indices: same clamping as step 1): positions lo, lo+s, ... < hi."""
    st = _const_step(idx.step)
    lo, hi = slice_bounds(None if idx.start is None else V.to_int_term(idx.start), None if idx.stop is None else V.to_int_term(idx.stop), obj.length)
    ln = z3.If(hi > lo, (hi - lo + (st - 1)) / st, z3.IntVal(0))
    j = z3.Int('j!sl')
    data = z3.Lambda([j], z3.Select(obj.arr, lo + j * st))
    interp.ctx.use(A('python.slice.step', 'a[lo:hi:s] with s > 0 selects positions lo + k*s < hi after CPython clamping of lo and hi'))
    if isinstance(obj, SSeq):
        return SSeq(obj.kind, z3.simplify(ln), data, obj.elem_kind)
    return SArr(z3.simplify(ln), data, obj.dtype)


def coerce_elem(interp, arr, v, node=None):
    """Value stored into an array of dtype arr.dtype (NumPy casting of a scalar)."""
    k = kind_of(v)
    if arr.dtype == 'float':
        if k in ('float', 'int', 'bool'):
            return V.to_float_term(v)
    elif arr.dtype == 'int':
        if k in ('int', 'bool'):
            return V.to_int_term(v)
    elif arr.dtype == 'bool':
        if k == 'bool':
            return z3_of(v)
    elif arr.dtype == 'str':
        if k == 'str':
            return z3_of(v)
    raise OutOfSubset(f'storing a {k} into a {arr.dtype} array')


def setitem(interp, obj, idx, v, node=None):
    from .interp import DictProxy
    ctx = interp.ctx
    if isinstance(obj, DictProxy):
        return dictproxy_set(interp, obj, idx, v, node)
    if isinstance(obj, (SArr, VarView)):
        it = _index_term(idx)
        if it is not None:
            j = _bounds_fork(interp, obj, it, node, 'store-index')
            val = coerce_elem(interp, obj, v, node)
            hook = builtins.getattr(obj, 'on_store', None)
            if hook is not None:
                hook(j, val)
            obj.arr = z3.Store(obj.arr, j, val)
            return
        if isinstance(idx, slice):
            st = 1 if idx.step is None else _const_step(idx.step)
            lo, hi = slice_bounds(None if idx.start is None else V.to_int_term(idx.start),
                                  None if idx.stop is None else V.to_int_term(idx.stop), obj.length)
            j = z3.Int('j!ss')
            if st != 1:
                if isinstance(v, (SArr, VarView)):
                    raise OutOfSubset('stepped slice store of an array')
                val = coerce_elem(interp, obj, v, node)
                ctx.use(A('numpy.setitem.slice', 'a[lo:hi:s] = scalar writes exactly the positions of slice.indices and keeps shape and dtype'))
                obj.arr = z3.Lambda([j], z3.If(z3.And(lo <= j, j < hi, (j - lo) % st == 0), val, z3.Select(obj.arr, j)))
                return
            if isinstance(v, (SArr, VarView)):
                ln = z3.If(hi > lo, hi - lo, z3.IntVal(0))
                if not ctx.decide(z3.Or(v.length == ln, v.length == 1), f'slice-store-len@L{getattr_lineno(node)}'):
                    ctx.use(A('numpy.setitem.broadcast', 'a[lo:hi] = b raises ValueError before writing when b cannot broadcast'))
                    interp.raise_(ValueError, 'broadcast')
                src = z3.If(v.length == 1, z3.Select(v.arr, 0), z3.Select(v.arr, j - lo))
                obj.arr = z3.Lambda([j], z3.If(z3.And(lo <= j, j < hi), src, z3.Select(obj.arr, j)))
                return
            val = coerce_elem(interp, obj, v, node)
            ctx.use(A('numpy.setitem.slice', 'a[lo:hi] = scalar writes exactly the positions of slice.indices and keeps shape and dtype'))
            obj.arr = z3.Lambda([j], z3.If(z3.And(lo <= j, j < hi), val, z3.Select(obj.arr, j)))
            return
        if isinstance(idx, SArr) and idx.dtype == 'bool':
            ctx.use(A('numpy.setitem.mask', 'a[mask] = scalar writes exactly the positions where mask is True'))
            val = coerce_elem(interp, obj, v, node)
            j = z3.Int('j!ms')
            obj.arr = z3.Lambda([j], z3.If(z3.Select(idx.arr, j), val, z3.Select(obj.arr, j)))
            return
        raise OutOfSubset('array store with this index type')
    if isinstance(obj, SOptList):
        it = _index_term(idx)
        if it is None:
            raise OutOfSubset('slice store on a list')
        j = _bounds_fork(interp, obj, it, node, 'store-index')
        k = kind_of(v)
        if k == 'other':
            raise OutOfSubset('storing a non-scalar into a [None] * n list')
        if obj.arr is None:
            obj.elem_kind = k
            obj.arr = ctx.fresh('optlist', z3.ArraySort(INT, V._SORT_OF_KIND[k]))
        if k != obj.elem_kind:
            raise OutOfSubset('heterogeneous stores into a [None] * n list')
        obj.arr = z3.Store(obj.arr, j, z3_of(v))
        obj.isset = z3.Store(obj.isset, j, z3.BoolVal(True))
        return
    if isinstance(obj, SSeq):
        it = _index_term(idx)
        if it is None:
            raise OutOfSubset('slice store on a list')
        j = _bounds_fork(interp, obj, it, node, 'store-index')
        obj.arr = z3.Store(obj.arr, j, z3_of(v))
        return
    if isinstance(obj, (list, dict)) and not is_sym(idx):
        obj[idx] = v
        return
    raise OutOfSubset(f'item store on {type(obj).__name__} (line {getattr_lineno(node)})')


# ---- obj.__dict__ of a symbolic object -----------------------------------------------------------
def _split_key(key):
    """('field', name) for a concrete key, ('var', name term) for '_' + <symbolic name>."""
    if isinstance(key, str):
        return 'field', key
    if isinstance(key, SStr):
        if key.is_concrete():
            return 'field', key.concrete()
        p = key.parts
        if len(p) == 2 and p[0] == ('c', '_') and p[1][0] == 's':
            return 'var', p[1][1]
    raise OutOfSubset(f'__dict__ key of unsupported form: {key!r}')


def dictproxy_get(interp, dp, key, node=None):
    obj = dp.obj
    kind, k = _split_key(key)
    if kind == 'field':
        if k in obj.fields:
            return obj.fields[k]
        if k.startswith('_') and obj.varstore is not None and k[1:] in builtins.getattr(obj, 'known_vars', ()):
            return obj.varstore.view(z3.StringVal(k[1:]))
        interp.raise_(KeyError, f'__dict__[{k!r}]')
    if obj.varstore is None:
        raise OutOfSubset('object has no variable store')
    # the name must denote a float variable of the store, not one of the separately modelled variables (wf precondition)
    guard = builtins.getattr(obj, 'var_guard_obligation', None)
    if guard is not None:
        interp.ctx.prove(guard(k), 'variable-name-is-a-store-variable', 'safety', line=getattr_lineno(node) if isinstance(getattr_lineno(node), int) else 0)
    return obj.varstore.view(k)


def dictproxy_set(interp, dp, key, v, node=None):
    obj = dp.obj
    kind, k = _split_key(key)
    if kind == 'field':
        obj.fields[k] = v
        return
    raise OutOfSubset('rebinding a variable of the store through __dict__')


# ---------------------------------------------------------------------------------------------
# comprehension over a symbolic iterable
# ---------------------------------------------------------------------------------------------
def symbolic_comprehension(interp, e, g, sub, it):
    ctx = interp.ctx
    if g.ifs:
        raise OutOfSubset('filtered comprehension over a symbolic-length iterable')
    count, element = symbolic_iter(interp, it)
    j = ctx.fresh('j!comp', INT)
    with ctx_scope(ctx):
        ctx.assume(z3.And(j >= 0, j < count))
        ctx.in_lambda += 1
        try:
            interp.assign(g.target, element(j), sub)
            val = interp.eval(e.elt, sub)
        finally:
            ctx.in_lambda -= 1
    k = kind_of(val)
    if k == 'other':
        raise OutOfSubset('comprehension over a symbolic iterable with non-scalar elements')
    term = z3_of(val)
    jj = z3.Int('jj!comp')
    data = z3.Lambda([jj], z3.substitute(term, (j, jj)))
    return SSeq('list', count, data, k)


def symbolic_dictcomp(interp, e, fr, it):
    raise OutOfSubset('dict comprehension over a symbolic iterable')


class ctx_scope:
    """Temporary assumptions (bound-variable hypotheses): restored on exit."""

    def __init__(self, ctx):
        self.ctx = ctx

    def __enter__(self):
        self.n = len(self.ctx.pc)
        self.ctx._solver.push()

    def __exit__(self, *a):
        del self.ctx.pc[self.n:]
        self.ctx._solver.pop()
        return False


# ---------------------------------------------------------------------------------------------
# models of real callables (looked up by identity)
# ---------------------------------------------------------------------------------------------
_MODELS: Dict[Any, Callable] = {}


def model(*funcs, always=False):
    def deco(f):
        f.always = always
        for fn in funcs:
            _MODELS[fn] = f
        return f
    return deco


_PASSTHROUGH_METHODS = {
    (list, 'append'), (list, 'extend'), (list, 'insert'), (list, 'copy'), (list, 'pop'), (list, 'reverse'),
    (dict, 'update'), (dict, 'items'), (dict, 'keys'), (dict, 'values'), (dict, 'copy'), (dict, 'setdefault'),
    (dict, 'pop'),
}


def lookup(func):
    try:
        m = _MODELS.get(func)
    except TypeError:
        m = None
    if m is not None:
        return m
    slf = builtins.getattr(func, '__self__', None)
    nm = builtins.getattr(func, '__name__', None)
    if slf is not None and not isinstance(slf, type) and nm:
        for t, mn in _PASSTHROUGH_METHODS:
            if isinstance(slf, t) and mn == nm:
                def passthrough(interp, args, kwargs, node, func=func, nm=nm, slf=slf):
                    if nm in ('pop', 'setdefault') and args and is_sym(args[0]):
                        raise OutOfSubset(f'{nm} with a symbolic key')
                    return func(*args, **kwargs)
                return passthrough
        if isinstance(slf, dict) and nm == 'get':
            return lambda interp, args, kwargs, node, d=slf: model_dict_get(interp, d, args, node)
        if isinstance(slf, (list, tuple)) and nm == 'index':
            return lambda interp, args, kwargs, node, s=slf: model_list_index(interp, s, args, node)
        if isinstance(slf, str) and nm == 'join':
            return lambda interp, args, kwargs, node, s=slf: model_str_join(interp, s, args, node)
        if isinstance(slf, str) and nm == 'format':
            return lambda interp, args, kwargs, node, s=slf: model_str_format(interp, s, args, kwargs, node)
    return None


def model_dict_get(interp, d: dict, args, node):
    key = args[0]
    default = args[1] if len(args) > 1 else None
    if not is_sym(key):
        return d.get(key, default)
    for k in d:
        r = compare(interp, 'Eq', k, key, node)
        if interp.ctx.decide(truth(r), f'dict.get=={k!r}'):
            return d[k]
    return default


def model_list_index(interp, s, args, node):
    x = args[0]
    for i, y in enumerate(s):
        r = compare(interp, 'Eq', y, x, node)
        if interp.ctx.decide(truth(r), f'index=={i}'):
            return i
    interp.raise_(ValueError, 'index')


def model_str_join(interp, sep: str, args, node):
    items = concrete_iter(interp, args[0])
    if items is None:
        raise OutOfSubset('join over a symbolic-length iterable')
    parts = []
    for i, x in enumerate(items):
        if i:
            parts.append(('c', sep))
        parts.extend(sstr(x).parts)
    return simplify_value(SStr(parts))


def model_str_format(interp, tmpl: str, args, kwargs, node):
    """str.format for templates whose fields are plain '{}' / '{name}' (no specs); '{{' '}}' literals."""
    import string
    parts = []
    auto = 0
    for lit, field, spec, conv in string.Formatter().parse(tmpl):
        if lit:
            parts.append(('c', lit))
        if field is None:
            continue
        if spec or conv:
            raise OutOfSubset('format spec in str.format with symbolic arguments')
        if field == '':
            v = args[auto]
            auto += 1
        elif field.isdigit():
            v = args[int(field)]
        else:
            v = kwargs[field]
        if isinstance(v, (list, tuple)):
            if any(is_sym(x) for x in v):
                parts.extend(repr_list_parts(interp, v))
            else:
                parts.append(('c', str(v)))
        else:
            parts.extend(str_parts(interp, v))
    return simplify_value(SStr(parts))


def repr_list_parts(interp, v):
    """str(list of strings): "['a', 'b']" assuming element strings contain no quote or backslash (assumption)."""
    interp.ctx.use(A('python.repr.str', "repr of an identifier-like str is the str in single quotes"))
    out = [('c', '[' if isinstance(v, list) else '(')]
    for i, x in enumerate(v):
        if i:
            out.append(('c', ', '))
        if isinstance(x, (str, SStr)):
            out.append(('c', "'"))
            out.extend(sstr(x).parts)
            out.append(('c', "'"))
        else:
            out.extend(str_parts(interp, x))
    out.append(('c', ']' if isinstance(v, list) else ')'))
    return out


@model(len)
def model_len(interp, args, kwargs, node):
    x = args[0]
    if isinstance(x, (SSeq, SArr, VarView)):
        return simplify_value(SInt(x.length))
    if isinstance(x, SStr):
        return simplify_value(SInt(z3.Length(x.e)))
    if isinstance(x, SRange):
        return simplify_value(SInt(x.count))
    if isinstance(x, SDict):
        return simplify_value(SInt(x.keys.length))
    if isinstance(x, (SGenSeq, SOptList)):
        return simplify_value(SInt(x.length))
    if isinstance(x, SObj):
        from .interp import _MISSING, BoundMethod
        from .extract import from_real
        ln_m = interp._static_attr(x.cls, '__len__')
        if ln_m is not _MISSING and from_real(ln_m) is not None:
            return interp.call(BoundMethod(x, from_real(ln_m)), [], {}, node)
        ln = builtins.getattr(x, 'length', None)
        if ln is not None:
            return simplify_value(SInt(ln))
        raise OutOfSubset(f'len of {x!r}')
    if isinstance(x, Sym):
        raise OutOfSubset(f'len of {type(x).__name__}')
    return len(x)


@model(range)
def model_range(interp, args, kwargs, node):
    if any(kind_of(a) not in ('int', 'bool') for a in args):
        interp.raise_(TypeError, 'range() of a non-integer')
    if len(args) == 1:
        return SRange(0, args[0])
    if len(args) == 2:
        return SRange(args[0], args[1])
    return SRange(args[0], args[1], args[2])


@model(enumerate)
def model_enumerate(interp, args, kwargs, node):
    return SEnumerate(args[0], kwargs.get('start', args[1] if len(args) > 1 else 0))


@model(zip)
def model_zip(interp, args, kwargs, node):
    return SZip(list(args))


@model(tuple)
def model_tuple(interp, args, kwargs, node):
    if not args:
        return ()
    items = concrete_iter(interp, args[0])
    if items is None:
        raise OutOfSubset('tuple() of a symbolic-length iterable')
    return tuple(items)


@model(list)
def model_list(interp, args, kwargs, node):
    if not args:
        return []
    x = args[0]
    items = concrete_iter(interp, x)
    if items is not None:
        return list(items)
    if isinstance(x, SSeq):
        return SSeq('list', x.length, x.arr, x.elem_kind)
    if isinstance(x, SDictView) and x.which == 'keys':
        return SSeq('list', x.d.keys.length, x.d.keys.arr, x.d.keys.elem_kind)
    if isinstance(x, (SZip, SEnumerate, SRange, SGenSeq, SDictView)):
        c, el = symbolic_iter(interp, x)
        return SGenSeq(c, el)
    raise OutOfSubset(f'list() of {type(x).__name__}')


def _minmax(interp, args, kwargs, is_max):
    if len(args) == 1:
        items = concrete_iter(interp, args[0])
        if items is None:
            raise OutOfSubset('min/max over a symbolic-length iterable')
        args = list(items)
        if not args:
            interp.raise_(ValueError, 'empty min/max')
    cur = args[0]
    for x in args[1:]:
        # CPython: max keeps the first maximal element (replace only if x > cur); min replaces only if x < cur
        c = compare(interp, 'Gt' if is_max else 'Lt', x, cur, node=None)
        if isinstance(c, bool):
            cur = x if c else cur
        else:
            k = 'float' if 'float' in (kind_of(x), kind_of(cur)) else kind_of(cur)
            if k == 'float':
                cur = SFloat(z3.If(c.e, V.to_float_term(x), V.to_float_term(cur)))
            else:
                cur = simplify_value(SInt(z3.If(c.e, V.to_int_term(x), V.to_int_term(cur))))
    return cur


@model(max)
def model_max(interp, args, kwargs, node):
    return _minmax(interp, args, kwargs, True)


@model(min)
def model_min(interp, args, kwargs, node):
    return _minmax(interp, args, kwargs, False)


@model(abs)
def model_abs(interp, args, kwargs, node):
    x = args[0]
    if isinstance(x, SFloat):
        return SFloat(z3.fpAbs(x.e))
    if isinstance(x, (SInt, SBool)):
        e = V.to_int_term(x)
        return simplify_value(SInt(z3.If(e >= 0, e, -e)))
    if isinstance(x, (SArr, VarView)):
        return model_np_abs(interp, args, kwargs, node)
    raise OutOfSubset('abs')


@model(str)
def model_str(interp, args, kwargs, node):
    return simplify_value(SStr(str_parts(interp, args[0])))


@model(bool)
def model_bool(interp, args, kwargs, node):
    t = truth(args[0])
    return t if isinstance(t, bool) else simplify_value(SBool(t))


@model(int)
def model_int(interp, args, kwargs, node):
    x = args[0]
    if isinstance(x, (SInt, SBool)):
        return simplify_value(SInt(V.to_int_term(x)))
    raise OutOfSubset(f'int() of {type(x).__name__}')


@model(float)
def model_float(interp, args, kwargs, node):
    return SFloat(V.to_float_term(args[0]))


def sym_isinstance(interp, v, cls) -> Any:
    """isinstance for symbolic values; cls is a real class or tuple of classes."""
    if isinstance(cls, tuple):
        for c in cls:
            r = sym_isinstance(interp, v, c)
            if r:
                return True
        return False
    if isinstance(v, SBool):
        return cls in (bool, int, object) or cls is np.bool_ and False
    if isinstance(v, SInt):
        return cls in (int, object)
    if isinstance(v, SFloat):
        return cls in (float, object)
    if isinstance(v, SStr):
        return cls in (str, object) or cls is _Sequence or builtins.getattr(cls, '__name__', '') in ('Sequence', 'Hashable')
    if isinstance(v, SSeq):
        real = list if v.kind == 'list' else tuple
        return issubclass(real, cls) if isinstance(cls, type) else False
    if isinstance(v, (SArr, VarView)):
        return cls in (np.ndarray, object)
    if isinstance(v, SObj):
        return issubclass(v.cls, cls)
    if isinstance(v, SRange):
        return issubclass(range, cls)
    if isinstance(v, SExc):
        if v.cls is ANY_EXCEPTION:
            if cls in (Exception, BaseException, object):
                return True
            raise OutOfSubset('isinstance of an unknown exception')
        return issubclass(v.cls, cls)
    if isinstance(v, (SDict,)):
        return issubclass(dict, cls)
    raise OutOfSubset(f'isinstance on {type(v).__name__}')


@model(isinstance)
def model_isinstance(interp, args, kwargs, node):
    v, cls = args
    if not isinstance(v, Sym):
        return isinstance(v, cls)
    return sym_isinstance(interp, v, cls)


@model(type)
def model_type(interp, args, kwargs, node):
    v = args[0]
    if isinstance(v, SBool):
        return bool
    if isinstance(v, SInt):
        return int
    if isinstance(v, SFloat):
        return float
    if isinstance(v, SStr):
        return str
    if isinstance(v, SObj):
        return v.cls
    if isinstance(v, SSeq):
        return list if v.kind == 'list' else tuple
    if isinstance(v, SExc) and v.cls is not ANY_EXCEPTION:
        return v.cls
    raise OutOfSubset(f'type() of {type(v).__name__}')


@model(hasattr)
def model_hasattr(interp, args, kwargs, node):
    from .interp import PyRaise
    try:
        interp.getattr(args[0], args[1], node)
        return True
    except PyRaise as pr:
        from .interp import exc_class
        if exc_class(pr.exc) is AttributeError:
            return False
        raise


@model(iter)
def model_iter(interp, args, kwargs, node):
    x = args[0]
    items = concrete_iter(interp, x)
    if items is None:
        raise OutOfSubset('iter() of a symbolic-length iterable')
    return iter(items) if not hasattr(items, '__next__') else items


@model(next)
def model_next(interp, args, kwargs, node):
    try:
        return next(*args)
    except StopIteration as ex:
        from .interp import PyRaise
        raise PyRaise(ex)


@model(all)
def model_all(interp, args, kwargs, node):
    items = concrete_iter(interp, args[0])
    if items is None:
        raise OutOfSubset('all() over a symbolic-length iterable')
    terms = []
    for x in items:
        t = truth(x)
        if isinstance(t, bool):
            if not t:
                return False
        else:
            terms.append(t)
    if not terms:
        return True
    return simplify_value(SBool(z3.And(*terms)))


@model(any)
def model_any(interp, args, kwargs, node):
    items = concrete_iter(interp, args[0])
    if items is None:
        raise OutOfSubset('any() over a symbolic-length iterable')
    terms = []
    for x in items:
        t = truth(x)
        if isinstance(t, bool):
            if t:
                return True
        else:
            terms.append(t)
    if not terms:
        return False
    return simplify_value(SBool(z3.Or(*terms)))


# ---- numpy ----------------------------------------------------------------------------------------
def _as_sarr(interp, x, dtype=None) -> SArr:
    if isinstance(x, VarView):
        return SArr(x.length, x.arr, 'float')
    if isinstance(x, SArr):
        return x
    if isinstance(x, SSeq):
        return SArr(x.length, x.arr, x.elem_kind)
    if isinstance(x, (list, tuple)):
        kinds = {kind_of(v) for v in x}
        if 'other' in kinds:
            raise OutOfSubset('np.array of a nested / non-scalar sequence')
        k = dtype or ('float' if 'float' in kinds else ('int' if 'int' in kinds else ('bool' if kinds == {'bool'} else 'str')))
        if not x:
            k = dtype or 'float'
        srt = V._SORT_OF_KIND[k]
        arr = z3.K(INT, {'float': z3.FPVal(0.0, F64), 'int': z3.IntVal(0), 'bool': z3.BoolVal(False), 'str': z3.StringVal('')}[k])
        for i, v in enumerate(x):
            t = V.to_float_term(v) if k == 'float' else (V.to_int_term(v) if k == 'int' else z3_of(v))
            arr = z3.Store(arr, i, t)
        return SArr(len(x), arr, k)
    raise OutOfSubset(f'array from {type(x).__name__}')


@model(np.array, np.asarray)
def model_np_array(interp, args, kwargs, node):
    interp.ctx.use(A('numpy.array.1d', 'np.array(sequence of n scalars) is a fresh 1-D array of length n holding those scalars'))
    dt = kwargs.get('dtype')
    a = _as_sarr(interp, args[0], _dtype_kind(dt) if dt is not None else None)
    return SArr(a.length, a.arr, a.dtype)


@model(np.full)
def model_np_full(interp, args, kwargs, node):
    interp.ctx.use(A('numpy.full', 'np.full(n, v[, dtype]) is a fresh 1-D array of n copies of v'))
    n, v = args[0], args[1]
    dt = kwargs.get('dtype', args[2] if len(args) > 2 else None)
    k = _dtype_kind(dt) if dt is not None else kind_of(v)
    tmp = SArr(V.to_int_term(n), None, k)
    if v is None and k == 'float':
        v = float('nan')        # np.full(n, None, dtype=float) is an array of NaN
    val = coerce_elem(interp, tmp, v, node)
    return SArr(V.to_int_term(n), z3.K(INT, val), k)


def _finite(x):
    return z3.Not(z3.Or(z3.fpIsInf(x), z3.fpIsNaN(x)))


@model(np.isfinite)
def model_np_isfinite(interp, args, kwargs, node):
    interp.ctx.use(A('numpy.isfinite', 'np.isfinite is element-wise "neither infinity nor NaN" on float64'))
    x = args[0]
    if isinstance(x, SFloat):
        return simplify_value(SBool(_finite(x.e)))
    a = _as_sarr(interp, x)
    if a.dtype != 'float':
        raise OutOfSubset('isfinite on a non-float array')
    return a.map(_finite, 'bool', tag=('isfinite', a))


@model(np.isnan)
def model_np_isnan(interp, args, kwargs, node):
    x = args[0]
    if isinstance(x, SFloat):
        return simplify_value(SBool(z3.fpIsNaN(x.e)))
    return _as_sarr(interp, x).map(lambda t: z3.fpIsNaN(t), 'bool')


@model(np.abs, np.absolute)
def model_np_abs(interp, args, kwargs, node):
    x = args[0]
    if isinstance(x, SFloat):
        return SFloat(z3.fpAbs(x.e))
    a = _as_sarr(interp, x)
    if a.dtype == 'float':
        return a.map(lambda t: z3.fpAbs(t), 'float', tag=('abs', a))
    return a.map(lambda t: z3.If(t >= 0, t, -t), a.dtype)


def _vector_fact(interp, a: SArr, is_all: bool):
    """Recognise any(~isfinite(v)) and all(abs(u - v) < tol): return the named vector-level fact (its defining
    instance is assumed at the same time, so nothing is lost and nothing beyond the NumPy contracts is assumed)."""
    ctx = interp.ctx
    tag = a.tag
    if not is_all and tag and tag[0] == 'not':
        inner = tag[1].tag
        if inner and inner[0] == 'isfinite' and inner[1].dtype == 'float':
            v = inner[1]
            ctx.assume(V.all_finite_def(v.arr, v.length))
            return SBool(z3.Not(V.ALL_FINITE(v.arr, v.length)))
    if is_all and tag and tag[0] == 'isfinite' and tag[1].dtype == 'float':
        v = tag[1]
        ctx.assume(V.all_finite_def(v.arr, v.length))
        return SBool(V.ALL_FINITE(v.arr, v.length))
    if is_all and tag and tag[0] == 'cmp' and tag[1] == 'Lt' and isinstance(tag[2], SArr) and not isinstance(tag[3], SArr) \
            and kind_of(tag[3]) == 'float':
        ab = tag[2].tag
        if ab and ab[0] == 'abs':
            d = ab[1].tag
            if d and d[0] == 'bin' and d[1] == 'Sub' and isinstance(d[2], SArr) and isinstance(d[3], SArr) \
                    and d[2].dtype == 'float' and d[3].dtype == 'float':
                u, v, tol = d[2], d[3], z3_of(tag[3])
                ctx.assume(V.all_close_def(u.arr, v.arr, u.length, tol))
                return SBool(V.ALL_CLOSE(u.arr, v.arr, u.length, tol))
    return None


def _quant(interp, a: SArr, is_all: bool):
    n = _concrete_len(a.length)
    if n is not None and n <= 8:
        terms = [z3.Select(a.arr, i) for i in range(n)]
        if not terms:
            return is_all
        return simplify_value(SBool((z3.And if is_all else z3.Or)(*terms)))
    fact = _vector_fact(interp, a, is_all)
    if fact is not None:
        return fact
    # name the quantified fact so that the SAT core can split on it without opening the definition
    b = interp.ctx.fresh('all' if is_all else 'any', BOOL)
    if is_all:
        interp.ctx.assume(b == V.forall_range(0, a.length, lambda i: z3.Select(a.arr, i), 'all'))
    else:
        interp.ctx.assume(b == V.exists_range(0, a.length, lambda i: z3.Select(a.arr, i), 'any'))
    return SBool(b)


@model(np.copy)
def model_np_copy(interp, args, kwargs, node):
    # np.copy(a) is a.copy() (other spellings of the same NumPy operation are modelled alongside the one the library uses today, so that
    # an equivalent respelling in the source stays inside the encoded subset)
    x = args[0]
    if isinstance(x, (SArr, VarView)) or builtins.getattr(x, '__class__', None).__name__ == 'SND':
        return call_method(interp, x, 'copy', [], {}, node)
    raise OutOfSubset('np.copy of a non-array')


@model(np.logical_not)
def model_np_logical_not(interp, args, kwargs, node):
    x = args[0]
    if isinstance(x, SBool):
        return SBool(z3.Not(x.e))
    a = _as_sarr(interp, x)
    if a.dtype != 'bool':
        raise OutOfSubset('np.logical_not on a non-boolean array')
    return a.map(lambda t: z3.Not(t), 'bool', tag=('not', a))


@model(np.any)
def model_np_any(interp, args, kwargs, node):
    interp.ctx.use(A('numpy.any_all', 'np.any / np.all of a 1-D boolean array are the bounded existential / universal over its elements'))
    x = args[0]
    if isinstance(x, (SBool, bool)):
        return x
    a = _as_sarr(interp, x)
    if a.dtype != 'bool':
        raise OutOfSubset('np.any on a non-boolean array')
    return _quant(interp, a, False)


@model(np.all)
def model_np_all(interp, args, kwargs, node):
    interp.ctx.use(A('numpy.any_all', 'np.any / np.all of a 1-D boolean array are the bounded existential / universal over its elements'))
    x = args[0]
    if isinstance(x, (SBool, bool)):
        return x
    a = _as_sarr(interp, x)
    if a.dtype != 'bool':
        raise OutOfSubset('np.all on a non-boolean array')
    return _quant(interp, a, True)


ROLLSRC = z3.Function('np_roll_source', INT, INT, INT, INT)   # (i, p, n) -> source index


@model(np.roll)
def model_np_roll(interp, args, kwargs, node):
    """Deliberately weak: positions whose source i - p lies inside the array hold x[i - p]; every other
    position holds *some* element of x (the wrap-around is not specified further)."""
    ctx = interp.ctx
    ctx.use(A('numpy.roll', 'np.roll(x, p) is a fresh array of the same length and dtype with roll[i] == x[i - p] '
                            'wherever 0 <= i - p < n (other positions hold some element of x)'))
    x = _as_sarr(interp, args[0])
    p = V.to_int_term(kwargs.get('shift', args[1] if len(args) > 1 else None))
    n = x.length
    i = z3.Int('i!roll')
    src = ROLLSRC(i, p, n)
    ctx.assume(z3.ForAll([i], z3.Implies(z3.And(0 <= i, i < n),
                                         z3.And(0 <= src, src < n,
                                                z3.Implies(z3.And(0 <= i - p, i - p < n), src == i - p)))))
    return SArr(n, z3.Lambda([i], z3.Select(x.arr, src)), x.dtype)


@model(_copy.deepcopy, _copy.copy)
def model_deepcopy(interp, args, kwargs, node):
    interp.ctx.use(A('copy.deepcopy', 'copy.deepcopy(x) returns a value equal to x that shares no mutable object with x'))
    x = args[0]
    return deep_copy_value(interp, x)


def deep_copy_value(interp, x):
    if isinstance(x, (SArr, VarView)):
        return SArr(x.length, x.arr, x.dtype, prov='fresh')
    if isinstance(x, SSeq):
        return SSeq(x.kind, x.length, x.arr, x.elem_kind, prov='fresh')
    if isinstance(x, (SInt, SBool, SFloat, SStr)):
        return x
    if isinstance(x, dict):
        return {k: deep_copy_value(interp, v) for k, v in x.items()}
    if isinstance(x, list):
        return [deep_copy_value(interp, v) for v in x]
    if isinstance(x, tuple):
        return tuple(deep_copy_value(interp, v) for v in x)
    if isinstance(x, Sym):
        raise OutOfSubset(f'deepcopy of {type(x).__name__}')
    return _copy.deepcopy(x)


# ---- warnings ---------------------------------------------------------------------------------------
class CatchWarnings:
    """Model of warnings.catch_warnings(): saves and restores the ghost filter state `wfilter`."""

    def __init__(self, record):
        self.record = record

    def vc_enter(self, interp):
        self.saved = interp.ctx.ghost.get('wfilter', 'default')
        return [] if self.record else None

    def vc_exit(self, interp, exc):
        interp.ctx.ghost['wfilter'] = self.saved
        return False


@model(_warnings.catch_warnings, always=True)
def model_catch_warnings(interp, args, kwargs, node):
    interp.ctx.use(A('warnings.catch_warnings', 'catch_warnings() restores the previous filters on exit; inside the block, '
                                              "simplefilter('error') turns a warning raised by a statement into an exception raised instead of completing it"))
    return CatchWarnings(kwargs.get('record', False))


@model(_warnings.simplefilter, always=True)
def model_simplefilter(interp, args, kwargs, node):
    # the filter in force: the action for *every* warning category, or the action restricted to one category (which is a different filter:
    # warnings of other categories keep the default action)
    cat = kwargs.get('category', args[1] if len(args) > 1 else Warning)
    interp.ctx.ghost['wfilter'] = args[0] if cat is Warning else f'{args[0]}:{builtins.getattr(cat, "__name__", cat)}-only'
    return None


UF_INDENT = z3.Function('textwrap_indent', STR, STR, STR)


import textwrap as _textwrap


@model(_textwrap.indent)
def model_textwrap_indent(interp, args, kwargs, node):
    interp.ctx.use(A('textwrap.indent', 'textwrap.indent(text, prefix) is a function of its two arguments only'))
    return SStr(UF_INDENT(z3_of(args[0]), z3_of(args[1])))


def construct(interp, cls, args, kwargs, node=None):
    """Instantiate a class defined under the repository with symbolic arguments: a symbolic object whose
    __init__ is interpreted from source; NamedTuple classes become field records."""
    from .extract import from_real
    from .interp import _MISSING
    if issubclass(cls, tuple) and hasattr(cls, '_fields'):
        names = list(cls._fields)
        vals = dict(zip(names, args))
        vals.update(kwargs)
        defaults = builtins.getattr(cls, '_field_defaults', {})
        for nme in names:
            if nme not in vals:
                if nme in defaults:
                    vals[nme] = defaults[nme]
                else:
                    interp.raise_(TypeError, f'missing field {nme}')
        return SObj(cls, vals, label=cls.__name__)
    init = interp._static_attr(cls, '__init__')
    if init is _MISSING or from_real(init) is None:
        return NotImplemented
    from .interp import BoundMethod
    obj = SObj(cls, {}, label=cls.__name__)
    interp.call(BoundMethod(obj, from_real(init)), list(args), kwargs, node)
    return obj


# ---------------------------------------------------------------------------------------------
# opaque n-dimensional arrays (shape/dtype algebra only; contents are not modelled) - used by the container contracts (C09)
# ---------------------------------------------------------------------------------------------
ARROBJ = z3.DeclareSort('ndarray')
ND_NDIM = z3.Function('ndim', ARROBJ, INT)
ND_LEN0 = z3.Function('shape0', ARROBJ, INT)
ND_SIZE = z3.Function('size', ARROBJ, INT)
ND_DTYPE = z3.Function('dtype', ARROBJ, INT)
ND_OWNED = z3.Function('owns_its_memory', ARROBJ, BOOL)      # ghost: the array shares its buffer with no array that existed before it was made


class SDType(Sym):
    """A NumPy dtype as an uninterpreted integer code."""

    def __init__(self, e):
        self.e = e


class SeqVal(Sym):
    """An arbitrary Python sequence (list / tuple / range, possibly nested): only its length is known."""

    def __init__(self, length):
        self.length = length


class SND(Sym):
    """An ndarray whose shape/dtype algebra is modelled through uninterpreted functions of an opaque object."""
    mutable = True

    def __init__(self, obj):
        self.obj = obj

    @property
    def length(self):
        return ND_LEN0(self.obj)


def fresh_nd(interp, name, *, ndim=None, len0=None, dtype=None, size=None, owned=True) -> SND:
    ctx = interp.ctx
    o = ctx.fresh(name, ARROBJ)
    if owned:
        ctx.assume(ND_OWNED(o))
    ctx.assume(z3.And(ND_NDIM(o) >= 1, ND_LEN0(o) >= 0, ND_SIZE(o) >= 0, z3.Implies(ND_NDIM(o) == 1, ND_SIZE(o) == ND_LEN0(o))))
    if ndim is not None:
        ctx.assume(ND_NDIM(o) == ndim)
    if len0 is not None:
        ctx.assume(ND_LEN0(o) == len0)
    if dtype is not None:
        ctx.assume(ND_DTYPE(o) == dtype)
    if size is not None:
        ctx.assume(ND_SIZE(o) == size)
    return SND(o)


_orig_np_array = _MODELS[np.array]


def _np_array_nd(interp, args, kwargs, node):
    x = args[0]
    if isinstance(x, SeqVal):
        # deliberately weak (DESIGN section 5): np.array(sequence) has shape[0] == len(sequence) and ndim >= 1; nothing else is promised
        interp.ctx.use(A('numpy.array.weak', 'np.array(seq[, dtype]) is a fresh array with shape[0] == len(seq) and ndim >= 1 (ndim not otherwise constrained); '
                                             'it raises ValueError/TypeError when the elements cannot be converted'))
        if interp.ctx.choose(2, 'np.array-raises') == 1:
            interp.raise_(ValueError, 'np.array')
        dt = kwargs.get('dtype')
        return fresh_nd(interp, 'np.array', len0=x.length, dtype=dt.e if isinstance(dt, SDType) else None)
    return _orig_np_array(interp, args, kwargs, node)


_np_array_nd.always = False
_MODELS[np.array] = _np_array_nd

_orig_np_full = _MODELS[np.full]


def _np_full_nd(interp, args, kwargs, node):
    n, v = args[0], args[1]
    dt = kwargs.get('dtype', args[2] if len(args) > 2 else None)
    if isinstance(v, (SND, SeqVal)) or isinstance(dt, SDType) or isinstance(v, Sym) and not isinstance(v, (SInt, SFloat, SBool, SStr)):
        interp.ctx.use(A('numpy.full.weak', 'np.full(n, v[, dtype]) is a fresh 1-D array of length n (dtype as given), or raises ValueError when v cannot be broadcast'))
        if isinstance(v, (SND, SeqVal)) and interp.ctx.choose(2, 'np.full-raises') == 1:
            interp.raise_(ValueError, 'np.full')
        return fresh_nd(interp, 'np.full', ndim=1, len0=V.to_int_term(n), dtype=dt.e if isinstance(dt, SDType) else None)
    if isinstance(v, (SInt, SFloat, SBool, SStr)) and builtins.getattr(interp.ctx, 'nd_mode', False):
        return fresh_nd(interp, 'np.full', ndim=1, len0=V.to_int_term(n), dtype=dt.e if isinstance(dt, SDType) else None)
    return _orig_np_full(interp, args, kwargs, node)


_MODELS[np.full] = _np_full_nd

_orig_getattr = getattr


def getattr(interp, obj, name, node=None):     # noqa: F811 - extends the attribute table above with SND / SDType
    from .interp import SymMethod
    if isinstance(obj, SND):
        if name == 'shape':
            return _NDShape(obj)
        if name == 'ndim':
            return simplify_value(SInt(ND_NDIM(obj.obj)))
        if name == 'size':
            return simplify_value(SInt(ND_SIZE(obj.obj)))
        if name == 'dtype':
            return SDType(ND_DTYPE(obj.obj))
        if name in ('flatten', 'astype', 'copy', 'ravel', 'reshape', 'view', 'squeeze'):
            return SymMethod(obj, name)
    return _orig_getattr(interp, obj, name, node)


class _NDShape(Sym):
    def __init__(self, nd):
        self.nd = nd


_orig_getitem = getitem


def getitem(interp, obj, idx, node=None):      # noqa: F811
    if isinstance(obj, _NDShape):
        if not is_sym(idx) and idx == 0:
            return simplify_value(SInt(ND_LEN0(obj.nd.obj)))
        raise OutOfSubset('shape[k] for k != 0 of an opaque array')
    return _orig_getitem(interp, obj, idx, node)


_orig_setitem = setitem
INPLACE = z3.Function('assigned_in_place', ARROBJ, INT, ARROBJ)     # (array, assignment id) -> array after an in-place assignment


def setitem(interp, obj, idx, v, node=None):   # noqa: F811
    from .interp import DictProxy
    if isinstance(obj, SND):
        ctx = interp.ctx
        ctx.use(A('numpy.setitem.inplace', 'in-place item / slice assignment keeps shape and dtype of the array and raises (ValueError/TypeError) '
                                           'before writing anything when the value cannot be broadcast or converted'))
        if isinstance(v, (SND, SeqVal, SStr, str)) and ctx.choose(2, 'inplace-assignment-raises') == 1:
            interp.raise_(ValueError, 'inplace')
        k = ctx.fresh('assign', INT)
        new = INPLACE(obj.obj, k)
        ctx.assume(z3.And(ND_NDIM(new) == ND_NDIM(obj.obj), ND_LEN0(new) == ND_LEN0(obj.obj), ND_DTYPE(new) == ND_DTYPE(obj.obj), ND_SIZE(new) == ND_SIZE(obj.obj),
                          ND_OWNED(new) == ND_OWNED(obj.obj)))
        owner = builtins.getattr(obj, 'owner', None)
        obj.obj = new
        if owner is not None:
            owner[0].rebind(owner[1], new)
        return
    if isinstance(obj, DictProxy):
        kind, k = _split_key(idx)
        if kind == 'var' and builtins.getattr(obj.obj, 'ndstore', None) is not None:
            if not isinstance(v, SND):
                raise OutOfSubset('binding a non-array under "_" + name')
            obj.obj.ndstore.rebind(k, v.obj)
            return
    return _orig_setitem(interp, obj, idx, v, node)


_orig_call_method = call_method


def call_method(interp, recv, name, args, kwargs, node=None):   # noqa: F811
    if isinstance(recv, SND):
        if name == 'flatten':
            interp.ctx.use(A('numpy.flatten.nd', 'flatten() returns a fresh 1-D array with as many elements as the array, same dtype'))
            return fresh_nd(interp, 'flatten', ndim=1, len0=ND_SIZE(recv.obj), dtype=ND_DTYPE(recv.obj))
        if name == 'astype':
            interp.ctx.use(A('numpy.astype.nd', 'astype(dtype) returns a fresh array of the same shape with the given dtype, or raises ValueError/TypeError'))
            if interp.ctx.choose(2, 'astype-raises') == 1:
                interp.raise_(ValueError, 'astype')
            dt = args[0] if args else kwargs.get('dtype')
            cp = kwargs.get('copy', True)
            # astype(..., copy=False) may hand back the array itself (or a view) when no conversion is needed: no ownership promised
            r = fresh_nd(interp, 'astype', ndim=ND_NDIM(recv.obj), len0=ND_LEN0(recv.obj), size=ND_SIZE(recv.obj), dtype=dt.e if isinstance(dt, SDType) else None,
                         owned=(cp is True))
            return r
        if name in ('ravel', 'view', 'squeeze') or (name == 'reshape'):
            interp.ctx.use(A('numpy.views.nd', 'ravel()/reshape()/view()/squeeze() return an array with the same elements and dtype that may share memory with the original'))
            one_d = name == 'ravel' or (name == 'reshape' and len(args) == 1 and not is_sym(args[0]) and args[0] == -1)
            return fresh_nd(interp, name, ndim=1 if one_d else None, len0=ND_SIZE(recv.obj) if one_d else None, size=ND_SIZE(recv.obj), dtype=ND_DTYPE(recv.obj), owned=False)
        if name == 'copy':
            return fresh_nd(interp, 'copy', ndim=ND_NDIM(recv.obj), len0=ND_LEN0(recv.obj), size=ND_SIZE(recv.obj), dtype=ND_DTYPE(recv.obj))
    return _orig_call_method(interp, recv, name, args, kwargs, node)


class NDStore:
    """name -> opaque array object, for the `__dict__['_' + name]` family of a container (C09)."""

    def __init__(self, data):
        self.data = data      # z3 Array String -> ndarray

    def get(self, name_term):
        return z3.Select(self.data, name_term)

    def rebind(self, name_term, obj):
        self.data = z3.Store(self.data, name_term, obj)


_orig_dictproxy_get = dictproxy_get


def dictproxy_get(interp, dp, key, node=None):   # noqa: F811
    nds = builtins.getattr(dp.obj, 'ndstore', None)
    if nds is not None:
        kind, k = _split_key(key)
        if kind == 'var' or (kind == 'field' and k.startswith('_') and k not in dp.obj.fields and k[1:] in builtins.getattr(dp.obj, 'nd_names', ())):
            term = k if kind == 'var' else z3.StringVal(k[1:])
            r = SND(nds.get(term))
            r.owner = (nds, term)
            return r
    return _orig_dictproxy_get(interp, dp, key, node)


_orig_sym_isinstance = sym_isinstance


def sym_isinstance(interp, v, cls):   # noqa: F811
    if isinstance(v, SeqVal):
        if isinstance(cls, tuple):
            return any(sym_isinstance(interp, v, c) for c in cls)
        return cls in (_Sequence, object) or builtins.getattr(cls, '__name__', '') == 'Sequence'
    if isinstance(v, SND):
        if isinstance(cls, tuple):
            return any(sym_isinstance(interp, v, c) for c in cls)
        return cls in (np.ndarray, object)
    if type(v).__name__ == 'OpaqueMutable':
        if isinstance(cls, tuple):
            return any(sym_isinstance(interp, v, c) for c in cls)
        return cls is object
    return _orig_sym_isinstance(interp, v, cls)


def _isinstance_model(interp, args, kwargs, node):
    v, cls = args
    if not isinstance(v, Sym):
        return isinstance(v, cls)
    return sym_isinstance(interp, v, cls)


_MODELS[isinstance] = _isinstance_model


# ---------------------------------------------------------------------------------------------
# obj.__dict__ as a mapping (items / update / keys / get) and deep copies of symbolic objects (C11)
# ---------------------------------------------------------------------------------------------
class OpaqueMutable(Sym):
    """A mutable value of unknown type stored in an attribute (e.g. a user attribute): only its ownership is tracked."""
    mutable = True

    def __init__(self, token):
        self.token = token


_elem_tokens = itertools.count(1)


def _dictproxy_attr(interp, dp, name, node=None):
    from .interp import SymMethod
    if name in ('items', 'update', 'keys', 'values', 'get'):
        return SymMethod(dp, name)
    raise OutOfSubset(f'__dict__.{name}')


_orig_deep = deep_copy_value


def deep_copy_value(interp, x):      # noqa: F811
    from .interp import BoundMethod, _MISSING
    from .extract import from_real
    if isinstance(x, SArr) and x.dtype == 'obj':
        r = SArr(x.length, x.arr, 'obj', prov='fresh')
        r.elem_owner = next(_elem_tokens)             # deepcopy copies the elements too
        return r
    if isinstance(x, OpaqueMutable):
        return OpaqueMutable(next(_elem_tokens))
    if isinstance(x, SObj):
        dc = interp._static_attr(x.cls, '__deepcopy__')
        if dc is not _MISSING and from_real(dc) is not None:
            return interp.call(BoundMethod(x, from_real(dc)), [{}], {}, None)
        return SObj(x.cls, {k: deep_copy_value(interp, v) for k, v in x.fields.items()}, label=x.label + "'")
    return _orig_deep(interp, x)


_cm2 = call_method


def call_method(interp, recv, name, args, kwargs, node=None):   # noqa: F811
    from .interp import DictProxy
    if isinstance(recv, DictProxy):
        f = recv.obj.fields
        if name == 'items':
            return list(f.items())
        if name == 'keys':
            return list(f.keys())
        if name == 'values':
            return list(f.values())
        if name == 'get':
            return f.get(args[0], args[1] if len(args) > 1 else None)
        if name == 'update':
            other = args[0]
            if isinstance(other, DictProxy):
                other = other.obj.fields
            f.update(other)
            f.update(kwargs)
            return None
    if isinstance(recv, SArr) and recv.dtype == 'obj' and name == 'copy':
        r = SArr(recv.length, recv.arr, 'obj', prov='fresh')
        r.elem_owner = builtins.getattr(recv, 'elem_owner', 0)      # ndarray.copy() of an object array is shallow: elements are shared
        return r
    return _cm2(interp, recv, name, args, kwargs, node)


_MODELS[_copy.deepcopy] = lambda interp, args, kwargs, node: (interp.ctx.use(A('copy.deepcopy', 'copy.deepcopy(x) returns a value equal to x that shares no mutable object with x')), deep_copy_value(interp, args[0]))[1]
_MODELS[_copy.copy] = _MODELS[_copy.deepcopy]


class SymDict(Sym):
    """An insertion-ordered mapping whose keys may be symbolic strings: an ordered list of (key, value) pairs."""
    mutable = True

    def __init__(self, pairs):
        self.pairs = list(pairs)


class SDataFrame(Sym):
    """What fsic hands to pandas.DataFrame: ordered columns (name, data) and the index object (the table itself is pandas' business)."""
    mutable = True

    def __init__(self, columns, index):
        self.columns = list(columns)
        self.index = index


def _install_pandas_models():
    try:
        import pandas as pd
    except ImportError:      # pragma: no cover
        return

    def model_dataframe(interp, args, kwargs, node):
        interp.ctx.use(A('pandas.DataFrame', 'DataFrame(mapping, index=span) has one column per key in insertion order holding that value, indexed by `index`'))
        data = args[0] if args else kwargs.get('data')
        if isinstance(data, SymDict):
            cols = list(data.pairs)
        elif isinstance(data, dict):
            cols = list(data.items())
        elif isinstance(data, list) and all(isinstance(r, dict) for r in data) and len(args) <= 1 and not (set(kwargs) - {'data'}):
            # DataFrame(list of records): one row per record in list order, one column per key (pandas' business: dtypes, missing values)
            interp.ctx.use(A('pandas.DataFrame.records', 'DataFrame(list of mappings) has one row per mapping in list order and one column per key in first-seen order'))
            df = SDataFrame([], None)
            df.records = [dict(r) for r in data]
            df.owns_data = True
            return df
        else:
            raise OutOfSubset('DataFrame of a non-mapping')
        df = SDataFrame(cols, kwargs.get('index'))
        # ownership: DataFrame(dict of arrays) copies the arrays unless told otherwise (pandas default copy=None means copy for dict input)
        cp = kwargs.get('copy', None)
        df.owns_data = cp is None or cp is True
        return df
    _MODELS[pd.DataFrame] = model_dataframe


_install_pandas_models()

_si3 = setitem


def setitem(interp, obj, idx, v, node=None):   # noqa: F811
    if isinstance(obj, SDataFrame):
        interp.ctx.use(A('pandas.DataFrame.setitem', "df[name] = series appends a column (or replaces the column of that name)"))
        for i, (k, _) in enumerate(obj.columns):
            if not is_sym(k) and not is_sym(idx) and k == idx:
                obj.columns[i] = (k, v)
                return
        obj.columns.append((idx, v))
        return
    return _si3(interp, obj, idx, v, node)


# ---------------------------------------------------------------------------------------------
# str() of symbolic objects with a __str__ under the repository; structural str.strip
# ---------------------------------------------------------------------------------------------
_ms0 = _MODELS[str]


def _model_str2(interp, args, kwargs, node):
    from .interp import BoundMethod, _MISSING
    from .extract import from_real
    x = args[0] if args else ''
    if isinstance(x, SObj):
        m = interp._static_attr(x.cls, '__str__')
        if m is not _MISSING and from_real(m) is not None:
            return interp.call(BoundMethod(x, from_real(m)), [], {}, node)
        raise OutOfSubset(f'str() of {x!r}')
    return _ms0(interp, args, kwargs, node)


_MODELS[str] = _model_str2

_sm0 = str_method


def str_method(interp, s, name, args, kwargs, node=None):   # noqa: F811
    if name == 'strip' and args and isinstance(args[0], str) and args[0]:
        chars = args[0]
        interp.ctx.use(A('str.strip', 'str.strip(chars) removes leading and trailing characters that are in chars'))
        parts = [list(p) for p in s.parts]
        for side in (0, -1):
            while parts:
                p = parts[side]
                if p[0] == 'c':
                    t = p[1].lstrip(chars) if side == 0 else p[1].rstrip(chars)
                    if t:
                        p[1] = t
                        break
                    parts.pop(side)
                    continue
                if p[0] == 's':
                    f = z3.PrefixOf if side == 0 else z3.SuffixOf
                    edge = z3.Or(*[f(z3.StringVal(c), p[1]) for c in chars], z3.Length(p[1]) == 0)
                    # the symbolic part must not begin/end with a stripped character (else the result is not structural): a safety obligation
                    interp.ctx.prove(z3.Not(edge), 'strip_stops_at_the_symbolic_fragment', 'safety')
                    break
                break
        return simplify_value(SStr([tuple(p) for p in parts]))
    return _sm0(interp, s, name, args, kwargs, node)


# ---------------------------------------------------------------------------------------------
# NamedTuple records, structural string slices, int() of structured text, str.split on '='
# ---------------------------------------------------------------------------------------------
_cm3 = call_method
IS_INT_LITERAL = z3.Function('is_int_literal', STR, BOOL)
INT_OF_TEXT = z3.Function('int_of_text', STR, INT)


def call_method(interp, recv, name, args, kwargs, node=None):   # noqa: F811
    if isinstance(recv, SObj) and name == '_replace':
        f = dict(recv.fields)
        f.update(kwargs)
        return SObj(recv.cls, f, label=recv.label)
    if isinstance(recv, SObj) and name == '_asdict':
        order = builtins.getattr(recv.cls, '_fields', None)       # a NamedTuple's _asdict() lists the fields in declaration order
        if order is not None and set(order) == set(recv.fields):
            return {k: recv.fields[k] for k in order}
        return dict(recv.fields)
    if isinstance(recv, SStr) and name == 'split' and args and args[0] == '=' and kwargs.get('maxsplit', args[1] if len(args) > 1 else None) == 1:
        ctx = interp.ctx
        ctx.use(A('str.split', "s.split('=', maxsplit=1) returns [left, right] with s == left + '=' + right and no '=' in left, or [s] when s has no '='"))
        has = z3.Contains(recv.e, z3.StringVal('='))
        if not ctx.decide(has, 'split-has-equals'):
            return [recv]
        left, right = ctx.fresh('left', STR), ctx.fresh('right', STR)
        ctx.assume(z3.And(recv.e == z3.Concat(left, z3.StringVal('='), right), z3.Not(z3.Contains(left, z3.StringVal('=')))))
        return [SStr(left), SStr(right)]
    return _cm3(interp, recv, name, args, kwargs, node)


_gi3 = getitem


def getitem(interp, obj, idx, node=None):      # noqa: F811
    if isinstance(obj, SStr) and isinstance(idx, slice) and idx.start == 1 and idx.stop == -1 and idx.step is None:
        p = [list(x) for x in obj.parts]
        if len(p) >= 2 and p[0][0] == 'c' and p[-1][0] == 'c' and len(p[0][1]) >= 1 and len(p[-1][1]) >= 1:
            p[0][1] = p[0][1][1:]
            p[-1][1] = p[-1][1][:-1]
            return simplify_value(SStr([tuple(x) for x in p]))
        raise OutOfSubset('s[1:-1] of a string without constant first and last characters')
    return _gi3(interp, obj, idx, node)


_mi0 = _MODELS[int]


def _model_int2(interp, args, kwargs, node):
    x = args[0] if args else 0
    if isinstance(x, SStr):
        ctx = interp.ctx
        ctx.use(A('python.int.str', "int(text) accepts an optional sign followed by decimal digits (value = that integer) and raises ValueError for text that is not an integer literal"))
        p = x.parts
        # structured text: optional constant sign, then str(m) of a non-negative integer
        if len(p) in (1, 2) and p[-1][0] == 'i' and (len(p) == 1 or (p[0][0] == 'c' and p[0][1] in ('+', '-'))):
            m = p[-1][1]
            ctx.prove(m >= 0, 'int()_of_sign_and_digits:digits_are_a_non_negative_number', 'safety')
            return simplify_value(SInt(-m if len(p) == 2 and p[0][1] == '-' else m))
        if not ctx.decide(IS_INT_LITERAL(x.e), f'int()-of-text@L{getattr_lineno(node)}'):
            interp.raise_(ValueError, 'int()', real_args=('invalid literal',))
        return SInt(INT_OF_TEXT(x.e))
    return _mi0(interp, args, kwargs, node)


_MODELS[int] = _model_int2


@model(filter)
def model_filter(interp, args, kwargs, node):
    fn, it = args
    items = concrete_iter(interp, it)
    if items is None:
        raise OutOfSubset('filter over a symbolic-length iterable')
    out = []
    for x in items:
        r = interp.call(fn, [x], {}, node) if fn is not None else x
        if interp.ctx.decide(truth(r), 'filter-predicate'):
            out.append(x)
    return out


@model(map)
def model_map(interp, args, kwargs, node):
    fn = args[0]
    cols = [concrete_iter(interp, a) for a in args[1:]]
    if any(c is None for c in cols):
        raise OutOfSubset('map over a symbolic-length iterable')
    return [interp.call(fn, list(xs), {}, node) for xs in zip(*[list(c) for c in cols])]


# ---------------------------------------------------------------------------------------------
# getattr(<real class>, <symbolic name>[, default]): which attribute of the class a name denotes is decided by the name
# ---------------------------------------------------------------------------------------------
class SClassAttr(Sym):
    """The attribute `name` of a real class (or `default` when the class has none), for a symbolic name: only its kind can be asked for."""

    def __init__(self, cls, name_term, default):
        self.cls, self.name_term, self.default = cls, name_term, default

    def names_where(self, pred):
        import inspect as _inspect
        return sorted(n for n in dir(self.cls) if pred(_inspect.getattr_static(self.cls, n)))


def _model_getattr(interp, args, kwargs, node):
    obj, name = args[0], args[1]
    if isinstance(obj, type) and isinstance(name, SStr):
        interp.ctx.use(A('python.getattr.class', 'getattr(cls, name, default) returns the class attribute of that name found along the method resolution order, else the default'))
        return SClassAttr(obj, z3_of(name), args[2] if len(args) > 2 else None)
    if not contains_sym_shallow(args):
        return builtins.getattr(*args)
    if isinstance(name, str):
        return interp.getattr(obj, name, node)
    raise OutOfSubset('getattr with a symbolic name on a non-class')


def contains_sym_shallow(xs):
    return any(isinstance(x, Sym) for x in xs)


_model_getattr.always = False
_MODELS[builtins.getattr] = _model_getattr

_si_prev = sym_isinstance


def sym_isinstance(interp, v, cls):   # noqa: F811
    if isinstance(v, SClassAttr):
        classes = cls if isinstance(cls, tuple) else (cls,)
        names = v.names_where(lambda a: isinstance(a, classes))
        hit = z3.Or(*[v.name_term == z3.StringVal(n) for n in names]) if names else z3.BoolVal(False)
        # (when the class has no such attribute the default is what isinstance sees)
        has = z3.Or(*[v.name_term == z3.StringVal(n) for n in dir(v.cls)])
        dflt = isinstance(v.default, classes) if not isinstance(v.default, Sym) else False
        return simplify_value(SBool(z3.If(has, hit, z3.BoolVal(bool(dflt)))))
    return _si_prev(interp, v, cls)
