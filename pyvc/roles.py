"""Names and statements of a function under contract, found by the ROLE they play in its ast (not by spelling or position), so that loop
contracts and invariants keep applying after harmless edits (renamed locals, an added statement, a reordered pair of independent
statements).  Every helper is a pure function of the function's ast as extracted on this run."""
from __future__ import annotations

import ast
from typing import Callable, List, Optional


def _calls(node) -> List[ast.Call]:
    return [n for n in ast.walk(node) if isinstance(n, ast.Call)]


def callee_name(call: ast.Call) -> Optional[str]:
    f = call.func
    if isinstance(f, ast.Attribute):
        return f.attr
    if isinstance(f, ast.Name):
        return f.id
    return None


def body_calls(name: str) -> Callable[[ast.stmt], bool]:
    """Predicate: the loop's body calls something named `name` (method or function)."""
    def pred(st) -> bool:
        return any(callee_name(c) == name for s_ in st.body for c in _calls(s_))
    pred.__name__ = f'body_calls_{name}'
    return pred


def for_without_call(name: str) -> Callable[[ast.stmt], bool]:
    def pred(st) -> bool:
        return isinstance(st, ast.For) and not any(callee_name(c) == name for s_ in st.body for c in _calls(s_))
    pred.__name__ = f'for_without_call_{name}'
    return pred


def assigned_from_call(fn, name: str, default: Optional[str] = None) -> Optional[str]:
    """The local that receives the result of the first `x = name(...)` / `x = obj.name(...)` (source order)."""
    best = None
    for n in ast.walk(fn):
        if isinstance(n, ast.Assign) and isinstance(n.value, ast.Call) and callee_name(n.value) == name and len(n.targets) == 1 \
                and isinstance(n.targets[0], ast.Name):
            if best is None or (n.lineno, n.col_offset) < (best.lineno, best.col_offset):
                best = n
    return best.targets[0].id if best is not None else default


def stored_into_self_series(fn, attr: str, default: Optional[str] = None) -> Optional[str]:
    """The local written by `self.<attr>[...] = <local>` (last such statement in source order)."""
    best = None
    for n in ast.walk(fn):
        if isinstance(n, ast.Assign) and len(n.targets) == 1 and isinstance(n.targets[0], ast.Subscript) and isinstance(n.value, ast.Name):
            v = n.targets[0].value
            if isinstance(v, ast.Attribute) and v.attr == attr and isinstance(v.value, ast.Name) and v.value.id == 'self':
                if best is None or n.lineno > best.lineno:
                    best = n
    return best.value.id if best is not None else default


def returned_names(fn) -> Optional[List[str]]:
    """Names of the last `return a, b, c` of the function (None when it does not return a tuple of plain locals)."""
    rets = [n for n in ast.walk(fn) if isinstance(n, ast.Return) and isinstance(n.value, ast.Tuple) and all(isinstance(e, ast.Name) for e in n.value.elts)]
    if not rets:
        return None
    r = max(rets, key=lambda n: n.lineno)
    return [e.id for e in r.value.elts]


def iter_source_name(st: ast.For) -> Optional[str]:
    """`for ... in enumerate(x)` / `for ... in x`: the local x."""
    it = st.iter
    if isinstance(it, ast.Call) and callee_name(it) == 'enumerate' and it.args:
        it = it.args[0]
    return it.id if isinstance(it, ast.Name) else None
