"""Obligation discharge.

Phase 1 (proof): validity of hyps => goal; the negation goes to z3 configured for refutation only
(E-matching, MBQI off).  `unsat` = discharged.  Anything else = open.
Phase 1b: open obligations are retried with default z3 (MBQI on); a definite `sat` = failed, with a model.
Cross-check (thorough): the SMT-LIB2 dump of the same query is given to /usr/bin/z3 (4.8.12) and /usr/bin/cvc5;
an unsat/sat disagreement between solvers is a checker failure.
"""
from __future__ import annotations

import os
import subprocess
import tempfile
import time
from typing import Any, Dict, List, Optional

import z3

from .ctx import Obligation


def _solver(mbqi: bool, timeout_ms: int) -> z3.Solver:
    s = z3.Solver()
    s.set('timeout', timeout_ms)
    if not mbqi:
        s.set('auto_config', False)
        s.set('smt.mbqi', False)
    return s


def model_inputs(model, inputs: Dict[str, Any]) -> Dict[str, str]:
    out = {}
    for name, term in (inputs or {}).items():
        try:
            out[name] = str(model.eval(term, model_completion=True))
        except z3.Z3Exception:
            out[name] = '?'
    return out


class _Watchdog:
    """z3's soft timeout is not honoured by every tactic: interrupt the context from a timer thread as a hard stop."""

    def __init__(self, seconds: float):
        import threading
        self.t = threading.Timer(seconds, lambda: z3.main_ctx().interrupt())
        self.t.daemon = True

    def __enter__(self):
        self.t.start()

    def __exit__(self, *a):
        self.t.cancel()
        return False


def _check(s: z3.Solver, budget_ms: int):
    try:
        with _Watchdog(budget_ms / 1000.0 + 2.0):
            return s.check()
    except z3.Z3Exception:
        return z3.unknown


def discharge(ob: Obligation, *, budget_ms: int = 5000, inputs: Optional[Dict[str, Any]] = None,
              want_smt2: bool = False, try_mbqi: bool = True) -> Obligation:
    t0 = time.time()
    s = _solver(False, budget_ms)
    s.add(*ob.hyps)
    s.add(z3.Not(ob.goal))
    r = _check(s, budget_ms)
    if r == z3.unsat:
        ob.status, ob.backend = 'discharged', 'z3-5.1 (e-matching)'
    elif not try_mbqi:
        ob.status, ob.backend = 'undecided', f'z3-5.1 {r} (e-matching only)'
    else:
        s2 = _solver(True, budget_ms)
        s2.add(*ob.hyps)
        s2.add(z3.Not(ob.goal))
        r2 = _check(s2, budget_ms)
        if r2 == z3.unsat:
            ob.status, ob.backend = 'discharged', 'z3-5.1 (mbqi)'
        elif r2 == z3.sat:
            ob.status, ob.backend = 'failed', 'z3-5.1 (mbqi) sat'
            try:
                m = s2.model()
                ob.model = str(model_inputs(m, inputs)) if inputs else str(m)[:2000]
                ob.model_values = model_inputs(m, inputs) if inputs else {}
            except z3.Z3Exception:
                ob.model = None
        elif r == z3.sat:
            # e-matching said sat: with quantifiers this is not definite; without it is
            from .ctx import has_quantifier
            if not any(has_quantifier(h) for h in ob.hyps) and not has_quantifier(ob.goal):
                ob.status, ob.backend = 'failed', 'z3-5.1 sat (quantifier-free)'
                m = s.model()
                ob.model = str(model_inputs(m, inputs)) if inputs else str(m)[:2000]
                ob.model_values = model_inputs(m, inputs) if inputs else {}
            else:
                ob.status, ob.backend = 'undecided', f'z3-5.1 {r}/{r2}'
        else:
            ob.status, ob.backend = 'undecided', f'z3-5.1 {r}/{r2} (timeout or incomplete)'
    if want_smt2 or ob.status != 'discharged':
        try:
            s3 = z3.Solver()
            s3.add(*ob.hyps)
            s3.add(z3.Not(ob.goal))
            ob.smt2 = s3.to_smt2()
        except z3.Z3Exception:
            ob.smt2 = None
    ob.seconds = time.time() - t0
    return ob


def cross_check(ob: Obligation, *, timeout_s: int = 20) -> Dict[str, str]:
    """Run the SMT-LIB2 dump through the other installed solvers.  Returns {solver: verdict}."""
    smt2 = getattr(ob, 'smt2', None)
    if not smt2:
        return {}
    out = {}
    with tempfile.NamedTemporaryFile('w', suffix='.smt2', delete=False, dir=os.environ.get('VERIF_SCRATCH', None)) as f:
        f.write(smt2)
        path = f.name
    try:
        for name, cmd in (('z3-4.8.12', ['/usr/bin/z3', f'-T:{timeout_s}', path]),
                          ('cvc5-1.0.3', ['/usr/bin/cvc5', '--strings-exp', f'--tlimit={timeout_s * 1000}', path])):
            try:
                p = subprocess.run(cmd, capture_output=True, text=True, timeout=timeout_s + 5)
                first = (p.stdout.strip().splitlines() or ['?'])[0]
                out[name] = first if first in ('sat', 'unsat', 'unknown') else 'n/a'
            except (subprocess.TimeoutExpired, OSError):
                out[name] = 'timeout'
    finally:
        os.unlink(path)
    return out
