"""Symbolic value domain.

Concrete Python values stay concrete; a value becomes symbolic only when it depends on a symbolic
input.  Every class here is a thin wrapper around z3 terms; the Python-level structure (parts of a
string, length + element array of a sequence) is kept so that common questions are answered
structurally and cheaply, falling back to the solver otherwise.

Semantics assumed (DESIGN 3.2): int = mathematical Int; float = IEEE binary64, RNE; str = sequence
of code points; NumPy float64 arithmetic is IEEE binary64 RNE.
"""
from __future__ import annotations

import itertools
from typing import Any, Callable, Dict, List, Optional, Tuple

import z3

from .ctx import Ctx, OutOfSubset, PathEnd

F64 = z3.Float64()
RNE = z3.RNE()
STR = z3.StringSort()
INT = z3.IntSort()
BOOL = z3.BoolSort()


class Sym:
    """Base class of symbolic values."""
    mutable = False


# ---------------------------------------------------------------------------------------------
# scalars
# ---------------------------------------------------------------------------------------------
class SBool(Sym):
    __slots__ = ('e',)

    def __init__(self, e):
        self.e = e if not isinstance(e, bool) else z3.BoolVal(e)

    def __repr__(self):
        return f'SBool({self.e})'


class SInt(Sym):
    __slots__ = ('e',)

    def __init__(self, e):
        self.e = e if not isinstance(e, int) else z3.IntVal(e)

    def __repr__(self):
        return f'SInt({self.e})'


class SFloat(Sym):
    __slots__ = ('e',)

    def __init__(self, e):
        self.e = e if not isinstance(e, float) else z3.FPVal(e, F64)

    def __repr__(self):
        return f'SFloat({self.e})'


class SStr(Sym):
    """A string as a list of parts: ('c', python str) | ('s', z3 String term) | ('i', z3 Int term, rendered as str(int))."""
    __slots__ = ('parts',)

    def __init__(self, parts):
        if isinstance(parts, str):
            parts = [('c', parts)]
        elif z3.is_expr(parts):
            parts = [('s', parts)]
        # merge adjacent constants
        out: List[Tuple] = []
        for p in parts:
            if p[0] == 'c':
                if p[1] == '':
                    continue
                if out and out[-1][0] == 'c':
                    out[-1] = ('c', out[-1][1] + p[1])
                    continue
            out.append(p)
        self.parts = out

    @property
    def e(self):
        terms = []
        for p in self.parts:
            if p[0] == 'c':
                terms.append(z3.StringVal(p[1]))
            elif p[0] == 's':
                terms.append(p[1])
            else:
                terms.append(int_to_str(p[1]))
        if not terms:
            return z3.StringVal('')
        if len(terms) == 1:
            return terms[0]
        return z3.Concat(*terms)

    def is_concrete(self):
        return all(p[0] == 'c' for p in self.parts)

    def concrete(self) -> str:
        return ''.join(p[1] for p in self.parts)

    def __repr__(self):
        return f'SStr({self.parts})'


def int_to_str(k):
    """Python str(int): '-' + decimal for negatives (z3's int.to.str gives '' for negatives)."""
    return z3.If(k >= 0, z3.IntToStr(k), z3.Concat(z3.StringVal('-'), z3.IntToStr(-k)))


# ---------------------------------------------------------------------------------------------
# lifting
# ---------------------------------------------------------------------------------------------
def is_sym(v) -> bool:
    return isinstance(v, Sym)


def z3_of(v):
    """z3 term of a scalar value (concrete or symbolic)."""
    if isinstance(v, (SBool, SInt, SFloat)):
        return v.e
    if isinstance(v, SStr):
        return v.e
    if isinstance(v, bool):
        return z3.BoolVal(v)
    if isinstance(v, int):
        return z3.IntVal(v)
    if isinstance(v, float):
        return z3.FPVal(v, F64)
    if isinstance(v, str):
        return z3.StringVal(v)
    try:
        import numpy as np
        if isinstance(v, np.floating):
            return z3.FPVal(float(v), F64)
        if isinstance(v, np.integer):
            return z3.IntVal(int(v))
        if isinstance(v, np.bool_):
            return z3.BoolVal(bool(v))
        if isinstance(v, np.str_):
            return z3.StringVal(str(v))
    except ImportError:  # pragma: no cover
        pass
    raise OutOfSubset(f'no z3 term for value of type {type(v).__name__}')


def wrap(e):
    """Wrap a z3 term in the value class of its sort."""
    s = e.sort()
    if s == BOOL:
        return SBool(e)
    if s == INT:
        return SInt(e)
    if s == F64:
        return SFloat(e)
    if s == STR:
        return SStr(e)
    raise OutOfSubset(f'no value class for sort {s}')


def simplify_value(v):
    """Turn a symbolic scalar whose term is a literal back into a concrete Python value."""
    if isinstance(v, SBool):
        e = z3.simplify(v.e)
        if z3.is_true(e):
            return True
        if z3.is_false(e):
            return False
        return SBool(e)
    if isinstance(v, SInt):
        e = z3.simplify(v.e)
        if z3.is_int_value(e):
            return e.as_long()
        return SInt(e)
    if isinstance(v, SStr) and v.is_concrete():
        return v.concrete()
    return v


def kind_of(v) -> str:
    if isinstance(v, (bool, SBool)):
        return 'bool'
    if isinstance(v, (int, SInt)):
        return 'int'
    if isinstance(v, (float, SFloat)):
        return 'float'
    if isinstance(v, (str, SStr)):
        return 'str'
    try:
        import numpy as np
        if isinstance(v, np.bool_):
            return 'bool'
        if isinstance(v, np.integer):
            return 'int'
        if isinstance(v, np.floating):
            return 'float'
        if isinstance(v, np.str_):
            return 'str'
    except ImportError:  # pragma: no cover
        pass
    return 'other'


def to_float_term(v):
    k = kind_of(v)
    if k == 'float':
        return z3_of(v)
    if k in ('int', 'bool'):
        if not is_sym(v):
            return z3.FPVal(float(v), F64)
        e = z3_of(v)
        if k == 'bool':
            return z3.If(e, z3.FPVal(1.0, F64), z3.FPVal(0.0, F64))
        return z3.fpToFP(RNE, z3.ToReal(e), F64)
    raise OutOfSubset(f'cannot convert {k} to float')


def to_int_term(v):
    k = kind_of(v)
    if k == 'int':
        return z3_of(v)
    if k == 'bool':
        if not is_sym(v):
            return z3.IntVal(int(v))
        return z3.If(v.e, z3.IntVal(1), z3.IntVal(0))
    raise OutOfSubset(f'cannot use {k} as int')


def sstr(v) -> SStr:
    if isinstance(v, SStr):
        return v
    if isinstance(v, str):
        return SStr(v)
    raise OutOfSubset(f'not a string: {type(v).__name__}')


# ---------------------------------------------------------------------------------------------
# operators
# ---------------------------------------------------------------------------------------------
def truth(v):
    """Python truthiness as a Python bool or a z3 Bool."""
    if isinstance(v, SBool):
        return v.e
    if isinstance(v, SInt):
        return v.e != 0
    if isinstance(v, SFloat):
        return z3.Not(z3.fpIsZero(v.e))
    if isinstance(v, SStr):
        if v.is_concrete():
            return bool(v.concrete())
        if any(p[0] == 'c' or p[0] == 'i' for p in v.parts):
            return True
        return z3.Length(v.e) > 0
    if isinstance(v, (SSeq, SArr)):
        if isinstance(v, SArr):
            raise OutOfSubset('truth value of an array')
        return v.length > 0
    if isinstance(v, SObj):
        if issubclass(v.cls, tuple):
            return len(getattr(v.cls, '_fields', ())) > 0
        if not any('__bool__' in c.__dict__ or '__len__' in c.__dict__ for c in v.cls.__mro__):
            return True
    if isinstance(v, Sym):
        raise OutOfSubset(f'truth of {type(v).__name__}')
    return bool(v)


_CMP = {
    'Lt': lambda a, b: a < b, 'LtE': lambda a, b: a <= b, 'Gt': lambda a, b: a > b, 'GtE': lambda a, b: a >= b,
    'Eq': lambda a, b: a == b, 'NotEq': lambda a, b: a != b,
}
_FCMP = {
    'Lt': z3.fpLT, 'LtE': z3.fpLEQ, 'Gt': z3.fpGT, 'GtE': z3.fpGEQ, 'Eq': z3.fpEQ,
    'NotEq': lambda a, b: z3.Not(z3.fpEQ(a, b)),
}


def compare(op: str, a, b):
    """Scalar comparison; returns Python bool, SBool, or (for arrays) an SArr of bools."""
    if isinstance(a, SArr) or isinstance(b, SArr):
        return arr_elementwise(lambda x, y: _scalar_compare_term(op, x, y), a, b, 'bool', tag=('cmp', op, a, b))
    if not is_sym(a) and not is_sym(b):
        return _CMP[op](a, b)
    return simplify_value(SBool(_scalar_compare_term(op, a, b)))


def _scalar_compare_term(op, a, b):
    ka, kb = kind_of(a), kind_of(b)
    if 'other' in (ka, kb):
        if op in ('Eq', 'NotEq') and (a is None or b is None):
            # None compared with a scalar: never equal
            return z3.BoolVal(op == 'NotEq')
        raise OutOfSubset(f'comparison {op} on {type(a).__name__}, {type(b).__name__}')
    if ka == 'str' or kb == 'str':
        if ka != kb:
            if op == 'Eq':
                return z3.BoolVal(False)
            if op == 'NotEq':
                return z3.BoolVal(True)
            raise OutOfSubset('ordering of str with non-str')
        if op == 'Eq':
            return z3_of(a) == z3_of(b)
        if op == 'NotEq':
            return z3_of(a) != z3_of(b)
        raise OutOfSubset('string ordering')
    if ka == 'float' or kb == 'float':
        return _FCMP[op](to_float_term(a), to_float_term(b))
    return _CMP[op](to_int_term(a), to_int_term(b))


def binop(op: str, a, b):
    if isinstance(a, SArr) or isinstance(b, SArr):
        ka = a.dtype if isinstance(a, SArr) else kind_of(a)
        kb = b.dtype if isinstance(b, SArr) else kind_of(b)
        rk = 'float' if 'float' in (ka, kb) or op == 'Div' else ka
        return arr_elementwise(lambda x, y: _scalar_binop_term(op, x, y), a, b, rk, tag=('bin', op, a, b))
    if not is_sym(a) and not is_sym(b):
        import operator
        return {'Add': operator.add, 'Sub': operator.sub, 'Mult': operator.mul, 'Div': operator.truediv,
                'FloorDiv': operator.floordiv, 'Mod': operator.mod, 'Pow': operator.pow,
                'BitAnd': operator.and_, 'BitOr': operator.or_, 'BitXor': operator.xor}[op](a, b)
    ka, kb = kind_of(a), kind_of(b)
    if ka == 'str' and kb == 'str' and op == 'Add':
        return simplify_value(SStr(sstr(a).parts + sstr(b).parts))
    if 'other' in (ka, kb) or 'str' in (ka, kb):
        raise OutOfSubset(f'binary {op} on {type(a).__name__}, {type(b).__name__}')
    return simplify_value(wrap(_scalar_binop_term(op, a, b)))


def _scalar_binop_term(op, a, b):
    ka, kb = kind_of(a), kind_of(b)
    if ka == 'float' or kb == 'float' or op == 'Div':
        x, y = to_float_term(a), to_float_term(b)
        if op == 'Add':
            return z3.fpAdd(RNE, x, y)
        if op == 'Sub':
            return z3.fpSub(RNE, x, y)
        if op == 'Mult':
            return z3.fpMul(RNE, x, y)
        if op == 'Div':
            # NumPy float64 division: IEEE (division by zero gives inf/nan plus a warning, modelled by the caller)
            return z3.fpDiv(RNE, x, y)
        if op == 'Pow':
            # NumPy / CPython compute x ** 2 as x * x (exact same rounding); other exponents stay uninterpreted
            if kb in ('int', 'bool') and not is_sym(b) and int(b) == 2:
                return z3.fpMul(RNE, x, x)
            return UF_POW(x, y)
        raise OutOfSubset(f'float operator {op}')
    if ka == 'bool' and kb == 'bool' and op in ('BitAnd', 'BitOr', 'BitXor'):
        x, y = z3_of(a), z3_of(b)
        return {'BitAnd': z3.And, 'BitOr': z3.Or, 'BitXor': z3.Xor}[op](x, y)
    x, y = to_int_term(a), to_int_term(b)
    if op == 'Add':
        return x + y
    if op == 'Sub':
        return x - y
    if op == 'Mult':
        return x * y
    if op == 'FloorDiv' or op == 'Mod':
        # z3 div/mod agree with Python's floor semantics for a positive divisor only
        if not (z3.is_int_value(y) and y.as_long() > 0):
            raise OutOfSubset('floor division / modulo by a divisor not known to be positive')
        return x / y if op == 'FloorDiv' else x % y
    raise OutOfSubset(f'int operator {op}')


UF_POW = z3.Function('py_pow', F64, F64, F64)
UF_EXP = z3.Function('np_exp', F64, F64)
UF_LOG = z3.Function('np_log', F64, F64)
UF_SQRT = z3.Function('np_sqrt', F64, F64)


def unaryop(op: str, a):
    if isinstance(a, SArr):
        if op == 'Invert':
            if a.dtype != 'bool':
                raise OutOfSubset('~ on a non-boolean array')
            return a.map(lambda x: z3.Not(x), 'bool', tag=('not', a))
        if op == 'USub':
            if a.dtype == 'float':
                return a.map(lambda x: z3.fpNeg(x), 'float')
            return a.map(lambda x: -x, a.dtype)
        raise OutOfSubset(f'unary {op} on array')
    if not is_sym(a):
        import operator
        return {'USub': operator.neg, 'UAdd': operator.pos, 'Not': operator.not_, 'Invert': operator.inv}[op](a)
    if op == 'Not':
        t = truth(a)
        return simplify_value(SBool(z3.Not(t))) if not isinstance(t, bool) else (not t)
    if op == 'USub':
        if isinstance(a, SFloat):
            return SFloat(z3.fpNeg(a.e))
        return simplify_value(SInt(-to_int_term(a)))
    if op == 'UAdd':
        return a
    raise OutOfSubset(f'unary {op} on {type(a).__name__}')


# ---------------------------------------------------------------------------------------------
# sequences and arrays
# ---------------------------------------------------------------------------------------------
_SORT_OF_KIND = {'int': INT, 'float': F64, 'bool': BOOL, 'str': STR}


class SSeq(Sym):
    """list / tuple with symbolic length and z3-sorted elements: contents[i] for 0 <= i < length."""
    mutable = True
    _ids = itertools.count()

    def __init__(self, kind: str, length, arr, elem_kind: str, *, prov: str = 'fresh'):
        self.kind = kind            # 'list' | 'tuple'
        self.length = length if not isinstance(length, int) else z3.IntVal(length)
        self.arr = arr              # z3 Array Int -> sort
        self.elem_kind = elem_kind
        self.ident = next(SSeq._ids)
        self.prov = prov            # ownership provenance (C11)

    def at(self, i):
        return wrap(z3.Select(self.arr, i))

    def __repr__(self):
        return f'SSeq({self.kind},len={self.length})'


class SArr(Sym):
    """1-D NumPy array: fixed length, dtype, element array; assigned in place."""
    mutable = True
    _ids = itertools.count()

    def __init__(self, length, arr, dtype: str, *, prov: str = 'fresh', tag=None):
        self.length = length if not isinstance(length, int) else z3.IntVal(length)
        self.arr = arr
        self.dtype = dtype          # 'float' | 'int' | 'bool' | 'str'
        self.ident = next(SArr._ids)
        self.prov = prov
        self.tag = tag              # how the array was computed, e.g. ('isfinite', src): lets np.any/np.all name vector-level facts

    def at(self, i):
        return wrap(z3.Select(self.arr, i))

    def map(self, f: Callable, dtype: str, tag=None) -> 'SArr':
        i = z3.Int('i!map')
        return SArr(self.length, z3.Lambda([i], f(z3.Select(self.arr, i))), dtype, tag=tag)

    def copy(self) -> 'SArr':
        return SArr(self.length, self.arr, self.dtype)

    def __repr__(self):
        return f'SArr({self.dtype},len={self.length})'


VEC_F = z3.ArraySort(INT, F64)
# Vector-level facts (definitional: every use also assumes the defining instance, see libspec._quant):
#   ALL_FINITE(a, n)        <=> forall 0 <= i < n. a[i] is neither inf nor nan
#   ALL_CLOSE(a, b, n, tol) <=> forall 0 <= i < n. |a[i] - b[i]| < tol        (Float64, RNE subtraction, strict)
ALL_FINITE = z3.Function('all_finite', VEC_F, INT, BOOL)
ALL_CLOSE = z3.Function('all_close', VEC_F, VEC_F, INT, F64, BOOL)


def is_finite_term(x):
    return z3.Not(z3.Or(z3.fpIsInf(x), z3.fpIsNaN(x)))


def all_finite_def(a, n):
    return ALL_FINITE(a, n) == forall_range(0, n, lambda i: is_finite_term(z3.Select(a, i)), 'af')


def all_close_def(a, b, n, tol):
    return ALL_CLOSE(a, b, n, tol) == forall_range(
        0, n, lambda i: z3.fpLT(z3.fpAbs(z3.fpSub(RNE, z3.Select(a, i), z3.Select(b, i))), tol), 'ac')


def arr_elementwise(f, a, b, dtype: str, tag=None) -> SArr:
    """Element-wise binary operation with scalar broadcasting.  Two arrays must have equal length
    (checked by the caller through a safety obligation; here the left length is used)."""
    i = z3.Int('i!ew')

    def elt(v):
        if isinstance(v, SArr):
            return wrap(z3.Select(v.arr, i))
        return v
    length = a.length if isinstance(a, SArr) else b.length
    term = f(elt(a), elt(b))
    return SArr(length, z3.Lambda([i], term), dtype, tag=tag)


def norm_index(i, n):
    """Python index normalisation: i if i >= 0 else i + n (as z3 Int)."""
    return z3.If(i >= 0, i, i + n)


def slice_bounds(start, stop, n):
    """CPython slice.indices for step 1 (start/stop are z3 Int or None): clamped [lo, hi)."""
    def clamp(v, default):
        if v is None:
            return default
        return z3.If(v < 0, z3.If(v + n < 0, z3.IntVal(0), v + n), z3.If(v > n, n, v))
    lo = clamp(start, z3.IntVal(0))
    hi = clamp(stop, n)
    return lo, hi


# ---------------------------------------------------------------------------------------------
# objects and exceptions
# ---------------------------------------------------------------------------------------------
class SObj(Sym):
    """Symbolic instance of a real class; `fields` is its __dict__ (concrete keys)."""
    mutable = True

    def __init__(self, cls, fields: Optional[Dict[str, Any]] = None, *, label: str = 'obj'):
        self.cls = cls
        self.fields = fields if fields is not None else {}
        self.label = label
        self.varstore = None      # optional VarStore for the '_' + name family

    def __repr__(self):
        return f'SObj({self.cls.__name__}:{self.label})'


class VarStore:
    """The `__dict__['_' + name]` family of a container: name -> 1-D float array of length n.

    data : z3 Array String -> (Array Int -> Float64)
    """

    def __init__(self, data, n):
        self.data = data
        self.n = n

    def view(self, name_term) -> 'VarView':
        return VarView(self, name_term)


class VarView(Sym):
    """The array object stored under '_' + name (reads and writes go through the store)."""
    mutable = True
    dtype = 'float'

    def __init__(self, store: VarStore, name_term):
        self.store = store
        self.name = name_term

    @property
    def length(self):
        return self.store.n

    @property
    def arr(self):
        return z3.Select(self.store.data, self.name)

    @arr.setter
    def arr(self, new):
        self.store.data = z3.Store(self.store.data, self.name, new)

    def at(self, i):
        return wrap(z3.Select(self.arr, i))


class SExc(Sym):
    """An exception instance.  cls is a real exception class, or ANY_EXCEPTION for 'some subclass of Exception'."""

    def __init__(self, cls, *, cause=None, origin: str = '', args=()):
        self.cls = cls
        self.cause = cause
        self.origin = origin      # where it was raised (hook name, line)
        self.args = args
        self.name = None          # NameError.name etc.

    def __repr__(self):
        c = self.cls.__name__ if isinstance(self.cls, type) else str(self.cls)
        return f'SExc({c} from {self.origin})'


class AnyException:
    """Marker: an instance of an unknown subclass of Exception (raised by user hooks)."""
    __name__ = 'AnyException'


ANY_EXCEPTION = AnyException()


class Opaque(Sym):
    """A havocked value of a type the verifier does not model; any use of it is out-of-subset."""

    def __init__(self, why=''):
        self.why = why


class Unbound:
    """Marker for a local that is definitely unbound / possibly unbound after a loop cut."""

    def __init__(self, maybe=False):
        self.maybe = maybe


# quantifier helpers used by contracts ---------------------------------------------------------------
def forall_range(lo, hi, body: Callable, name='q'):
    i = z3.Int(f'{name}!{next(_q)}')
    return z3.ForAll([i], z3.Implies(z3.And(lo <= i, i < hi), body(i)))


def exists_range(lo, hi, body: Callable, name='q'):
    i = z3.Int(f'{name}!{next(_q)}')
    return z3.Exists([i], z3.And(lo <= i, i < hi, body(i)))


_q = itertools.count()


def parts_prefix_conditions(got: SStr, want: SStr):
    """Structural test that `got` starts with `want`: walks the two part lists; constants are compared character-wise,
    symbolic string parts must be the same term, integer parts give an equality condition.  Returns a list of z3
    conditions (all must hold) or None when the structures differ (then fall back to the string solver)."""
    g = [list(p) for p in got.parts]
    w = [list(p) for p in want.parts]
    conds = []
    gi = 0
    for wp in w:
        if wp[0] == 'c':
            text = wp[1]
            while text:
                if gi >= len(g) or g[gi][0] != 'c':
                    return None
                have = g[gi][1]
                k = min(len(have), len(text))
                if have[:k] != text[:k]:
                    return [z3.BoolVal(False)]
                text = text[k:]
                if k == len(have):
                    gi += 1
                else:
                    g[gi][1] = have[k:]
        else:
            if gi >= len(g) or g[gi][0] != wp[0]:
                return None
            if wp[0] == 's':
                if not z3.eq(g[gi][1], wp[1]):
                    conds.append(g[gi][1] == wp[1])
            else:
                conds.append(g[gi][1] == wp[1])
            gi += 1
    return conds
