#!/bin/sh
# Build the offline interpreter used by every check: Python 3.12 (from /venv) + z3-solver + cvc5 + jsonschema
# from the local wheelhouse, plus a .pth that exposes /venv's site-packages (numpy, pandas, networkx, fsic editable).
set -e
cd "$(dirname "$0")"
ready() { [ -x .venv/bin/python ] && .venv/bin/python -c "import z3, cvc5, jsonschema, numpy, fsic" 2>/dev/null; }
if ready; then
  exit 0
fi
# several checks started at once on a fresh checkout: one builds, the others wait for it
if command -v flock >/dev/null 2>&1; then
  exec 9> .venv.lock
  flock 9
  if ready; then
    exit 0
  fi
fi
rm -rf .venv
/venv/bin/python -m venv .venv
PIP_NO_INDEX=1 .venv/bin/pip install -q --no-index --find-links /opt/veriftools/wheels z3-solver cvc5 jsonschema
SP=$(.venv/bin/python -c "import sysconfig; print(sysconfig.get_paths()['purelib'])")
echo "import site; site.addsitedir('/venv/lib/python3.12/site-packages')" > "$SP/zz_repo_deps.pth"
.venv/bin/python -c "import z3, cvc5, jsonschema, numpy, pandas, networkx, fsic; print('venv ok', z3.get_version_string(), numpy.__version__, fsic.__file__)"
