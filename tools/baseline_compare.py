"""Run the pinned suite in /repo and compare the set of passing tests with BASELINE.json's stable_pass."""
import json, subprocess, sys, xml.etree.ElementTree as ET, os, tempfile
out = tempfile.mktemp(suffix='.xml', dir='/tmp')
subprocess.run(f'cd /repo && /venv/bin/python -m pytest -ra -q -p no:cacheprovider --timeout=900 --continue-on-collection-errors --junitxml={out}', shell=True, capture_output=True)
base = set(json.load(open('/root/.vp/BASELINE.json'))['stable_pass'])
passed = set()
for tc in ET.parse(out).getroot().iter('testcase'):
    if not any(c.tag in ('failure', 'error', 'skipped') for c in tc):
        passed.add(f"{tc.get('classname')}::{tc.get('name')}")
os.unlink(out)
missing = sorted(base - passed)
print('baseline', len(base), 'passed now', len(passed), 'baseline tests not passing now:', missing[:10])
sys.exit(1 if missing else 0)
