#!/bin/sh
# usage: tools/benign_unparse.sh [property ids...]   (default: all 20) - every line must end in exit=0
# Behaviour-preserving edit B13, generated rather than stored: every fsic source file under a contract is replaced by ast.unparse of its
# own ast (all comments gone, every line number changed, every expression re-spelt in Python's canonical layout), and the quick checks
# run against that copy.
cd "$(dirname "$0")/.."
OUT=${BENIGN_OUT:-/tmp/benignruns}
mkdir -p "$OUT"
W=$(mktemp -d /tmp/fsic-unparse.XXXXXX); rmdir "$W"
git -C /repo worktree add -q --detach "$W" HEAD
( cd "$W" && /venv/bin/python - <<'PY'
import ast
for p in ['fsic/core/models.py', 'fsic/core/interfaces.py', 'fsic/core/containers.py', 'fsic/core/linkers.py', 'fsic/parser.py', 'fsic/functions.py',
          'fsic/tools.py', 'fsic/extensions/common.py', 'fsic/extensions/model.py', 'fsic/fortran.py']:
    s = open(p).read()
    open(p, 'w').write(ast.unparse(ast.parse(s)) + '\n')
PY
git -C "$W" diff > "$OUT/B13.diff" )
git -C /repo worktree remove --force "$W"; git -C /repo worktree prune
[ $# -eq 0 ] && set -- C01 C02 C03 C04 C05 C06 C07 C08 C09 C10 C11 C12 C13 C14 C15 C16 C17 C18 C19 C20
for p in "$@"; do
  t0=$(date +%s)
  VERIF_EVIDENCE_DIR="$OUT/ev" VERIF_REPLAY_DIR="$OUT/replays" tools/with_patch.sh "$OUT/B13.diff" ./check "$p" > "$OUT/B13-$p.log" 2>&1
  echo "B13 $p exit=$? $(( $(date +%s) - t0 ))s $(grep -m1 '^VIOLATION\|^CHECKER' "$OUT/B13-$p.log" | cut -c1-160)"
done
