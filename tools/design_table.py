#!/usr/bin/env python3
"""Prints the per-property table of DESIGN.md section 14.3 from the property modules and the evidence files (run with the check venv:
PYTHONPATH=/repo:/verif .venv/bin/python tools/design_table.py)."""
import importlib
import json

print('| id | functions under contract (scenarios) | obligations (in finding regions) | bounded checks (evaluations) | level |')
print('|----|--------------------------------------|----------------------------------|------------------------------|-------|')
for i in range(1, 21):
    pid = f'C{i:02d}'
    p = importlib.import_module(f'props.{pid.lower()}').PROPERTY
    ev = json.load(open(f'/verif/evidence/{pid}.json'))
    cov = ev['coverage']
    seen = {}
    for c in p.contracts:
        q = c.qualname.replace('fsic.core.', '').replace('fsic.extensions.', '').replace('fsic.', '')
        seen[q] = seen.get(q, 0) + len(c.scenarios())
    fns = ', '.join(f'`{q}` ({n})' for q, n in seen.items())
    names = []
    for b in p.bounded:
        nm = b.name.split('[')[0]
        if nm not in names:
            names.append(nm)
    kn = cov.get('known_finding_obligations', 0)
    print(f"| {pid} | {fns} | {cov['obligations']}" + (f' ({kn})' if kn else '') + f" | {', '.join(names)} ({cov.get('evaluations', 0)}) | {ev['level']} |")
