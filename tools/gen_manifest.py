"""Generate /verif/MANIFEST.json from the props/ modules (run from /verif with the .venv python)."""
import importlib, json, os, sys
sys.path.insert(0, '/verif')
PENDING = json.load(open('/verif/tools/not_applicable.json')) if os.path.exists('/verif/tools/not_applicable.json') else {}
allp = [json.loads(l) for l in open('/verif/properties.jsonl')]
checks, na = [], []
for p in allp:
    pid = p['id']
    path = f'/verif/props/{pid.lower()}.py'
    if not os.path.exists(path):
        na.append({'property_id': pid, 'reason': PENDING.get(pid, 'no check registered yet in this build: contracts for this property are not written yet (see DESIGN.md section 13, build order)')})
        continue
    spec = importlib.import_module(f'props.{pid.lower()}').PROPERTY
    checks.append({
        'property_id': pid,
        'quick_cmd': f'./check {pid} --tier quick',
        'thorough_cmd': f'./check {pid} --tier thorough',
        'evidence_file': f'/verif/evidence/{pid}.json',
        'replay_cmd_template': f'./check {pid} --replay {{path}}',
        'engine': 'pyvc',
        'level_claimed': {'category': spec.level, 'text': spec.level_text, 'design_ref': spec.design_ref},
        'level_note': spec.level_note,
        'technique': spec.technique,
    })
m = {
    'version': 1,
    'setup_cmd': './setup.sh',
    'hooks': {'guard': 'FSIC_VERIF', 'enable': 'no source hooks are needed: contracts are sidecar files and the verified text is extracted from /repo on every run; FSIC_VERIF=1 is set by ./check but nothing in /repo reads it',
              'baseline_off_cmd': 'cd /repo && /venv/bin/python -m pytest -ra -q -p no:cacheprovider --timeout=900 --continue-on-collection-errors --junitxml=/tmp/fsic-baseline-off.junit.xml',
              'source_commits': [], 'add_only': True},
    'engines': [{'name': 'pyvc', 'path': '/verif/pyvc', 'serves_properties': [c['property_id'] for c in checks],
                 'kind_free_text': 'home-built verification-condition generator over the Python ast of the real fsic functions (sidecar contracts, loop invariants, ghost state) discharging to z3 / cvc5; plus a bounded run-time contract layer used as labelled stand-in and for counterexample replay'}],
    'checks': checks,
    'not_applicable': na,
    'notes': 'See DESIGN.md. Exit codes: 0 held, 1 violation, 2 undecided without stand-in, 3 checker failure.',
}
json.dump(m, open('/verif/MANIFEST.json', 'w'), indent=1)
print(len(checks), 'checks;', len(na), 'not claimed')
