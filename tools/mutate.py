"""Mechanical single-point mutants of fsic, as a complement to the hand-made seeded changes (DESIGN 14.6).

usage: .venv/bin/python tools/mutate.py <workdir> [--per-function N] [--seed S] [--jobs J]

For every function of the files below, single-node mutants are generated from the ast (comparison flipped, boundary moved,
`and`/`or` swapped, `not` dropped, + / - swapped, integer constant +-1, `continue`/`break` swapped, one statement deleted,
keyword argument dropped from a call).  Each mutant is written as a scratch copy of /repo's HEAD (outside /repo and /verif), the
pinned suite is run on it, and for every mutant the suite does not notice, the quick checks of the properties anchored in that
file are run against the copy.  Output: <workdir>/mutants.tsv (id, file, function, line, operator, suite, checks run, verdict).
A surviving mutant that no check reports is either equivalent, outside every property, or a miss: that is for a human to say.
"""
from __future__ import annotations

import argparse
import ast
import concurrent.futures as cf
import copy
import os
import random
import re
import shutil
import subprocess
import sys

FILES = {
    'fsic/core/models.py': ['C02', 'C04', 'C06'],
    'fsic/core/interfaces.py': ['C05', 'C03', 'C09'],
    'fsic/core/containers.py': ['C09', 'C10', 'C11', 'C12', 'C16'],
    'fsic/core/linkers.py': ['C08', 'C11'],
    'fsic/parser.py': ['C01', 'C03', 'C13', 'C14', 'C15', 'C20'],
    'fsic/functions.py': ['C16'],
    'fsic/tools.py': ['C19', 'C20'],
    'fsic/extensions/common.py': ['C18'],
    'fsic/extensions/model.py': ['C17'],
    'fsic/fortran.py': ['C07'],
}
# functions whose property is not the one of their file
FUNC_PROPS = {
    ('fsic/core/models.py', '__init__'): ['C11', 'C07', 'C02'], ('fsic/core/models.py', 'reindex'): ['C12'], ('fsic/core/models.py', 'to_dataframe'): ['C19'],
    ('fsic/core/linkers.py', 'to_dataframe'): ['C19'], ('fsic/core/linkers.py', 'to_dataframes'): ['C19'], ('fsic/core/linkers.py', 'reindex'): ['C12'],
    ('fsic/core/linkers.py', '__init__'): ['C08', 'C11'], ('fsic/core/linkers.py', 'copy'): ['C11'],
    ('fsic/core/containers.py', 'to_dataframe'): ['C19'], ('fsic/core/containers.py', 'reindex'): ['C12'], ('fsic/core/containers.py', 'eval'): ['C16'],
    ('fsic/core/containers.py', 'copy'): ['C11'], ('fsic/core/interfaces.py', 'solve'): ['C05', 'C04'], ('fsic/core/interfaces.py', 'iter_periods'): ['C05', 'C03', 'C04'],
}
CMP = {ast.Lt: ast.LtE, ast.LtE: ast.Lt, ast.Gt: ast.GtE, ast.GtE: ast.Gt, ast.Eq: ast.NotEq, ast.NotEq: ast.Eq, ast.Is: ast.IsNot, ast.IsNot: ast.Is,
       ast.In: ast.NotIn, ast.NotIn: ast.In}
VERIF = os.path.dirname(os.path.dirname(os.path.abspath(__file__)))


def sites(tree):
    """(function name, node index path, operator label, mutator) for every mutation site."""
    out = []
    for fn in ast.walk(tree):
        if not isinstance(fn, (ast.FunctionDef,)):
            continue
        body_nodes = [n for st in fn.body for n in ast.walk(st)]
        for n in body_nodes:
            if isinstance(n, (ast.FunctionDef, ast.ClassDef)) and n is not fn:
                continue
            if isinstance(n, ast.Compare):
                for i, op in enumerate(n.ops):
                    if type(op) in CMP:
                        out.append((fn.name, n, f'cmp:{type(op).__name__}->{CMP[type(op)].__name__}', ('cmp', i)))
            elif isinstance(n, ast.BoolOp):
                out.append((fn.name, n, f'bool:{type(n.op).__name__}', ('bool',)))
            elif isinstance(n, ast.UnaryOp) and isinstance(n.op, ast.Not):
                out.append((fn.name, n, 'not-dropped', ('not',)))
            elif isinstance(n, ast.BinOp) and isinstance(n.op, (ast.Add, ast.Sub)) and not isinstance(n.left, ast.Constant):
                out.append((fn.name, n, f'arith:{type(n.op).__name__}', ('arith',)))
            elif isinstance(n, ast.Constant) and type(n.value) is int and -2 <= n.value <= 2:
                out.append((fn.name, n, f'const:{n.value}+1', ('const', 1)))
                out.append((fn.name, n, f'const:{n.value}-1', ('const', -1)))
            elif isinstance(n, (ast.Continue, ast.Break)):
                out.append((fn.name, n, f'{type(n).__name__.lower()}-swapped', ('loopctl',)))
            elif isinstance(n, ast.Call) and n.keywords:
                for i, k in enumerate(n.keywords):
                    if k.arg is not None:
                        out.append((fn.name, n, f'kwarg-dropped:{k.arg}', ('kwarg', i)))
            if isinstance(n, (ast.Assign, ast.AugAssign, ast.Expr)) and not (isinstance(n, ast.Expr) and isinstance(n.value, ast.Constant)):
                out.append((fn.name, n, 'statement-deleted', ('delete',)))
    return out


def apply(tree, target, how):
    """Copy of `tree` with `target` mutated."""
    idx = [i for i, n in enumerate(ast.walk(tree)) if n is target][0]
    t2 = copy.deepcopy(tree)
    n = list(ast.walk(t2))[idx]
    kind = how[0]
    if kind == 'cmp':
        n.ops[how[1]] = CMP[type(n.ops[how[1]])]()
    elif kind == 'bool':
        n.op = ast.Or() if isinstance(n.op, ast.And) else ast.And()
    elif kind == 'arith':
        n.op = ast.Sub() if isinstance(n.op, ast.Add) else ast.Add()
    elif kind == 'const':
        n.value = n.value + how[1]
    elif kind == 'kwarg':
        del n.keywords[how[1]]
    else:
        class T(ast.NodeTransformer):
            def generic_visit(self, node):
                for field, old in ast.iter_fields(node):
                    if isinstance(old, list):
                        for i, v in enumerate(old):
                            if v is n:
                                if kind == 'delete':
                                    old[i] = ast.Pass()
                                elif kind == 'loopctl':
                                    old[i] = ast.Break() if isinstance(n, ast.Continue) else ast.Continue()
                                return node
                    elif old is n and kind == 'not':
                        setattr(node, field, n.operand)
                        return node
                return super().generic_visit(node)
        T().visit(t2)
    return ast.fix_missing_locations(t2)


def run_mutant(job):
    mid, work, rel, text, props = job
    d = os.path.join(work, mid)
    os.makedirs(d)
    subprocess.run(f'git -C /repo archive HEAD | tar -x -C {d}', shell=True, check=True)       # (a plain copy of HEAD: no worktree locks between parallel jobs)
    try:
        with open(os.path.join(d, rel), 'w') as f:
            f.write(text)
        p = subprocess.run(['/venv/bin/python', '-m', 'pytest', '-q', '-p', 'no:cacheprovider', '--timeout=300', 'tests'], cwd=d, capture_output=True, text=True, timeout=1200)
        m = re.search(r'(\d+) passed', p.stdout[-400:])
        passed = int(m.group(1)) if m else -1
        if passed != 241:
            return mid, f'suite:{passed}', '', 'killed-by-suite'
        ran, verdict = [], 'not-reported'
        for pid in props:
            env = dict(os.environ, FSIC_REPO=d, PYTHONPATH=d, VERIF_EVIDENCE_DIR=os.path.join(work, 'ev'), VERIF_REPLAY_DIR=os.path.join(work, 'replays'))
            q = subprocess.run([os.path.join(VERIF, 'check'), pid], env=env, capture_output=True, text=True, timeout=3600)
            ran.append(f'{pid}={q.returncode}')
            with open(os.path.join(work, f'{mid}-{pid}.log'), 'w') as f:
                f.write(q.stdout + q.stderr)
            if q.returncode == 1:
                verdict = 'reported'
                break
            if q.returncode not in (0, 1):
                verdict = f'exit-{q.returncode}'
        return mid, 'suite:241', ' '.join(ran), verdict
    except subprocess.TimeoutExpired:
        return mid, 'suite:timeout', '', 'killed-by-suite'
    finally:
        shutil.rmtree(d, ignore_errors=True)


def main():
    ap = argparse.ArgumentParser()
    ap.add_argument('work')
    ap.add_argument('--per-function', type=int, default=3)
    ap.add_argument('--seed', type=int, default=1)
    ap.add_argument('--jobs', type=int, default=6)
    ap.add_argument('--files', default='')
    ap.add_argument('--functions', default='', help='comma-separated file:function pairs (default: every function)')
    a = ap.parse_args()
    os.makedirs(a.work, exist_ok=True)
    rnd = random.Random(a.seed)
    jobs, meta = [], {}
    for rel, props in FILES.items():
        if a.files and rel not in a.files.split(','):
            continue
        src = subprocess.run(['git', '-C', '/repo', 'show', f'HEAD:{rel}'], capture_output=True, text=True, check=True).stdout
        tree = ast.parse(src)
        by_fn = {}
        for s in sites(tree):
            by_fn.setdefault(s[0], []).append(s)
        for fn, ss in sorted(by_fn.items()):
            if a.functions and f'{rel}:{fn}' not in a.functions.split(','):
                continue
            rnd.shuffle(ss)
            for s in ss[:a.per_function]:
                mid = f'm{len(jobs):04d}'
                text = ast.unparse(apply(tree, s[1], s[3])) + '\n'
                if text == ast.unparse(tree) + '\n':
                    continue
                jobs.append((mid, a.work, rel, text, FUNC_PROPS.get((rel, fn), props)))
                meta[mid] = (rel, fn, getattr(s[1], 'lineno', 0), s[2])
    print(len(jobs), 'mutants', file=sys.stderr)
    with open(os.path.join(a.work, 'mutants.tsv'), 'a') as out, cf.ThreadPoolExecutor(a.jobs) as ex:
        for mid, suite, ran, verdict in ex.map(run_mutant, jobs):
            rel, fn, line, op = meta[mid]
            out.write('\t'.join([mid, rel, fn, str(line), op, suite, ran, verdict]) + '\n')
            out.flush()


if __name__ == '__main__':
    main()
