#!/bin/sh
# usage: tools/run_benign.sh   - every line must end in exit=0
cd "$(dirname "$0")/.."
OUT=${BENIGN_OUT:-/tmp/benignruns}
mkdir -p "$OUT"
for pair in "B1 C02" "B1 C04" "B1 C06" "B2 C05" "B2 C03" "B3 C08" "B4 C03" "B4 C14" "B5 C10" "B5 C12" "B5 C09" "B6 C17" "B6 C18" "B6 C11" "B7 C19" "B7 C15" "B7 C01" "B7 C03" "B8 C16" "B8 C09" "B8 C11" "B8 C04" "B9 C07" "B10 C02" "B10 C06" "B10 C04" "B11 C16" "B11 C07" "B11 C08" "B11 C12" "B12 C14" "B12 C01" "B12 C18" "B12 C13" "B14 C20"; do
  set -- $pair
  t0=$(date +%s)
  VERIF_EVIDENCE_DIR="$OUT/ev" VERIF_REPLAY_DIR="$OUT/replays" tools/with_patch.sh "benign/$1.diff" ./check "$2" > "$OUT/$1-$2.log" 2>&1
  echo "$1 $2 exit=$? $(( $(date +%s) - t0 ))s $(grep -m1 '^VIOLATION\|^CHECKER' "$OUT/$1-$2.log" | cut -c1-160)"
done
