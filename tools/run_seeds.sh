#!/bin/sh
# usage: tools/run_seeds.sh [seed dir names...]   (default: all under /verif/seeded)
# Runs the quick check of the seeded change's property against a scratch copy of /repo with the change applied.
# Evidence / replays of these runs go to a scratch directory, never to /verif/evidence.
cd "$(dirname "$0")/.."
OUT=${SEED_OUT:-/tmp/seedruns}
mkdir -p "$OUT"
[ $# -eq 0 ] && set -- $(ls seeded)
for s in "$@"; do
  pid=${s%%-*}
  [ -f "props/$(echo $pid | tr A-Z a-z).py" ] || { echo "$s	no-check"; continue; }
  t0=$(date +%s)
  VERIF_EVIDENCE_DIR="$OUT/ev" VERIF_REPLAY_DIR="$OUT/replays" tools/with_patch.sh "seeded/$s/patch.diff" ./check "$pid" > "$OUT/$s.log" 2>&1
  rc=$?
  t1=$(date +%s)
  v=$(grep -m1 '^VIOLATION' "$OUT/$s.log" | cut -c1-160)
  echo "$s	exit=$rc	$((t1-t0))s	$v"
done
