#!/usr/bin/env python3
"""usage: tools/seed_table.py <dir with <seed>.log files> [seed names...] - one markdown table row per seeded change from the check's own output."""
import json
import os
import re
import sys

d = sys.argv[1]
names = sys.argv[2:] or sorted(f[:-4] for f in os.listdir(d) if f.endswith('.log'))
rows = []
stats = {'replayed': 0, 'deductive-only': 0, 'missed': 0, 'other-exit': 0}
for s in names:
    meta = json.load(open(f'/verif/seeded/{s}/meta.json'))
    log = open(os.path.join(d, s + '.log')).read().splitlines()
    obs, cls = [], []
    for i, ln in enumerate(log):
        if ln.startswith('VIOLATION ') and i + 1 < len(log):
            det = log[i + 1].strip()
            m = re.match(r'obligation (\S+)', det)
            if m:
                obs.append(m.group(1).replace('fsic.core.', '').replace('fsic.', '') + (' (no input)' if ln.endswith('no-failing-input-found') else ' (replayed)'))
            m = re.match(r'bounded clause (.*?) fails on the real code', det)
            if m:
                cls.append(m.group(1)[:110])
    m = next((x for x in (re.search(r' wall=\S+ exit=(\d)', ln) for ln in reversed(log)) if x), None)
    cell = lambda x: str(x).replace('|', '\\|').replace('\n', ' ')   # noqa: E731
    code = m.group(1) if m else '?'
    replayed = bool(cls) or any(o.endswith('(replayed)') for o in obs)
    stats['missed' if code == '0' else 'other-exit' if code != '1' else 'replayed' if replayed else 'deductive-only'] += 1
    rows.append(f"| {s} | {cell(meta['summary'])[:260]} | {cell(meta.get('needs', ''))[:220]} | {code} | "
                f"{len(obs)}: {cell(obs[0]) if obs else '-'} | {len(cls)}: {cell(cls[0]) if cls else '-'} |")
print(f"{len(rows)} seeded changes: {stats['replayed']} reported with an input replayed on the real code (a bounded clause, or a deductive obligation whose "
      f"counterexample was concretised), {stats['deductive-only']} reported by deductive obligations only (`no-failing-input-found`), "
      f"{stats['missed']} not reported (exit 0), {stats['other-exit']} ended with another exit code.  When a bounded check replays a violation the run stops "
      f"the deductive tasks still queued, so 'replayed' says nothing about whether an obligation would have failed as well.")
print()
print('| seeded change | what it changes | needs | exit | deductive obligations reported (first) | bounded clauses reported (first) |')
print('|---|---|---|---|---|---|')
for r in rows:
    print(r)
