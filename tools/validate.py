"""Validate MANIFEST.json and evidence files against the harness schemas."""
import json, sys, glob, jsonschema
ok = True
m = json.load(open('/verif/MANIFEST.json'))
jsonschema.validate(m, json.load(open('/root/.vp/MANIFEST.schema.json')))
es = json.load(open('/root/.vp/EVIDENCE.schema.json'))
for c in m['checks']:
    p = c['evidence_file']
    try:
        e = json.load(open(p))
        jsonschema.validate(e, es)
        lv = c['level_claimed']['category']
        flag = '' if e['level'] == lv else f'  (claimed {lv})'
        print('ok ', p, e['level'], e['coverage'].get('obligations'), e['coverage'].get('discharged'), flag)
    except Exception as ex:
        ok = False
        print('BAD', p, str(ex)[:200])
ids = {c['property_id'] for c in m['checks']} | {n['property_id'] for n in m.get('not_applicable', [])}
allp = {json.loads(l)['id'] for l in open('/verif/properties.jsonl')}
print('unlisted:', sorted(allp - ids))
sys.exit(0 if ok else 1)
