#!/bin/sh
# Validate candidate seeded changes produced by sub-agents: applies each to a scratch worktree, runs the pinned suite and
# the demonstration with and without the change.  usage: validate_seeds.sh <outdir> ; writes <outdir>/validation.tsv
OUT=$1
: > "$OUT/validation.tsv"
for d in "$OUT"/C*/; do
  id=$(basename "$d")
  for k in 1 2 3 4; do
    [ -f "$d/m$k.diff" ] || continue
    W=$(mktemp -d /tmp/fsic-val.XXXXXX); rmdir "$W"
    git -C /repo worktree add -q --detach "$W" HEAD
    ( cd "$W" && /venv/bin/python "$d/demo$k.py" >/dev/null 2>&1 ); clean=$?
    if git -C "$W" apply "$d/m$k.diff" 2>/dev/null; then applied=yes; else applied=no; fi
    ( cd "$W" && /venv/bin/python "$d/demo$k.py" >/dev/null 2>&1 ); mut=$?
    passed=$( cd "$W" && /venv/bin/python -m pytest -q -p no:cacheprovider --timeout=900 tests 2>&1 | tail -1 | sed -n 's/.* \([0-9]*\) passed.*/\1/p')
    printf '%s\t%s\tapplied=%s\tdemo_clean=%s\tdemo_mut=%s\tpassed=%s\n' "$id" "$k" "$applied" "$clean" "$mut" "$passed" >> "$OUT/validation.tsv"
    git -C /repo worktree remove --force "$W"
  done
done
git -C /repo worktree prune
