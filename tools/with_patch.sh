#!/bin/sh
# usage: tools/with_patch.sh <patch.diff> <command...>
# Runs <command> against a scratch copy of /repo's HEAD with the patch applied (FSIC_REPO + PYTHONPATH point at it);
# the scratch copy lives outside /repo and /verif and is removed afterwards.
set -e
PATCH=$(realpath "$1"); shift
D=$(mktemp -d /tmp/fsic-mut.XXXXXX)
trap 'git -C /repo worktree remove --force "$D" >/dev/null 2>&1 || rm -rf "$D"; git -C /repo worktree prune' EXIT
rmdir "$D"
git -C /repo worktree add -q --detach "$D" HEAD
git -C "$D" apply "$PATCH"
FSIC_REPO="$D" PYTHONPATH="$D${PYTHONPATH:+:$PYTHONPATH}" "$@"
