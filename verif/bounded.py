"""Bounded layer: the contract clauses evaluated at run time on the REAL functions over an enumerated or
sampled input space with a stated bound.  Labelled `bounded` everywhere; never counted as proved.

It is used (DESIGN section 6) as (1) stand-in where the deductive layer cannot reach, (2) conformance of the
assumed external contracts, (3) replay of counterexamples, (4) fall-back for undecided obligations.
"""
from __future__ import annotations

import json
import time
from dataclasses import dataclass, field
from typing import Any, Callable, Dict, Iterable, List, Optional, Tuple


@dataclass
class Violation:
    clause: str          # contract clause that is false on the observed outcome
    sig: str             # signature used to match known findings (clause + coarse input class)
    case: Any            # JSON-able concrete input (replayable through BoundedCheck.replay)
    expected: Any = None
    observed: Any = None
    obligation: str = ''  # deductive obligation this concretises, if any

    def to_json(self):
        return {'clause': self.clause, 'sig': self.sig, 'case': self.case, 'expected': _j(self.expected),
                'observed': _j(self.observed), 'obligation': self.obligation}


def _j(x):
    try:
        json.dumps(x)
        return x
    except (TypeError, ValueError):
        return repr(x)


@dataclass
class BoundedResult:
    name: str
    bound: str
    evaluations: int = 0
    nontrivial: set = field(default_factory=set)
    violations: List[Violation] = field(default_factory=list)
    samples: List[Any] = field(default_factory=list)
    covers: Dict[str, int] = field(default_factory=dict)
    seconds: float = 0.0
    skipped: str = ''

    def cover(self, label: str):
        self.covers[label] = self.covers.get(label, 0) + 1

    def summary(self):
        return {'name': self.name, 'bound': self.bound, 'evaluations': self.evaluations,
                'distinct_nontrivial': len(self.nontrivial), 'violations': len(self.violations),
                'covers': dict(sorted(self.covers.items())), 'seconds': round(self.seconds, 2),
                'samples': self.samples[:5], **({'skipped': self.skipped} if self.skipped else {})}


class BoundedCheck:
    """One run-time contract check.  Subclasses give `cases(tier, seed)` and `check(case)`."""
    name = ''
    props: Tuple[str, ...] = ()
    bound_quick = ''
    bound_thorough = ''
    required_covers: Tuple[str, ...] = ()
    max_violations = 50

    def cases(self, tier: str, seed: int) -> Iterable[Any]:
        raise NotImplementedError

    def check(self, case, res: BoundedResult) -> List[Violation]:
        """Run the real code on `case`; return violated clauses.  Must call res.nontrivial.add(key) where appropriate."""
        raise NotImplementedError

    def run(self, tier: str, seed: int) -> BoundedResult:
        res = BoundedResult(self.name, self.bound_thorough if tier == 'thorough' else self.bound_quick)
        t0 = time.time()
        seen_sigs: Dict[str, int] = {}
        limit = float(getattr(self, 'case_timeout_s', 0) or __import__('os').environ.get('VERIF_CASE_TIMEOUT_S', '30'))
        slow = 0
        for case in self.cases(tier, seed):
            res.evaluations += 1
            t_case = time.time()
            vs = self.guarded_check(case, res)
            if time.time() - t_case > 0.9 * limit:
                # a case that ran into the per-case limit: it is reported; going on would spend the limit again on every similar case
                slow += 1
                if not vs:
                    vs = [Violation('the operation terminates (a small input is dealt with in well under a second on the unchanged library)', f'{self.name}.does-not-terminate',
                                    case, f'< {limit:g} s', f'{time.time() - t_case:.0f} s')]
            if len(res.samples) < 5:
                res.samples.append(_j(case))
            for v in vs:
                seen_sigs[v.sig] = seen_sigs.get(v.sig, 0) + 1
                if seen_sigs[v.sig] <= 3 and len(res.violations) < self.max_violations:
                    res.violations.append(v)
            if slow >= 2:
                break
        res.seconds = time.time() - t0
        return res

    def guarded_check(self, case, res) -> List[Violation]:
        """check(), with an exception that escapes from fsic itself (innermost frame inside the package under test, not anticipated by the
        harness) turned into a violation of 'the operation completes' for this case.  An exception raised by the harness's own code
        still propagates and ends as a checker error."""
        import os
        import signal
        import traceback

        class _CaseTimeout(Exception):
            pass

        def _on_alarm(signum, frame):
            raise _CaseTimeout()
        limit = float(getattr(self, 'case_timeout_s', 0) or os.environ.get('VERIF_CASE_TIMEOUT_S', '30'))
        old_handler = None
        try:
            # processor time of this process, not wall-clock time: on a busy machine a process may wait seconds for a core,
            # and that must not read as "does not terminate"
            old_handler = signal.signal(signal.SIGPROF, _on_alarm)
            signal.setitimer(signal.ITIMER_PROF, limit)
        except (ValueError, OSError):       # not in the main thread: no per-case limit
            old_handler = None
        try:
            return self.check(case, res)
        except _CaseTimeout:
            # every operation the checks run on their small inputs takes milliseconds on the unchanged library: a case that is still running after
            # `limit` seconds does not terminate in any useful sense (the properties that speak of termination: C13; everywhere else: completes)
            return [Violation('the operation terminates (a small input is dealt with in well under a second on the unchanged library)', f'{self.name}.does-not-terminate',
                              case, f'< {limit:g} s of processor time', f'still running after {limit:g} s of processor time')]
        except Exception as ex:  # noqa: BLE001
            root = os.path.realpath(os.path.join(os.environ.get('FSIC_REPO', '/repo'), 'fsic'))
            frames = traceback.extract_tb(ex.__traceback__)
            inside = [f for f in frames if os.path.realpath(f.filename).startswith(root + os.sep)]
            if not inside:
                raise
            f = inside[-1]
            return [Violation('the operation completes as on the unchanged library (no unexpected exception out of fsic)',
                              f'{self.name}.unexpected-exception:{type(ex).__name__}:{f.name}', case, 'completes',
                              f'{type(ex).__name__}: {str(ex)[:80]} at {os.path.basename(f.filename)}:{f.name}')]
        finally:
            if old_handler is not None:
                try:
                    signal.setitimer(signal.ITIMER_PROF, 0)
                    signal.signal(signal.SIGPROF, old_handler)
                except (ValueError, OSError):
                    pass

    def replay(self, case) -> List[Violation]:
        return self.guarded_check(case, BoundedResult(self.name, 'replay'))
