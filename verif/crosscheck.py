"""CPython cross-check of the encoder (DESIGN 9.2): the same ast interpreter that generates obligations is run in
*concrete mode* on the extracted ast of a function under contract, with real objects as inputs, and compared with CPython
running the imported function on equal inputs: return value, exception class and final state must agree.
A disagreement is an interpreter bug (checker failure, exit 3), never a property violation.
"""
from __future__ import annotations

import copy
import math
import random
import warnings
from typing import Any, Callable, List, Tuple

import numpy as np

from pyvc.ctx import Ctx
from pyvc.extract import get_function
from pyvc.interp import Interp, PyRaise
from verif.bounded import BoundedCheck, BoundedResult, Violation


def _norm(v):
    if isinstance(v, np.ndarray):
        return ('nd', v.dtype.kind, [_norm(x) for x in v.tolist()])
    if isinstance(v, float):
        return 'nan' if math.isnan(v) else v
    if isinstance(v, (list, tuple)):
        return [type(v).__name__] + [_norm(x) for x in v]
    if isinstance(v, dict):
        return {repr(k): _norm(x) for k, x in v.items()}
    if isinstance(v, (int, str, bool, type(None))):
        return v
    if isinstance(v, np.generic):
        return _norm(v.item())
    if hasattr(v, '_asdict'):
        return _norm(v._asdict())
    if hasattr(v, '__dict__'):
        return {k: _norm(x) for k, x in v.__dict__.items() if not callable(x)}
    return repr(v)


def run_real(fn, args, kwargs):
    with warnings.catch_warnings():
        warnings.simplefilter('ignore')
        try:
            return ('ret', _norm(fn(*args, **kwargs)))
        except Exception as ex:  # noqa: BLE001
            return ('exc', type(ex).__name__)


def run_interp(qualname, args, kwargs, self_obj=None):
    fi = get_function(qualname)
    ctx = Ctx()
    it = Interp(ctx, None, concrete=True)
    with warnings.catch_warnings():
        warnings.simplefilter('ignore')
        try:
            if self_obj is not None:
                r = it.call_function(fi, [self_obj] + list(args), kwargs, self_obj=self_obj)
            else:
                r = it.call_function(fi, list(args), kwargs)
            return ('ret', _norm(r))
        except PyRaise as pr:
            return ('exc', type(pr.exc).__name__)


class EncoderCrossCheck(BoundedCheck):
    """cases: (qualname, builder) where builder(rnd) -> (self or None, args, kwargs, state_fn)."""
    name = 'encoder.cpython-crosscheck'
    props = ()
    bound_quick = '60 random concrete inputs per function under contract (quick), 1000 (thorough); interpreter in concrete mode vs CPython'
    bound_thorough = bound_quick
    max_violations = 20

    def __init__(self, targets):
        self.targets = targets      # list of (qualname, builder)
        self.required_covers = tuple(q for q, _ in targets)

    def cases(self, tier, seed):
        n = 1000 if tier == 'thorough' else 60
        for qi, (q, _) in enumerate(self.targets):
            for i in range(n):
                yield {'target': qi, 'seed': seed * 100003 + i}

    def check(self, case, res: BoundedResult):
        q, builder = self.targets[case['target']]
        rnd = random.Random(case['seed'])
        res.cover(q)
        res.nontrivial.add((q, case['seed']))
        obj_a, args_a, kw_a, state_a, fn_a = builder(random.Random(case['seed']))
        obj_b, args_b, kw_b, state_b, _ = builder(random.Random(case['seed']))
        real = run_real(fn_a(obj_a), args_a, kw_a)
        mine = run_interp(q, args_b, kw_b, self_obj=obj_b)
        sa, sb = _norm(state_a(obj_a, args_a)), _norm(state_b(obj_b, args_b))
        if real != mine or sa != sb:
            return [Violation('interpreter in concrete mode agrees with CPython (return value, exception class, final state)', f'encoder.disagreement:{q}',
                              {'function': q, 'seed': case['seed']}, str(real)[:200] + ' | ' + str(sa)[:200], str(mine)[:200] + ' | ' + str(sb)[:200])]
        return []


# ---- builders -----------------------------------------------------------------------------------------------------
def _b_shift(name):
    def build(rnd):
        import fsic.functions as F
        n = rnd.randint(0, 5)
        x = np.array([rnd.random() for _ in range(n)])
        p = rnd.randint(-n - 1, n + 1)
        kw = {'fill_value': rnd.choice([float('nan'), 0.0, -1.5])} if rnd.random() < 0.7 else {}
        return None, [x, p], kw, (lambda o, a: a[0]), (lambda o: getattr(F, name))
    return build


def _b_combine(rnd):
    from fsic.parser import Symbol, Type

    def sym():
        ty = rnd.choice(list(Type))
        lags = rnd.choice([None, rnd.randint(-3, 3), "'2000'"])
        leads = rnd.choice([None, rnd.randint(-3, 3), "'2000'"])
        eq = rnd.choice([None, 'Y[t] = X[t]', 'Y[t] = 1'])
        return Symbol('N', ty, lags, leads, eq, eq)
    a, b = sym(), sym()
    return a, [b], {}, (lambda o, a_: None), (lambda o: o.combine)


def _b_term(which):
    def build(rnd):
        from fsic.parser import Term, Type
        t = Term(rnd.choice(['Y', 'exp', 'np.sqrt', '`x + 1`', 'if', '_y']), rnd.choice(list(Type)), rnd.choice([None, rnd.randint(-12, 12), "'2000Q1'", '2000']))
        if which == 'str':
            return t, [], {}, (lambda o, a: None), (lambda o: o.__str__)
        return t, [], {}, (lambda o, a: None), (lambda o: (lambda: type(o).code.fget(o)))
    return build


def _scripted_model(rnd):
    from props.solve_bounded import ALPHABET, make_model_class, _val
    cls = make_model_class()
    h0 = rnd.choice([0.0, 0.0, float('nan')])
    m = cls(list(range(2000, 2005)), X=h0, Y=0.0, Z=7.0)
    ma = rnd.randint(0, 4)
    m.script = tuple(rnd.choice(ALPHABET) for _ in range(ma))
    m.log = []
    kw = dict(min_iter=rnd.randint(0, ma + 1), max_iter=ma, tol=0.25, offset=rnd.choice([0, 0, -1, 1, 7]), failures=rnd.choice(['raise', 'ignore']),
              errors=rnd.choice(['raise', 'skip', 'ignore', 'replace', 'bogus']), catch_first_error=rnd.random() < 0.5)
    return m, kw


def _b_solve_t(rnd):
    m, kw = _scripted_model(rnd)
    t = rnd.choice([0, 2, 4, -1, -3])
    return m, [t], kw, (lambda o, a: {k: o[k] for k in ('X', 'Y', 'Z', 'status', 'iterations')}), (lambda o: o.solve_t)


def _b_solve(rnd):
    m, kw = _scripted_model(rnd)
    if rnd.random() < 0.5:
        kw['start'] = rnd.choice([2000, 2001, 2003, 1999])
    if rnd.random() < 0.5:
        kw['end'] = rnd.choice([2002, 2004, 2000, 2010])
    return m, [], kw, (lambda o, a: {k: o[k] for k in ('X', 'Y', 'Z', 'status', 'iterations')}), (lambda o: o.solve)


def _b_build_definition(rnd):
    import fsic
    from verif import grammar as G
    from props.parser_bounded import programs
    progs = [p for _, p in programs('quick', rnd.randrange(5), 10)]
    symbols = fsic.parse_model(G.render_script(rnd.choice(progs)))
    kw = {k: rnd.choice([None, 0, 1, 3]) for k in ('lags', 'leads') if rnd.random() < 0.5}
    kw.update({k: rnd.choice([0, 2]) for k in ('min_lags', 'min_leads') if rnd.random() < 0.5})
    kw['with_type_hints'] = rnd.random() < 0.5
    return None, [symbols], kw, (lambda o, a: None), (lambda o: fsic.build_model_definition)


def _container(rnd):
    import fsic
    c = fsic.core.VectorContainer(list(range(2000, 2005)))
    c.add_variable('X', [rnd.random() for _ in range(5)])
    c.add_variable('I', [1, 2, 3, 4, 5])
    return c


def _b_resolve_slice(rnd):
    c = _container(rnd)
    pick = lambda: rnd.choice([None, 2000, 2002, 2004, 1990])   # noqa: E731
    return c, [slice(pick(), pick(), rnd.choice([None, 1, 2]))], {}, (lambda o, a: None), (lambda o: o._resolve_period_slice)


def _b_setitem(rnd):
    c = _container(rnd)
    key = rnd.choice(['X', ('X', rnd.choice([2001, 1990])), ('X', slice(rnd.choice([None, 2001]), rnd.choice([None, 2003, 1990]), rnd.choice([None, 2]))), ('nope', 2001)])
    val = rnd.choice([1.5, [9.0] * 5, [1.0, 2.0]])
    return c, [key, val], {}, (lambda o, a: {k: o[k] for k in o.index}), (lambda o: o.__setitem__)


def _b_add_variable(rnd):
    c = _container(rnd)
    return c, [rnd.choice(['X', 'N']), rnd.choice([1.0, [1, 2, 3, 4, 5], [1, 2], [[1, 2], [3, 4]], 'ab', np.ones(5), np.ones((5, 2))])], \
        ({'dtype': rnd.choice([float, int])} if rnd.random() < 0.4 else {}), (lambda o, a: {k: o[k] for k in o.index}), (lambda o: o.add_variable)


def _b_setattr(rnd):
    c = _container(rnd)
    c.strict = rnd.random() < 0.3
    return c, [rnd.choice(['X', 'I', 'note', 'x']), rnd.choice([1.0, [1, 2, 3, 4, 5], [1, 2], [[1, 2]] * 5, 'ab', np.ones(5)])], {}, \
        (lambda o, a: {k: v for k, v in o.__dict__.items()}), (lambda o: o.__setattr__)


def _b_reindex(rnd):
    c = _container(rnd)
    new = [rnd.choice([1999, 2000, 2002, 2004, 2007]) for _ in range(rnd.randint(0, 4))]
    kw = {}
    if rnd.random() < 0.5:
        kw['fill_value'] = rnd.choice([0, 9])
    if rnd.random() < 0.4:
        kw['X'] = 7.5
    if rnd.random() < 0.2:
        kw['nosuch'] = 1
        kw['strict'] = rnd.random() < 0.5
    return c, [new], kw, (lambda o, a: {k: o[k] for k in o.index}), (lambda o: (lambda *a, **k: (lambda r: {kk: r[kk] for kk in r.index})(o.reindex(*a, **k))))


def _b_copy(rnd):
    c = _container(rnd)
    return c, [], {}, (lambda o, a: {k: o[k] for k in o.index}), (lambda o: (lambda: (lambda r: {kk: r[kk] for kk in r.index})(o.copy())))


TARGETS = {
    'C16': [('fsic.functions.shift', _b_shift('shift')), ('fsic.functions.lag', _b_shift('lag')), ('fsic.functions.lead', _b_shift('lead')), ('fsic.functions.diff', _b_shift('diff'))],
    'C03': [('fsic.parser.Symbol.combine', _b_combine), ('fsic.parser.build_model_definition', _b_build_definition)],
    'C01': [('fsic.parser.Term.__str__', _b_term('str')), ('fsic.parser.Term.code', _b_term('code'))],
    'C02': [('fsic.core.models.BaseModel.solve_t', _b_solve_t)],
    'C05': [('fsic.core.interfaces.SolverMixin.solve', _b_solve)],
    'C10': [('fsic.core.containers.VectorContainer._resolve_period_slice', _b_resolve_slice), ('fsic.core.containers.VectorContainer.__setitem__', _b_setitem)],
    'C09': [('fsic.core.containers.VectorContainer.add_variable', _b_add_variable), ('fsic.core.containers.VectorContainer.__setattr__', _b_setattr)],
}
