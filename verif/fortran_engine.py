"""gfortran + ctypes stand-in for the f2py module that FortranEngine expects as `ENGINE`.

f2py / meson cannot be used in this sandbox, gfortran can.  The generated Fortran source is compiled into a shared
object and its three subroutines are wrapped with exactly the calling convention f2py gives them: intent(in)
arguments in order, intent(out) arguments returned as a tuple, dimension arguments hidden, NO index adjustment of
any kind (so the FortranEngine wrapper is exercised as shipped).
"""
from __future__ import annotations

import ctypes
import hashlib
import os
import subprocess
import tempfile

import numpy as np

_CACHE = {}
# one scratch directory per process (created on first use, removed by cleanup()): concurrent runs of the check - a quick and a thorough
# run, or runs against different trees - must not share module files or remove each other's shared objects
SCRATCH = None


def _scratch() -> str:
    global SCRATCH
    if SCRATCH is None or not os.path.isdir(SCRATCH):
        base = os.environ.get('VERIF_SCRATCH') or tempfile.gettempdir()
        os.makedirs(base, exist_ok=True)
        SCRATCH = tempfile.mkdtemp(prefix=f'fsic-verif-fortran-{os.getpid()}-', dir=base)
    return SCRATCH


class CompileError(Exception):
    pass


def compile_source(source: str):
    key = hashlib.sha256(source.encode()).hexdigest()[:20]
    if key in _CACHE:
        return _CACHE[key]
    scratch = _scratch()
    src = os.path.join(scratch, f'm{key}.f95')
    lib = os.path.join(scratch, f'm{key}.so')
    with open(src, 'w') as f:
        f.write(source)
    p = subprocess.run(['gfortran', '-shared', '-fPIC', '-O0', '-J', scratch, '-o', lib, src], capture_output=True, text=True)
    try:
        if p.returncode != 0:
            raise CompileError(p.stderr[-600:])
        dll = ctypes.CDLL(lib)
    finally:
        for pth in (src,):
            try:
                os.unlink(pth)
            except OSError:
                pass
    eng = Engine(dll, lib)
    _CACHE[key] = eng
    return eng


def cleanup():
    import shutil
    global SCRATCH
    _CACHE.clear()
    if SCRATCH is not None:
        shutil.rmtree(SCRATCH, ignore_errors=True)
        SCRATCH = None


def _i(x):
    return ctypes.byref(ctypes.c_int(int(x)))


class Engine:
    def __init__(self, dll, path):
        self.dll = dll
        self.path = path

    def evaluate(self, initial_values, t):
        iv = np.asfortranarray(initial_values, dtype=np.float64)
        nrows, ncols = iv.shape
        out = np.zeros((nrows, ncols), dtype=np.float64, order='F')
        err = ctypes.c_int(0)
        self.dll.evaluate_(iv.ctypes.data_as(ctypes.c_void_p), _i(t), out.ctypes.data_as(ctypes.c_void_p), ctypes.byref(err), _i(nrows), _i(ncols))
        return out, err.value

    def solve_t(self, initial_values, t, min_iter, max_iter, tol, offset, convergence_variables, error_control):
        iv = np.asfortranarray(initial_values, dtype=np.float64)
        nrows, ncols = iv.shape
        cv = np.asarray(convergence_variables, dtype=np.int32)
        out = np.zeros((nrows, ncols), dtype=np.float64, order='F')
        conv = ctypes.c_int(0)
        it = ctypes.c_int(0)
        err = ctypes.c_int(0)
        self.dll.solve_t_(iv.ctypes.data_as(ctypes.c_void_p), _i(t), _i(min_iter), _i(max_iter), ctypes.byref(ctypes.c_double(float(tol))), _i(offset),
                          cv.ctypes.data_as(ctypes.c_void_p), _i(error_control), out.ctypes.data_as(ctypes.c_void_p), ctypes.byref(conv), ctypes.byref(it),
                          ctypes.byref(err), _i(nrows), _i(ncols), _i(len(cv)))
        return out, conv.value != 0, it.value, err.value

    def solve(self, initial_values, indexes, min_iter, max_iter, tol, offset, convergence_variables, failure_control, error_control):
        iv = np.asfortranarray(initial_values, dtype=np.float64)
        nrows, ncols = iv.shape
        cv = np.asarray(convergence_variables, dtype=np.int32)
        ix = np.asarray(indexes, dtype=np.int32)
        n = len(ix)
        out = np.zeros((nrows, ncols), dtype=np.float64, order='F')
        conv = np.zeros(n, dtype=np.int32)
        its = np.zeros(n, dtype=np.int32)
        errs = np.zeros(n, dtype=np.int32)
        self.dll.solve_(iv.ctypes.data_as(ctypes.c_void_p), ix.ctypes.data_as(ctypes.c_void_p), _i(min_iter), _i(max_iter),
                        ctypes.byref(ctypes.c_double(float(tol))), _i(offset), cv.ctypes.data_as(ctypes.c_void_p), _i(failure_control), _i(error_control),
                        out.ctypes.data_as(ctypes.c_void_p), conv.ctypes.data_as(ctypes.c_void_p), its.ctypes.data_as(ctypes.c_void_p),
                        errs.ctypes.data_as(ctypes.c_void_p), _i(nrows), _i(ncols), _i(len(cv)), _i(n))
        return out, conv != 0, its, errs
