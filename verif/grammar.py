"""The C01 program grammar: derivation trees, a layout renderer, and the reference meaning of a script.

The tree is the oracle: it is produced by this generator, never by fsic's regexes.  From a tree we derive
  * script text (under a chosen layout),
  * the reference classification of names (endogenous / exogenous / parameter / error, first-appearance order),
  * the reference LAGS / LEADS,
  * the reference value of every right-hand side on given data (NumPy float64 arithmetic),
  * the read set {(name, offset)} of every equation.
"""
from __future__ import annotations

import itertools
import math
import random
from dataclasses import dataclass, field
from typing import Any, Dict, List, Optional, Sequence, Tuple

import numpy as np

# identifier inventory (DESIGN section 6): single letters, underscores, digits, keyword-prefixed names, names that collide with functions
VAR_NAMES = ['Y', 'C', 'G', 'X1', '_y', 'H_d', 'is_open', 'Pin', 'not_X', 'exp', 'max', 'log10', 'K', 'DK', 'orx', 'ifx']
PARAM_NAMES = ['a', 'alpha_1', 'b2', '_p', 'min']
ERROR_NAMES = ['e', 'eps_1', 'u']
FUNCS1 = ['exp', 'log', 'abs', 'np.sqrt']
FUNCS2 = ['max', 'min']
OFFSETS = [-12, -2, -1, 0, 0, 0, 1, 2, 10]
NUMS = ['2', '0.5', '1.0', '3', '10', '0.25', '0.001']   # integer and decimal literals (no exponent notation: outside the documented syntax)


@dataclass(frozen=True)
class Var:
    kind: str          # 'var' | 'param' | 'err'
    name: str
    k: int = 0


@dataclass(frozen=True)
class Num:
    text: str


@dataclass(frozen=True)
class Bin:
    op: str            # + - * / **
    l: Any
    r: Any


@dataclass(frozen=True)
class Neg:
    x: Any


@dataclass(frozen=True)
class Call:
    f: str
    args: Tuple[Any, ...]


@dataclass(frozen=True)
class Paren:
    x: Any


@dataclass(frozen=True)
class Cond:
    a: Any
    cmp: str           # < <= > >= == !=
    b: Any
    x: Any
    y: Any


@dataclass(frozen=True)
class Verb:
    text: str          # a backticked fragment (kept verbatim)


@dataclass(frozen=True)
class Eq:
    lhs: Var
    rhs: Any


@dataclass
class Layout:
    op_space: str = ' '            # around binary operators
    eq_space: str = ' '
    idx_inner: str = ''            # inside [ ]
    brace_inner: str = ''          # inside { } and < >
    plus_sign: bool = False        # write +k for leads
    zero_index: bool = False       # write [0] explicitly
    wrap_rhs: bool = False         # parenthesise the right-hand side and break lines at operators
    comment: bool = False
    blank_lines: bool = False
    call_space: str = ''           # between a function name and its opening parenthesis (Python allows it)
    newline: str = '\n'            # line separator: \n, \r\n or \r (str.splitlines treats them alike)
    final_newline: bool = False    # the script ends with a line separator
    comment_sep: str = '  # '      # how a trailing comment is attached: after blanks, or glued to the last token ('#')
    paren_inner: str = ''          # blanks directly after an opening and before a closing parenthesis: '( B + C )', 'max( Y, C )'
    wrap_own_lines: bool = False   # a wrapped right-hand side has its outer brackets on lines of their own
    inner_blank: str = ''          # inside a wrapped (parenthesised, multi-line) right-hand side: '' / 'blank' / 'spaces' / 'comment' line between two continuation lines

    @staticmethod
    def random(rnd: random.Random) -> 'Layout':
        return Layout(newline=rnd.choice(['\n', '\n', '\r\n', '\r']), final_newline=rnd.random() < 0.3, inner_blank=rnd.choice(['', '', 'blank', 'spaces', 'comment']), comment_sep=rnd.choice(['  # ', '  # ', '#', ' #', '\t# ']),
                      op_space=rnd.choice([' ', '', '  ', '\t']), eq_space=rnd.choice([' ', '', '   ', '\t']),
                      idx_inner=rnd.choice(['', ' ']), brace_inner=rnd.choice(['', ' ', '  ']), plus_sign=rnd.random() < 0.5,
                      zero_index=rnd.random() < 0.3, wrap_rhs=rnd.random() < 0.3, comment=rnd.random() < 0.3,
                      blank_lines=rnd.random() < 0.3, call_space=rnd.choice(['', '', ' ', '  ']),
                      paren_inner=rnd.choice(['', '', ' ', '  ']), wrap_own_lines=rnd.random() < 0.4)


PLAIN = Layout()


# --------------------------------------------------------------------------------------------------
# rendering
# --------------------------------------------------------------------------------------------------
def render_var(v: Var, lay: Layout) -> str:
    if v.kind == 'param':
        base = '{' + lay.brace_inner + v.name + lay.brace_inner + '}'
    elif v.kind == 'err':
        base = '<' + lay.brace_inner + v.name + lay.brace_inner + '>'
    else:
        base = v.name
    if v.k == 0 and not lay.zero_index:
        return base
    if v.k > 0 and lay.plus_sign:
        idx = f'+{v.k}'
    else:
        idx = str(v.k)
    return f'{base}[{lay.idx_inner}{idx}{lay.idx_inner}]'


_PREC = {'+': 1, '-': 1, '*': 2, '/': 2, '**': 4}


def prec(e) -> int:
    if isinstance(e, Bin):
        return _PREC[e.op]
    if isinstance(e, Neg):
        return 3
    if isinstance(e, Num) and e.text.startswith('-'):
        return 3
    return 5            # atoms, calls, parenthesised expressions, conditionals (always rendered in parentheses)


def render(e, lay: Layout = PLAIN, *, brk: str = '') -> str:
    """Text whose Python parse is exactly the tree (parentheses are added wherever precedence requires them)."""
    sp = lay.op_space
    pi = lay.paren_inner

    def sub(x, need: bool):
        s_ = render(x, lay, brk=brk)
        return '(' + pi + s_ + pi + ')' if need else s_
    if isinstance(e, Var):
        return render_var(e, lay)
    if isinstance(e, Num):
        return e.text
    if isinstance(e, Bin):
        p = _PREC[e.op]
        right_assoc = e.op == '**'
        left = sub(e.l, prec(e.l) < p or (prec(e.l) == p and right_assoc))
        right = sub(e.r, prec(e.r) < p or (prec(e.r) == p and not right_assoc))
        if e.op == '**' and isinstance(e.r, Neg):
            right = render(e.r, lay, brk=brk)
        opsp = sp
        return f'{left}{opsp}{e.op}{brk}{opsp}{right}'
    if isinstance(e, Neg):
        inner = sub(e.x, prec(e.x) < 3 or isinstance(e.x, Neg))
        return '-' + inner
    if isinstance(e, Call):
        return f'{e.f}{lay.call_space}(' + pi + (',' + (sp or ' ')).join(render(a, lay, brk=brk) for a in e.args) + pi + ')'
    if isinstance(e, Paren):
        return '(' + pi + render(e.x, lay, brk=brk) + pi + ')'
    if isinstance(e, Cond):
        return f'({pi}{render(e.x, lay)} if {render(e.a, lay)} {e.cmp} {render(e.b, lay)} else {render(e.y, lay)}{pi})'
    if isinstance(e, Verb):
        return '`' + e.text + '`'
    raise TypeError(e)


def render_eq(eq: Eq, lay: Layout = PLAIN) -> str:
    # the left-hand side is written compactly: fsic's statement pattern takes the left-hand side as one whitespace-free token
    # (a space inside the index brackets there is rejected loudly with ParserError; see DESIGN 8.1, C14)
    lhs = render_var(eq.lhs, Layout(plus_sign=lay.plus_sign, zero_index=lay.zero_index and eq.lhs.kind == 'var'))
    if lay.wrap_rhs:
        rhs = ('(\n    ' + render(eq.rhs, lay, brk='\n        ') + '\n)') if lay.wrap_own_lines else ('(' + lay.paren_inner + render(eq.rhs, lay, brk='\n        ') + lay.paren_inner + ')')
        if lay.inner_blank and '\n' in rhs:
            filler = {'blank': '', 'spaces': '      ', 'comment': '    # a comment-only line inside the brackets (see `x` [1]'}[lay.inner_blank]
            rhs = rhs.replace('\n', '\n' + filler + '\n', 1)
    else:
        rhs = render(eq.rhs, lay)
    s = f'{lhs}{lay.eq_space}={lay.eq_space}{rhs}'
    if lay.comment:
        s += lay.comment_sep + 'note #1) it\'s a "quoted" `tick` comment = {x} <y> [1] Zq9[-14] + Zq8[+13] (see # more'
    return s


def render_script(eqs: Sequence[Eq], lay: Layout = PLAIN) -> str:
    lines = []
    for i, q in enumerate(eqs):
        if lay.blank_lines and i:
            lines.append('')
        if lay.comment and i == 0:
            lines.append('# leading comment line (1 of 2, don\'t read `this` Zq7[-15]')
        lines.append(render_eq(q, lay))
    # (a wrapped right-hand side contains line breaks of its own: they follow the layout's separator too)
    return lay.newline.join(ln for chunk in lines for ln in chunk.split('\n')) + (lay.newline if lay.final_newline and lines else '')


# --------------------------------------------------------------------------------------------------
# reference meaning
# --------------------------------------------------------------------------------------------------
def terms(e) -> List[Var]:
    """Variable-like terms in textual order."""
    if isinstance(e, Var):
        return [e]
    if isinstance(e, (Num, Verb)):
        return []
    if isinstance(e, Bin):
        return terms(e.l) + terms(e.r)
    if isinstance(e, (Neg, Paren)):
        return terms(e.x)
    if isinstance(e, Call):
        return [t for a in e.args for t in terms(a)]
    if isinstance(e, Cond):
        return terms(e.x) + terms(e.a) + terms(e.b) + terms(e.y)
    raise TypeError(e)


def always_read_terms(e) -> List[Var]:
    """Terms read on every evaluation (terms inside the branches of a conditional expression are read only when taken)."""
    if isinstance(e, Var):
        return [e]
    if isinstance(e, (Num, Verb)):
        return []
    if isinstance(e, Bin):
        return always_read_terms(e.l) + always_read_terms(e.r)
    if isinstance(e, (Neg, Paren)):
        return always_read_terms(e.x)
    if isinstance(e, Call):
        return [t for a in e.args for t in always_read_terms(a)]
    if isinstance(e, Cond):
        return always_read_terms(e.a) + always_read_terms(e.b)
    raise TypeError(e)


def funcs(e) -> List[str]:
    if isinstance(e, Call):
        return [e.f] + [f for a in e.args for f in funcs(a)]
    if isinstance(e, Bin):
        return funcs(e.l) + funcs(e.r)
    if isinstance(e, (Neg, Paren)):
        return funcs(e.x)
    if isinstance(e, Cond):
        return funcs(e.x) + funcs(e.a) + funcs(e.b) + funcs(e.y)
    return []


def classify(eqs: Sequence[Eq]) -> Dict[str, Any]:
    """Reference classification (C03): partition in order endogenous, exogenous, parameters, errors; first appearance order."""
    endo = []
    for q in eqs:
        if q.lhs.name not in endo:
            endo.append(q.lhs.name)
    order: List[Tuple[str, str]] = []
    for q in eqs:
        for v in [q.lhs] + terms(q.rhs):
            kind = {'param': 'parameter', 'err': 'error'}.get(v.kind, 'endogenous' if v.name in endo else 'exogenous')
            if (v.name, kind) not in order:
                order.append((v.name, kind))
    out = {k: [n for n, kk in order if kk == k] for k in ('endogenous', 'exogenous', 'parameter', 'error')}
    ks = [v.k for q in eqs for v in [q.lhs] + terms(q.rhs)]
    out['lags'] = max([-k for k in ks] + [0])
    out['leads'] = max(ks + [0])
    out['names'] = out['endogenous'] + out['exogenous'] + out['parameter'] + out['error']
    return out


def conflicts(eqs: Sequence[Eq]) -> bool:
    """True when the script must be rejected: a name used both as variable and as parameter/error (or as parameter and error),
    or an endogenous variable defined by two different equations."""
    kinds: Dict[str, set] = {}
    for q in eqs:
        for v in [q.lhs] + terms(q.rhs):
            kinds.setdefault(v.name, set()).add(v.kind)
    if any(len(k) > 1 for k in kinds.values()):
        return True
    seen: Dict[str, Eq] = {}
    for q in eqs:
        if q.lhs.name in seen and seen[q.lhs.name] != q:
            return True
        seen[q.lhs.name] = q
    return False


def var_function_collision(eqs: Sequence[Eq]) -> bool:
    """A name used both as a variable-like term and as a function in the same script (recorded finding: fsic drops the variable)."""
    names = {v.name for q in eqs for v in [q.lhs] + terms(q.rhs)}
    fs = {f for q in eqs for f in funcs(q.rhs)}
    return bool(names & fs)


_NP_FUNCS = {'exp': np.exp, 'log': np.log, 'abs': abs, 'np.sqrt': np.sqrt, 'max': max, 'min': min}


def evaluate(e, data: Dict[str, np.ndarray], t: int, env: Optional[Dict[str, Any]] = None):
    """Reference value under Python/NumPy float64 arithmetic (reads exactly data[name][t + k])."""
    if isinstance(e, Var):
        return data[e.name][t + e.k]
    if isinstance(e, Num):
        return eval(e.text)       # a numeric literal of the grammar
    if isinstance(e, Bin):
        a, b = evaluate(e.l, data, t, env), evaluate(e.r, data, t, env)
        if e.op == '+':
            return a + b
        if e.op == '-':
            return a - b
        if e.op == '*':
            return a * b
        if e.op == '/':
            return a / b
        if e.op == '**':
            return a ** b
    if isinstance(e, Neg):
        return -evaluate(e.x, data, t, env)
    if isinstance(e, Paren):
        return evaluate(e.x, data, t, env)
    if isinstance(e, Call):
        return _NP_FUNCS[e.f](*[evaluate(a, data, t, env) for a in e.args])
    if isinstance(e, Cond):
        a, b = evaluate(e.a, data, t, env), evaluate(e.b, data, t, env)
        c = {'<': a < b, '<=': a <= b, '>': a > b, '>=': a >= b, '==': a == b, '!=': a != b}[e.cmp]
        return evaluate(e.x, data, t, env) if c else evaluate(e.y, data, t, env)
    if isinstance(e, Verb):
        return eval(e.text, {'np': np}, dict(env or {}))
    raise TypeError(e)


def reference_pass(eqs: Sequence[Eq], data: Dict[str, np.ndarray], t: int) -> Dict[str, np.ndarray]:
    """One Gauss-Seidel evaluation pass in symbol-list order (= order of first definition), on a copy of data."""
    d = {k: v.copy() for k, v in data.items()}
    done = []
    for q in eqs:
        if q.lhs.name in done:
            continue
        done.append(q.lhs.name)
    order = classify(eqs)['names']
    by_name = {}
    for q in eqs:
        by_name.setdefault(q.lhs.name, q)
    for nme in order:
        if nme in by_name:
            q = by_name[nme]
            d[q.lhs.name][t + q.lhs.k] = evaluate(q.rhs, d, t)
    return d


# --------------------------------------------------------------------------------------------------
# generation
# --------------------------------------------------------------------------------------------------
def _has_var(e) -> bool:
    return bool(terms(e)) or isinstance(e, Verb)


def _risky_constant(e) -> bool:
    if isinstance(e, Call):
        return any(not _has_var(a) for a in e.args) or any(_risky_constant(a) for a in e.args)
    if isinstance(e, Bin):
        if e.op in ('/', '**') and not isinstance(e.r, Num) and not _has_var(e.r):
            return True
        if e.op == '**' and not _has_var(e.l) and not isinstance(e.l, Num):
            return True
        return _risky_constant(e.l) or _risky_constant(e.r)
    if isinstance(e, (Neg, Paren)):
        return _risky_constant(e.x)
    if isinstance(e, Cond):
        return any(_risky_constant(x) for x in (e.a, e.b, e.x, e.y))
    return False


class Gen:
    def __init__(self, rnd: random.Random, *, max_depth: int = 3, allow_cond: bool = True, allow_pow: bool = True,
                 names: Optional[Sequence[str]] = None, fortran_subset: bool = False):
        self.rnd = rnd
        self.max_depth = max_depth
        self.allow_cond = allow_cond
        self.allow_pow = allow_pow
        self.fortran = fortran_subset
        self.var_names = list(names or VAR_NAMES)

    def var(self, endo: Sequence[str] = ()) -> Var:
        r = self.rnd.random()
        k = self.rnd.choice(OFFSETS)
        if r < 0.65:
            return Var('var', self.rnd.choice(self.var_names), k)
        if r < 0.85:
            return Var('param', self.rnd.choice(PARAM_NAMES), k if self.rnd.random() < 0.2 else 0)
        return Var('err', self.rnd.choice(ERROR_NAMES), k if self.rnd.random() < 0.2 else 0)

    def expr(self, depth: int = 0):
        # Literal-only sub-expressions that can warn or fail when evaluated (log(-1.0), 2 / (0.5 - 0.5)) are kept out of the grammar:
        # fsic's optional syntax check executes the statement (recorded finding F13, reported by C13), which would reject them.
        for _ in range(50):
            e = self._expr(depth)
            if not _risky_constant(e):
                return e
        return self.var()

    def _expr(self, depth: int = 0):
        r = self.rnd.random()
        if depth >= self.max_depth or r < 0.3:
            return self.var() if self.rnd.random() < 0.8 else Num(self.rnd.choice(NUMS))
        if r < 0.7:
            ops = ['+', '-', '*', '/'] + (['**'] if self.allow_pow else [])
            op = self.rnd.choice(ops)
            left = self.expr(depth + 1)
            right = self.expr(depth + 1) if op != '**' else Num(self.rnd.choice(['2', '3']))
            return Bin(op, left, right)
        if r < 0.78:
            return Neg(self.expr(depth + 1))
        if r < 0.88:
            return Paren(self.expr(depth + 1))
        if r < 0.96 or not self.allow_cond:
            if self.rnd.random() < 0.6:
                f = self.rnd.choice(FUNCS1 if not self.fortran else ['exp', 'log', 'abs'])
                return Call(f, (self.expr(depth + 1),))
            return Call(self.rnd.choice(FUNCS2), (self.expr(depth + 1), self.expr(depth + 1)))
        return Cond(self.var(), self.rnd.choice(['<', '<=', '>', '>=']), self.var(), self.expr(depth + 1), self.expr(depth + 1))

    def program(self, n_eq: int) -> List[Eq]:
        """A conflict-free program: distinct left-hand sides; names keep one kind."""
        for _ in range(200):
            eqs = []
            used_lhs = []
            for _ in range(n_eq):
                lhs = self.rnd.choice([v for v in self.var_names if v not in used_lhs])
                used_lhs.append(lhs)
                eqs.append(Eq(Var('var', lhs, 0), self.expr()))
            if not conflicts(eqs) and not var_function_collision(eqs):
                return eqs
        raise RuntimeError('could not generate a conflict-free program')


def small_programs() -> List[List[Eq]]:
    """Deterministic catalogue of small programs that exercises every grammar feature at least once."""
    V_ = lambda n, k=0: Var('var', n, k)      # noqa: E731
    P_ = lambda n, k=0: Var('param', n, k)    # noqa: E731
    E_ = lambda n, k=0: Var('err', n, k)      # noqa: E731
    progs = [
        [Eq(V_('Y'), Bin('+', Bin('+', V_('C'), V_('I')), V_('G')))],
        [Eq(V_('C'), Bin('+', Bin('*', P_('alpha_1'), V_('YD')), Bin('*', P_('alpha_2'), V_('H', -1))))],
        [Eq(V_('H'), Bin('+', V_('H', -1), Bin('-', V_('YD'), V_('C')))), Eq(V_('YD'), Bin('-', V_('Y'), V_('T')))],
        [Eq(V_('Y'), Bin('+', V_('X', 1), V_('X', -12)))],
        [Eq(V_('Y'), Bin('+', Bin('*', P_('a'), V_('X')), E_('e')))],
        [Eq(V_('Y'), Call('exp', (Bin('*', P_('b2'), Call('log', (V_('X'),))),)))],
        [Eq(V_('Y'), Call('max', (V_('X'), Call('min', (V_('Z'), Num('2'))))))],
        [Eq(V_('Y'), Neg(Paren(Bin('-', V_('X'), Num('0.5')))))],
        [Eq(V_('Y'), Bin('**', V_('X'), Num('2')))],
        [Eq(V_('is_open'), Bin('+', V_('Pin'), V_('not_X', -1)))],
        [Eq(V_('_y'), Bin('*', V_('X1'), V_('log10')))],
        [Eq(V_('Y'), Cond(V_('X'), '<', V_('Z'), V_('X'), Bin('*', V_('Z'), Num('2'))))],
        [Eq(V_('Y'), Call('np.sqrt', (Call('abs', (V_('X'),)),)))],
        [Eq(V_('Y'), Bin('+', P_('a', -1), E_('u', 1)))],
        [Eq(V_('K'), Bin('+', V_('K', -1), V_('DK'))), Eq(V_('DK'), Bin('*', P_('a'), V_('K', -1)))],
        [Eq(V_('Y'), Bin('/', Bin('-', V_('X', 2), V_('X', -2)), Num('4'))), Eq(V_('Z'), Bin('+', V_('Y', -1), V_('Y', 1)))],
        [Eq(V_('A'), Bin('+', V_('X', -1), Bin('*', P_('a'), V_('B')))), Eq(V_('B'), Bin('+', V_('X', 2), V_('A', -2)))],
        [],
        # identifiers that are soft keywords or built-in names are ordinary variable names (only reserved words are keywords)
        [Eq(V_('match'), Bin('+', V_('case', -1), Bin('*', P_('type'), V_('print'))))],
        [Eq(V_('type'), Bin('-', V_('match', 1), E_('case', -2)))],
        # an offset on the left-hand side is an offset of the script like any other (LAGS / LEADS, default range, graph node)
        [Eq(V_('K', 1), Bin('+', V_('K'), V_('DK')))],
        [Eq(V_('H', -2), Bin('-', V_('H', -1), V_('C'))), Eq(V_('C'), Bin('*', P_('a'), V_('H', -2)))],
        # max / min take any number of arguments
        [Eq(V_('Y'), Call('max', (V_('X'), V_('Z'), Num('1.5')))), Eq(V_('W'), Call('min', (V_('X'), V_('Y', -1), V_('Z'), Num('2'))))],
        # a partial verbatim fragment in the middle of an equation: the terms after it count like the ones before it
        # (the deepest lag / furthest lead of the script may well stand behind a fragment)
        [Eq(V_('K'), Bin('-', Bin('+', V_('K', -1), V_('I')), Bin('*', Verb('0.1'), V_('K', -2))))],
        [Eq(V_('Y'), Bin('+', Bin('*', Verb('2.0'), V_('X', 1)), Bin('*', P_('b'), E_('u', 3))))],
    ]
    return progs


# --------------------------------------------------------------------------------------------------
# text -> tree (used to replay stored cases; independent of fsic: Python's own parser after bracket substitution)
# --------------------------------------------------------------------------------------------------
def parse_script(script: str) -> List[Eq]:
    import ast as _ast
    import re as _re
    verb: List[str] = []

    def v_sub(m):
        verb.append(m.group(1))
        return f'V__{len(verb) - 1}'
    # strip comments, join parenthesised continuation lines
    lines = [ln.split('#', 1)[0].rstrip() for ln in script.splitlines()]
    stmts, buf, depth = [], [], 0
    for ln in lines:
        if not ln.strip() and depth == 0:
            continue
        buf.append(ln)
        depth += ln.count('(') - ln.count(')')
        if depth == 0:
            stmts.append(' '.join(buf))
            buf = []
    ops = {_ast.Add: '+', _ast.Sub: '-', _ast.Mult: '*', _ast.Div: '/', _ast.Pow: '**'}
    cmps = {_ast.Lt: '<', _ast.LtE: '<=', _ast.Gt: '>', _ast.GtE: '>=', _ast.Eq: '==', _ast.NotEq: '!='}

    def mk(name, k):
        if name.startswith('P__'):
            return Var('param', name[3:], k)
        if name.startswith('E__'):
            return Var('err', name[3:], k)
        return Var('var', name, k)

    def num_text(n):
        return repr(n.value)

    def conv(n):
        if isinstance(n, _ast.Name):
            if n.id.startswith('V__'):
                return Verb(verb[int(n.id[3:])])
            return mk(n.id, 0)
        if isinstance(n, _ast.Subscript):
            k = n.slice
            if isinstance(k, _ast.UnaryOp):
                kv = -k.operand.value if isinstance(k.op, _ast.USub) else k.operand.value
            else:
                kv = k.value
            return mk(n.value.id, kv)
        if isinstance(n, _ast.Constant):
            return Num(num_text(n))
        if isinstance(n, _ast.BinOp):
            return Bin(ops[type(n.op)], conv(n.left), conv(n.right))
        if isinstance(n, _ast.UnaryOp):
            return Neg(conv(n.operand))
        if isinstance(n, _ast.Call):
            f = n.func.id if isinstance(n.func, _ast.Name) else 'np.' + n.func.attr
            return Call(f, tuple(conv(a) for a in n.args))
        if isinstance(n, _ast.IfExp):
            return Cond(conv(n.test.left), cmps[type(n.test.ops[0])], conv(n.test.comparators[0]), conv(n.body), conv(n.orelse))
        raise TypeError(n)
    out = []
    for st in stmts:
        py = _re.sub(r'`([^`]+)`', v_sub, st)
        py = _re.sub(r'\{\s*(\w+)\s*\}', r'P__\1', py)
        py = _re.sub(r'<\s*(\w+)\s*>', r'E__\1', py)
        py = py.strip()
        if py.startswith('(') and py.endswith(')') and '=' in py and not _re.match(r'^\([^=]*\)\s*=', py):
            py = py[1:-1]
        lhs, rhs = py.split('=', 1) if not _re.search(r'[<>=!]=', py.split('=', 1)[0] + '=') else py.split('=', 1)
        tree = _ast.parse(f'{lhs.strip()} = {rhs.strip()}').body[0]
        out.append(Eq(conv(tree.targets[0]), conv(tree.value)))
    return out
